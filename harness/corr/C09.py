"""C09  Geometry matching and comparison mean what they say.

Tie T: TC09a-d (alignment body, crop/pad body, geometry_equal decision, bounds-check bodies of
`volume.py`, regenerated).  Tie C: Model/Match.lean (matchGeometry, geometryEqual, v2v, refToIdx) against
`Volume.match_geometry`, `geometry_equal`, `VolumeToVolumeTransformer`, `map_reference_to_indices`.

Oracle (independent of the model and of the library's own comparison): exact `Fraction` arithmetic on the
affines that come back + unique voxel values: every voxel of the matched volume either carries the value
of the source voxel that sits at the same physical position, or the padding value and then no source
voxel sits there; entrywise |result - target| <= tol + rtol |target|; reachable targets must be matched;
frame-of-reference / coordinate-system conflicts must be refused; index mapping equals the exact solution
of to.affine y = from.affine x; a bounds check fails iff some point has a coordinate outside
[-1/2, n - 1/2] (rounded output of the transformer: iff some returned index is not an index of the array).
"""
from __future__ import annotations

import itertools
from fractions import Fraction as F

import numpy as np

PROP = 'C09'
TARGETS = ['TC09a', 'TC09b', 'TC09c', 'TC09d', 'TC09e', 'TC09f', 'TC09g', 'TC09h', 'TC09i', 'TC09j', 'TC09k']
LEAN_MODULES = ['HdVerif.Props.C09']
MODEL_MODULES = ['HdVerif.Model.Match']
NAMESPACE = 'HdVerif.C09'
DRIVER = 'Drivers/C09.lean'
RULE = ('chain: random source volume (shape 1..6 per axis, 48 signed axis permutations x optional 3-4-5 rotation, '
        'dyadic spacing/position, unique voxel values) and a target derived by a random chain (0..5) of '
        'permute/flip/crop(prefix,suffix,interior,strided,negative stride)/pad, one case = one match_geometry call; '
        'perturb: such a pair with the target shifted / rescaled / rotated by 1/64, 1/4.04, 4.04, 64 times a decision '
        'boundary, or with another frame of reference / coordinate system; geq: pairs differing in one attribute or one '
        'affine entry at 1/4.04 and 4.04 times the allclose boundary; v2v: two geometries and point sets inside / exactly '
        'on the boundary (power-of-two class) / outside, all four (round, check) combinations, plus '
        'map_reference_to_indices; v2vdt: index arrays of dtype int8/uint8/int16/uint16/int32/uint32/int64/uint64/float16/32/64/bool '
        'with magnitudes up to the limits of the dtype (64-bit: 2^40), power-of-two class geometries, exact integer/Fraction '
        'oracle; v2vhist: 2-7 calls on ONE transformer object (and one geometry object) with different dtypes and point counts '
        '(repeated counts, integer-then-float and narrow-then-wide orders), each answer against the exact oracle and a fresh '
        'object, object state and input arrays must not change; chain also draws the spelling of the target / source shape '
        '(tuple / list / np.int64 / ndarray / ceil().astype(int)) and the memory layout of the source array; padspell: pad widths '
        'as int / np.int64 / np.int32 / np.int16 / np.uint8 / np.uint16 in lists / tuples, single and pair form.  Non-trivial = the call reaches the comparison of interest (not an early refusal); '
        'distinct by (stream, ops / perturbation kind, shapes, orientation class, outcome).')
ASSUMPTIONS = [
    'spacing = norm of an affine column and unit vector = column / norm return the factors the geometry was built from '
    '(a fact about real numbers; inputs are built from orthonormal rational directions times positive spacings)',
    'float64 evaluation of the comparisons agrees with exact rational evaluation when every compared quantity is at '
    'least a factor 4 away from its boundary (cases inside the band are generated only for the oracle, not compared with the model)',
    'np.round / np.around round half to even; np.allclose(a, b, atol) is |a-b| <= atol + 1e-5 |b| entrywise',
    'np.linalg.inv returns the inverse (model: adjugate / determinant), exactly for scaled signed permutation '
    'matrices with power-of-two spacings, to 2^-40 relative otherwise',
    'padding is one constant value (modes CONSTANT, MINIMUM, MAXIMUM); other modes: overlap clause by the oracle only',
    'np.isclose accepts identical entries whatever atol is (its `x == y` term; geometry_equal(g, g, tol=-1.0) is True): modelled since '
    'audit 2 (closeEntry), the geq and rel streams draw a negative tolerance too',
]
MODELLED_NOT_VERIFIED = ['numpy transpose / pad / basic slicing', 'np.linalg.inv, np.dot in float64',
                         'Volume / VolumeGeometry constructors (orthogonality test of the affine)',
                         'channel dimensions (carried along unchanged; oracle only)']

TOL = F(1, 100000)
RTOL = F(1, 100000)
CV = -7            # padding constant (never a source voxel value)


# ------------------------------------------------------------------------------------------ exact geometry
def fr(x):
    return F(x)


def rat(x):
    x = F(x)
    return str(x.numerator) if x.denominator == 1 else f'{x.numerator}/{x.denominator}'


def signed_perms():
    out = []
    for p in itertools.permutations(range(3)):
        for s in itertools.product((1, -1), repeat=3):
            cols = []
            for i in range(3):
                v = [F(0)] * 3
                v[p[i]] = F(s[i])
                cols.append(v)
            out.append(cols)
    return out


SP = signed_perms()
PYTH = [(F(3, 5), F(4, 5)), (F(5, 13), F(12, 13)), (F(8, 17), F(15, 17))]


def rot_about(axis, c, s):
    """rotation matrix (rows) about a coordinate axis with cos c, sin s (exact when c^2+s^2=1)"""
    a, b = [(1, 2), (2, 0), (0, 1)][axis]
    R = [[F(int(i == j)) for j in range(3)] for i in range(3)]
    R[a][a], R[a][b], R[b][a], R[b][b] = c, -s, s, c
    return R


def mat_vec(R, v):
    return [sum(R[i][j] * v[j] for j in range(3)) for i in range(3)]


def dot(a, b):
    return sum(x * y for x, y in zip(a, b))


def to_ref(g, x):
    """exact reference position of (continuous) index x"""
    return [g['pos'][c] + sum(F(x[a]) * g['spacing'][a] * g['dir'][a][c] for a in range(3)) for c in range(3)]


def to_idx(g, P):
    """exact continuous index of reference position P (orthonormal directions)"""
    d = [P[c] - g['pos'][c] for c in range(3)]
    return [dot(g['dir'][a], d) / g['spacing'][a] for a in range(3)]


def affine12(g):
    """three columns then translation, exact"""
    out = []
    for a in range(3):
        out += [g['spacing'][a] * g['dir'][a][c] for c in range(3)]
    return out + list(g['pos'])


def affine_np(g):
    A = np.eye(4)
    for a in range(3):
        for c in range(3):
            A[c, a] = float(g['spacing'][a] * g['dir'][a][c])
    for c in range(3):
        A[c, 3] = float(g['pos'][c])
    return A


def geom_json(g):
    return {'dir': [[rat(x) for x in d] for d in g['dir']], 'spacing': [rat(x) for x in g['spacing']],
            'pos': [rat(x) for x in g['pos']], 'shape': [int(n) for n in g['shape']], 'cs': g['cs'], 'for': g['for']}


def copy_geom(g):
    return {'dir': [list(d) for d in g['dir']], 'spacing': list(g['spacing']), 'pos': list(g['pos']),
            'shape': list(g['shape']), 'cs': g['cs'], 'for': g['for'], 'exact': g['exact']}


def random_source(r, small=True):
    dirs = [list(d) for d in r.choice(SP)]
    exact = True
    if r.random() < 0.3:
        c, s = r.choice(PYTH)
        if r.random() < 0.5:
            c, s = s, c
        R = rot_about(r.randrange(3), c, s * r.choice((1, -1)))
        dirs = [mat_vec(R, d) for d in dirs]
        exact = False
    spac = [r.choice([F(1, 2), F(3, 4), F(1), F(1), F(5, 4), F(2), F(3), F(5, 2)]) for _ in range(3)]
    pos = [F(r.randint(-400, 400), r.choice([1, 2, 4, 8])) for _ in range(3)]
    if r.random() < 0.15:
        pos = [p * 16 for p in pos]
    shape = [r.choice([1, 2, 2, 3, 3, 4, 5, 6]) for _ in range(3)]
    return {'dir': dirs, 'spacing': spac, 'pos': pos, 'shape': shape, 'cs': r.choice(['PATIENT', 'PATIENT', 'SLIDE']),
            'for': r.choice(['1.2.826.0.1.3680043.8.498.1', '1.2.826.0.1.3680043.8.498.2', None]), 'exact': exact}


# ------------------------------------------------------------------------------------------ chains (independent ops)
def op_permute(g, idx, p):
    h = copy_geom(g)
    h['dir'] = [g['dir'][p[i]] for i in range(3)]
    h['spacing'] = [g['spacing'][p[i]] for i in range(3)]
    h['shape'] = [g['shape'][p[i]] for i in range(3)]
    return h, np.transpose(idx, p)


def op_slice(g, idx, sls):
    """sls: per axis (start, stop, step) already normalised to the axis (range(start, stop, step) non-empty)"""
    h = copy_geom(g)
    first = [s[0] for s in sls]
    h['pos'] = to_ref(g, first)
    for a, (st, sp, step) in enumerate(sls):
        n = len(range(st, sp, step))
        h['shape'][a] = n
        h['spacing'][a] = g['spacing'][a] * abs(step)
        if step < 0:
            h['dir'][a] = [-x for x in g['dir'][a]]
    out = idx
    for a, (st, sp, step) in enumerate(sls):
        sel = list(range(st, sp, step))
        out = np.take(out, sel, axis=a)
    return h, out


def op_pad(g, idx, pads):
    h = copy_geom(g)
    h['pos'] = to_ref(g, [-p[0] for p in pads])
    h['shape'] = [g['shape'][a] + pads[a][0] + pads[a][1] for a in range(3)]
    return h, np.pad(idx, pads, mode='constant', constant_values=-1)


def random_chain(r, g, idx, length):
    ops = []
    for _ in range(length):
        kind = r.choice(['permute', 'flip', 'crop', 'crop', 'pad', 'strided', 'negstride'])
        n = g['shape']
        if kind == 'permute':
            p = list(r.choice(list(itertools.permutations(range(3)))))
            g, idx = op_permute(g, idx, p)
            ops.append('permute')
        elif kind == 'flip':
            axes = [a for a in range(3) if r.random() < 0.5] or [r.randrange(3)]
            g, idx = op_slice(g, idx, [(n[a] - 1, -1, -1) if a in axes else (0, n[a], 1) for a in range(3)])
            ops.append('flip')
        elif kind in ('crop', 'strided', 'negstride'):
            sls, tags = [], set()
            for a in range(3):
                if r.random() < 0.45:
                    sls.append((0, n[a], 1))
                    continue
                st = r.randrange(n[a])
                sp = r.randint(st + 1, n[a])
                step = 1 if kind == 'crop' else r.choice([2, 2, 3])
                if st > 0 and sp < n[a]:
                    tags.add('interior')
                elif st > 0:
                    tags.add('prefix')
                elif sp < n[a]:
                    tags.add('suffix')
                if kind == 'negstride':
                    sls.append((sp - 1, st - 1, -r.choice([1, 2])))
                    tags.add('negstride')
                else:
                    sls.append((st, sp, step))
                    if step > 1:
                        tags.add('strided')
            g, idx = op_slice(g, idx, sls)
            ops.append('crop:' + '+'.join(sorted(tags)) if tags else 'crop:none')
        else:
            pads = [(r.choice([0, 0, 1, 2, 3]), r.choice([0, 0, 1, 2])) for _ in range(3)]
            g, idx = op_pad(g, idx, pads)
            ops.append('pad')
        if max(g['shape']) > 14:           # keep arrays small
            break
    return g, idx, ops


# ------------------------------------------------------------------------------------------ implementation objects
def full_array(arr, channels=0):
    """array handed to Volume: `channels` channel planes with unrelated contents (0 = no channel dimension)"""
    if not channels:
        return arr
    planes = [arr] + [((arr.astype(np.int64) * (37 * i + 11)) % 101 - 40 * i).astype(arr.dtype) for i in range(1, channels)]
    return np.stack(planes, axis=-1)


LAYOUTS = ['C', 'C', 'C', 'F', 'transposed-view', 'strided-view', 'negative-stride-view', 'read-only']
SHAPE_SPELLINGS = ['tuple-int', 'tuple-int', 'list-int', 'tuple-np.int64', 'ndarray-int64', 'ndarray-int32', 'ceil-astype-int']


def with_layout(a, layout):
    """the same values in another memory layout (AGENT_GUIDE 3a)"""
    if layout == 'F':
        return np.asfortranarray(a)
    if layout == 'transposed-view':
        return np.ascontiguousarray(a.T).T
    if layout == 'strided-view':
        big = np.zeros((a.shape[0] * 2,) + a.shape[1:], a.dtype)
        big[::2] = a
        return big[::2]
    if layout == 'negative-stride-view':
        return np.ascontiguousarray(a[::-1])[::-1]
    if layout == 'read-only':
        b = a.copy()
        b.flags.writeable = False
        return b
    return a


def spell_shape(shape, spelling):
    """the same spatial shape in another accepted spelling (AGENT_GUIDE 3a: int vs numpy int, tuple vs list vs ndarray)"""
    ints = [int(n) for n in shape]
    if spelling == 'list-int':
        return ints
    if spelling == 'tuple-np.int64':
        return tuple(np.int64(n) for n in ints)
    if spelling == 'ndarray-int64':
        return np.array(ints, dtype=np.int64)
    if spelling == 'ndarray-int32':
        return np.array(ints, dtype=np.int32)
    if spelling == 'ceil-astype-int':
        return np.ceil(np.array(ints, dtype=float) - 0.25).astype(int)      # extent / spacing style computation
    return tuple(ints)


def make_volume(g, arr, channels=0, layout='C'):
    from highdicom.volume import Volume
    kw = {}
    if channels:
        from highdicom.volume import ChannelDescriptor
        kw['channels'] = {ChannelDescriptor('chan', is_custom=True, value_type=int): list(range(channels))}
    return Volume(with_layout(full_array(arr, channels), layout), affine_np(g), g['cs'], frame_of_reference_uid=g['for'], **kw)


def pad_vector(full, mode, cv, per_channel):
    """expected padding value per channel for the one-value modes (numpy statistics, cast to the integer dtype
    by truncation), None for EDGE"""
    f = full if full.ndim == 4 else full[..., None]
    C = f.shape[-1]
    if mode == 'CONSTANT':
        return [cv] * C
    if mode == 'EDGE':
        return None
    fn = {'MINIMUM': np.min, 'MAXIMUM': np.max, 'MEAN': np.mean, 'MEDIAN': np.median}[mode]
    if per_channel and C > 1:
        return [int(np.trunc(fn(f[..., c]))) for c in range(C)]
    return [int(np.trunc(fn(f)))] * C


def make_geometry(g, spelling='tuple-int'):
    from highdicom.volume import VolumeGeometry
    return VolumeGeometry(affine_np(g), spell_shape(g['shape'], spelling), g['cs'], frame_of_reference_uid=g['for'])


def _call(fn, *a, **k):
    try:
        return 'ok', fn(*a, **k)
    except Exception as e:  # noqa: BLE001
        return 'err', type(e).__name__


def _err_kind(name):
    return {'IndexError': 'index', 'ValueError': 'value', 'TypeError': 'type', 'RuntimeError': 'runtime',
            'KeyError': 'key', 'AttributeError': 'attribute'}.get(name, 'other')


def frac_affine(A):
    """exact entries of a float 4x4 affine in the model's order"""
    out = []
    for a in range(3):
        out += [F(float(A[c, a])) for c in range(3)]
    return out + [F(float(A[c, 3])) for c in range(3)]


def indep_geq_entries(ra, ta, tol, slack=F(1)):
    """entrywise |r - t| <= (tol + rtol |t|) * slack, exact"""
    return all(abs(x - y) <= (tol + RTOL * abs(y)) * slack for x, y in zip(ra, ta))


# ------------------------------------------------------------------------------------------ oracle for one match
def oracle_match(ctx, case, src_g, src_arr, tgt_g, res, tol, cv, mode='CONSTANT', channels=0, per_channel=False):
    """res: returned Volume.  Returns True when everything holds."""
    ok = True
    shape = tuple(res.spatial_shape)
    if shape != tuple(tgt_g['shape']):
        ctx.fail(case, {'what': 'shape of matched volume differs from target', 'got': shape, 'want': tgt_g['shape']},
                 site='match_geometry/shape')
        return False
    # the result keeps the SOURCE's frame of reference and coordinate system (match_keeps_frame_of_reference)
    got_for = None if res.frame_of_reference_uid is None else str(res.frame_of_reference_uid)
    if got_for != src_g['for'] or str(res.coordinate_system.value) != src_g['cs']:
        ctx.fail(case, {'what': 'matched volume does not carry the frame of reference / coordinate system of the source',
                        'got': [got_for, str(res.coordinate_system.value)], 'want': [src_g['for'], src_g['cs']]},
                 site='match_geometry/frame-of-reference')
        ok = False
    ra = frac_affine(res.affine)
    ta = [F(float(x)) for x in affine12(tgt_g)]
    if not indep_geq_entries(ra, ta, tol, slack=F(1) + F(1, 2 ** 20)):
        ctx.fail(case, {'what': 'geometry of matched volume is not equal to the target within tolerance',
                        'got': [float(x) for x in ra], 'want': [float(x) for x in ta]}, site='match_geometry/geometry')
        ok = False
    if tgt_g['exact'] and src_g['exact'] and case.get('reachable') and ra != ta:
        ctx.fail(case, {'what': 'exactly representable reachable target: matched affine is not identical',
                        'got': [float(x) for x in ra], 'want': [float(x) for x in ta]}, site='match_geometry/geometry-exact')
        ok = False
    # voxel coincidence: every result voxel against the source voxel (vector of channel values) at its position
    arr = np.asarray(res.array)
    full = full_array(src_arr, channels)
    f4 = full if full.ndim == 4 else full[..., None]
    a4 = arr if arr.ndim == 4 else arr[..., None]
    if a4.shape[-1] != f4.shape[-1] or arr.dtype != full.dtype:
        ctx.fail(case, {'what': 'channel extent or dtype of the matched volume differs from the source',
                        'got': [list(arr.shape), str(arr.dtype)], 'want': [list(full.shape), str(full.dtype)]},
                 site='match_geometry/channels')
        return False
    padv = pad_vector(full, mode, cv, per_channel)
    n = src_g['shape']
    eps = F(0) if (src_g['exact'] and tgt_g['exact']) else F(1, 10 ** 6)
    for k in itertools.product(*[range(s) for s in shape]):
        P = [ra[9 + c] + sum(F(k[a]) * ra[3 * a + c] for a in range(3)) for c in range(3)]
        y = to_idx(src_g, P)
        near = [round(v) for v in y]
        on_grid = all(abs(v - m) <= eps for v, m in zip(y, near))
        inside = on_grid and all(0 <= m < n[a] for a, m in enumerate(near))
        v = [int(x) for x in a4[k]]
        if inside:
            want = [int(x) for x in f4[tuple(near)]]
            if v != want:
                ctx.fail(case, {'what': 'voxel of the matched volume differs from the source voxel at the same position',
                                'index': k, 'source_index': near, 'got': v, 'want': want}, site='match_geometry/voxels')
                return False
        else:
            if not on_grid:
                if case.get('reachable'):
                    ctx.fail(case, {'what': 'reachable target but a matched voxel is off the source grid', 'index': k},
                             site='match_geometry/grid')
                    return False
                if padv is None:
                    continue
            want = padv if padv is not None else [int(x) for x in f4[tuple(min(max(m, 0), n[a] - 1) for a, m in enumerate(near))]]
            if v != want:
                ctx.fail(case, {'what': f'voxel outside the source is not the padding value of mode {mode}', 'index': k,
                                'got': v, 'want': want}, site='match_geometry/padding')
                return False
    return ok


def model_match_req(src_g, src_arr, tgt_g, tol, cv, mode='CONSTANT', channels=0, per_channel=False):
    full = full_array(src_arr, channels)
    # `per_channel` is only looked at for the statistic modes and more than one channel (Volume.pad)
    return ('matchGeometry', {'src': geom_json(src_g), 'tgt': geom_json(tgt_g), 'nch': max(channels, 1),
                              'arr': [int(x) for x in full.reshape(-1)], 'tol': rat(tol), 'c': int(cv), 'mode': mode,
                              'per_channel': bool(per_channel and channels > 1)})


def impl_match_obs(st, res, channels=0):
    if st != 'ok':
        return ('err', _err_kind(res))
    arr = np.asarray(res.array)
    return ('ok', {'shape': [int(x) for x in res.spatial_shape], 'affine': frac_affine(res.affine),
                   'arr': [int(x) for x in arr.reshape(-1)]})


def compare_match(ctx, case, impl, ans, exact):
    if 'proto_err' in ans:
        ctx.disagree('L0', case, impl, ans, 'model protocol error')
        return
    if ('ok' in ans) != (impl[0] == 'ok'):
        ctx.disagree('L0', case, impl if impl[0] == 'err' else ('ok', impl[1]['shape']), ans if 'err' in ans else 'ok',
                     'match_geometry ok-vs-refused')
        return
    if impl[0] != 'ok':
        return
    m = ans['ok']
    if m['shape'] != impl[1]['shape']:
        ctx.disagree('L0', case, impl[1]['shape'], m['shape'], 'match_geometry shape')
        return
    if m['arr'] != impl[1]['arr']:
        ctx.disagree('L0', case, impl[1]['arr'][:40], m['arr'][:40], 'match_geometry voxels')
        return
    ma = [F(x) for x in m['affine']]
    ia = impl[1]['affine']
    if exact:
        if ma != ia:
            ctx.disagree('L0', case, [float(x) for x in ia], [float(x) for x in ma], 'match_geometry affine (exact class)')
    else:
        scale = max([abs(x) for x in ma] + [F(1)])
        if any(abs(x - y) > scale / 2 ** 40 for x, y in zip(ma, ia)):
            ctx.disagree('L0', case, [float(x) for x in ia], [float(x) for x in ma], 'match_geometry affine')


# ------------------------------------------------------------------------------------------ stream: chain
def gen_chain(ctx, i):
    r = ctx.rng('chain', i)
    src_g = random_source(r)
    N = int(np.prod(src_g['shape']))
    src_arr = np.arange(1, N + 1, dtype=np.int32).reshape(src_g['shape'])
    idx = np.arange(N).reshape(src_g['shape'])
    length = r.choice([0, 1, 1, 2, 2, 3, 4, 5])
    tgt_g, tidx, ops = random_chain(r, copy_geom(src_g), idx, length)
    opt = {'tgt_kind': r.choice(['geometry', 'volume']),
           'mode': r.choice(['CONSTANT'] * 5 + ['MINIMUM', 'MAXIMUM', 'MEAN', 'MEDIAN', 'EDGE', 'EDGE']),
           'channels': r.choice([0, 0, 0, 1, 2, 3]), 'per_channel': r.random() < 0.4,
           # tol <= 1 is where matching can work at all (1 itself is a decision boundary: probed at 1/4); above 1 every target is refused
           # with a ValueError (theorem match_tol_gt_one): compared with the model, not demanded by the oracle
           'tol': r.choice([TOL] * 10 + [F(1, 1000), F(1, 1000), F(1, 10 ** 7), F(1, 10 ** 7), F(1, 4), F(3, 2), F(4)]),
           'for_variant': r.choice(['same'] * 4 + ['tgt_none', 'src_none']),
           'src_kind': r.choice(['volume'] * 7 + ['geometry']),
           'layout': r.choice(LAYOUTS), 'tgt_shape_spelling': r.choice(SHAPE_SPELLINGS),
           'src_shape_spelling': r.choice(SHAPE_SPELLINGS)}
    if opt['for_variant'] == 'tgt_none':
        tgt_g['for'] = None
    elif opt['for_variant'] == 'src_none':
        src_g['for'] = None
    return src_g, src_arr, tgt_g, tidx, ops, opt


def run_geometry_source_case(ctx, case, src_g, tgt_g, tgt, opt, ops, reqs, pending):
    src = make_geometry(src_g, opt['src_shape_spelling'])
    st, res = _call(src.match_geometry, tgt, tol=float(opt['tol']))
    ctx.case(nontrivial_key=('chain-geom', tuple(ops), tuple(src_g['shape']), tuple(tgt_g['shape'])) if st == 'ok' else None,
             stream='chain', src_kind='geometry', chain_length=len(ops), outcome=('ok' if st == 'ok' else res))
    if st != 'ok' and opt['tol'] > 1:
        ctx.hist('tol_above_one', f'refused:{res}')
        reqs.append(model_match_req(src_g, np.zeros(src_g['shape'], np.int32), tgt_g, opt['tol'], 0))
        pending.append(('match', case, ('err', _err_kind(res)), False))
        return
    if st != 'ok':
        ctx.fail(case, f'reachable target refused (geometry source): {res}', site='match_geometry/refused')
        return
    ra = frac_affine(res.affine)
    ta = [F(float(x)) for x in affine12(tgt_g)]
    if tuple(res.spatial_shape) != tuple(tgt_g['shape']) or not indep_geq_entries(ra, ta, opt['tol'], slack=F(1) + F(1, 2 ** 20)):
        ctx.fail(case, {'what': 'matched geometry (geometry source) differs from the target', 'shape': list(res.spatial_shape),
                        'got': [float(x) for x in ra], 'want': [float(x) for x in ta]}, site='match_geometry/geometry')
    zeros = np.zeros(src_g['shape'], np.int32)
    reqs.append(model_match_req(src_g, zeros, tgt_g, opt['tol'], 0))
    impl = ('ok', {'shape': [int(x) for x in res.spatial_shape], 'affine': ra,
                   'arr': [0] * int(np.prod(res.spatial_shape))})
    pending.append(('match', case, impl, src_g['exact'] and tgt_g['exact']))


def run_chain_case(ctx, i, reqs, pending):
    src_g, src_arr, tgt_g, tidx, ops, opt = gen_chain(ctx, i)
    case = {'stream': 'chain', 'index': i, 'seed': ctx.seed, 'ops': ops, 'src_shape': src_g['shape'],
            'tgt_shape': tgt_g['shape'], 'reachable': True, 'opt': {k: str(v) for k, v in opt.items()}}
    # a target geometry may be given its shape in any accepted spelling (numpy integers make the planned pad widths numpy
    # integers); a target volume takes its shape from its array
    tgt = make_geometry(tgt_g, opt['tgt_shape_spelling']) if opt['tgt_kind'] == 'geometry' \
        else make_volume(tgt_g, np.zeros(tgt_g['shape'], np.int32))
    ctx.hist('target_shape_spelling', (opt['tgt_shape_spelling'] if opt['tgt_kind'] == 'geometry' else 'from-array')
             + ('/needs-pad' if 'pad' in ops else ''))
    if opt['src_kind'] == 'geometry':
        # a VolumeGeometry can be matched too (no voxels): geometry clauses only
        run_geometry_source_case(ctx, case, src_g, tgt_g, tgt, opt, ops, reqs, pending)
        return
    src = make_volume(src_g, src_arr, opt['channels'], opt['layout'])
    src_before = np.array(src.array, copy=True)
    st, res = _call(src.match_geometry, tgt, mode=opt['mode'], constant_value=CV, per_channel=opt['per_channel'],
                    tol=float(opt['tol']))
    crop_kinds = sorted({t for o in ops if o.startswith('crop:') for t in o[5:].split('+')})
    ctx.case(sample=case if i % 37 == 0 else None,
             nontrivial_key=('chain', tuple(ops), tuple(src_g['shape']), tuple(tgt_g['shape']), src_g['exact']) if st == 'ok' else None,
             stream='chain', chain_length=len(ops), outcome=('ok' if st == 'ok' else res), orientation=('signed-perm' if src_g['exact'] else 'rotated'),
             pad_mode=opt['mode'] + ('/per_channel' if opt['per_channel'] and opt['mode'] in ('MINIMUM', 'MAXIMUM', 'MEAN', 'MEDIAN') and opt['channels'] > 1 else ''),
             channels=opt['channels'], for_variant=opt['for_variant'], tgt_kind=opt['tgt_kind'], array_layout=opt['layout'])
    if not np.array_equal(np.asarray(src.array), src_before):
        ctx.fail(case, 'match_geometry modified the array of the source volume', site='match_geometry/source-modified')
    for o in ops:
        ctx.hist('chain_ops', o.split(':')[0])
    for t in crop_kinds:
        ctx.hist('crop_kinds', t)
    if st != 'ok' and opt['tol'] > 1:
        ctx.hist('tol_above_one', f'refused:{res}')
    elif st != 'ok':
        ctx.fail(case, f'reachable target refused: {res}', site='match_geometry/refused')
    else:
        # (a voxel that an earlier crop removed and a later pad re-covers DOES overlap the source: the expectation
        # is computed from physical positions, never by replaying the chain on the array)
        oracle_match(ctx, case, src_g, src_arr, tgt_g, res, opt['tol'], CV, opt['mode'], opt['channels'], opt['per_channel'])
        got = np.asarray(res.array)
        if opt['mode'] == 'CONSTANT':
            npad = int((got == CV).sum())
            ctx.hist('overlap', 'none' if npad == got.size else ('full' if npad == 0 else 'partial'))
    reqs.append(model_match_req(src_g, src_arr, tgt_g, opt['tol'], CV, opt['mode'], opt['channels'], opt['per_channel']))
    pending.append(('match', case, impl_match_obs(st, res, opt['channels']), src_g['exact'] and tgt_g['exact']))


# ------------------------------------------------------------------------------------------ stream: perturb
FACTORS = [F(1, 64), F(100, 404), F(404, 100), F(64)]


def gen_perturb(ctx, i):
    r = ctx.rng('perturb', i)
    src_g = random_source(r)
    if r.random() < 0.3:
        # large spacing / small position: the final comparison (mm) is the binding test, not the index tolerance
        src_g['spacing'] = [r.choice([F(32), F(64), F(128)]) for _ in range(3)]
        src_g['pos'] = [F(r.randint(-8, 8), 8) for _ in range(3)]
    N = int(np.prod(src_g['shape']))
    src_arr = np.arange(1, N + 1, dtype=np.int32).reshape(src_g['shape'])
    idx = np.arange(N).reshape(src_g['shape'])
    tgt_g, tidx, ops = random_chain(r, copy_geom(src_g), idx, r.choice([0, 1, 2]))
    kind = r.choice(['shift', 'shift', 'scale', 'scale', 'rotate', 'rotate', 'for', 'cs', 'big-rotate', 'big-shift', 'big-scale',
                     'scale-stride'])
    f = r.choice(FACTORS)
    a = r.randrange(3)
    tol = TOL
    info = {'kind': kind, 'factor': str(f), 'axis': a}
    if kind == 'scale-stride':
        # absolute vs relative reading of the scale tolerance: a long axis with a tiny spacing, a large stride m, and a spacing
        # ratio m + e with e a factor 4.04 above tol (absolute: refused) and at least a factor 3.96 below m tol (relative: accepted);
        # the spacing is so small that the final comparison of the affines (absolute, mm) would let the result pass
        m = r.choice([16, 32])
        a = r.randrange(3)
        src_g = random_source(r)
        src_g['dir'] = [list(d) for d in r.choice(SP)]
        src_g['exact'] = True
        src_g['shape'] = [2, 2, 2]
        src_g['shape'][a] = 2 * m + 1
        src_g['spacing'] = [r.choice([F(1), F(2)]) for _ in range(3)]
        src_g['spacing'][a] = r.choice([F(1, 64), F(1, 128)])
        src_g['pos'] = [F(r.randint(-8, 8), 8) for _ in range(3)]
        N = int(np.prod(src_g['shape']))
        src_arr = np.arange(1, N + 1, dtype=np.int32).reshape(src_g['shape'])
        sign = r.choice((1, -1))
        sls = [(0, src_g['shape'][d], 1) for d in range(3)]
        sls[a] = (0, 2 * m + 1, m) if sign > 0 else (2 * m, -1, -m)
        tgt_g, _ = op_slice(copy_geom(src_g), np.arange(N).reshape(src_g['shape']), sls)
        e = F(404, 100) * tol * r.choice((1, -1))
        tgt_g['spacing'][a] = tgt_g['spacing'][a] + e * src_g['spacing'][a]
        tgt_g['exact'] = False
        info.update({'factor': '4.04', 'axis': a, 'stride': sign * m, 'which': 'index'})
        return src_g, src_arr, tgt_g, ['crop:strided'], info, tol
    if kind == 'shift':
        # index-space boundary: |start_ind - round| vs tol   (delta in source-voxel units along the target axis a)
        which = r.choice(['index', 'entry'])
        unit = tgt_g['dir'][a]
        # spacing of the source axis aligned with target axis a
        t = [src_g['spacing'][j] for j in range(3) if abs(dot(src_g['dir'][j], unit)) == 1][0]
        if which == 'index':
            delta = f * tol * t
        else:
            c = max(range(3), key=lambda c: abs(unit[c]))
            delta = f * (tol + RTOL * abs(tgt_g['pos'][c])) / abs(unit[c])
        tgt_g['pos'] = [tgt_g['pos'][c] + delta * unit[c] for c in range(3)]
        info['which'] = which
    elif kind == 'scale':
        which = r.choice(['index', 'entry'])
        unit = tgt_g['dir'][a]
        t = [src_g['spacing'][j] for j in range(3) if abs(dot(src_g['dir'][j], unit)) == 1][0]
        if which == 'index':
            ds = f * tol * t                       # |s/t - round| = f tol
        else:
            c = max(range(3), key=lambda c: abs(unit[c]))
            e = tgt_g['spacing'][a] * abs(unit[c])
            ds = f * (tol + RTOL * e) / abs(unit[c]) / (1 - f * RTOL) if f * RTOL < 1 else f * tol
        tgt_g['spacing'][a] = tgt_g['spacing'][a] + ds * r.choice((1, -1))
        info['which'] = which
    elif kind == 'rotate':
        which = r.choice(['dot', 'entry', 'entry'])
        info['which'] = which
        if which == 'dot':
            # 1 - cos = 2 u^2 / (1 + u^2) = f tol   ->  u^2 = f tol / (2 - f tol); take a rational u close to it
            x = f * tol / (2 - f * tol)
            u = F(int((float(x) ** 0.5) * 2 ** 40), 2 ** 40)
        else:
            # largest changed affine entry ~ sin * spacing = f tol (entries that were 0 before: no relative term)
            smax = max(tgt_g['spacing'])
            u = f * tol / smax / 2
        c, s = (1 - u * u) / (1 + u * u), 2 * u / (1 + u * u)
        R = rot_about(a, c, s * r.choice((1, -1)))
        tgt_g['dir'] = [mat_vec(R, d) for d in tgt_g['dir']]
        tgt_g['exact'] = False
    elif kind == 'for':
        src_g['for'] = '1.2.826.0.1.3680043.8.498.1'
        tgt_g['for'] = '1.2.826.0.1.3680043.8.498.77'
    elif kind == 'cs':
        tgt_g['cs'] = 'SLIDE' if src_g['cs'] == 'PATIENT' else 'PATIENT'
    elif kind == 'big-rotate':
        c, s = r.choice(PYTH)
        R = rot_about(a, c, s)
        tgt_g['dir'] = [mat_vec(R, d) for d in tgt_g['dir']]
        tgt_g['exact'] = False
    elif kind == 'big-shift':
        unit = tgt_g['dir'][a]
        t = [src_g['spacing'][j] for j in range(3) if abs(dot(src_g['dir'][j], unit)) == 1][0]
        delta = r.choice([F(1, 2), F(1, 3), F(1, 4), F(1, 100)]) * t
        tgt_g['pos'] = [tgt_g['pos'][c] + delta * unit[c] for c in range(3)]
        tgt_g['exact'] = tgt_g['exact'] and delta.denominator in (1, 2, 4, 8, 16)
    elif kind == 'big-scale':
        tgt_g['spacing'][a] = tgt_g['spacing'][a] * r.choice([F(3, 2), F(5, 4), F(1, 2), F(101, 100), F(2, 3)])
        tgt_g['exact'] = False
    if kind in ('shift', 'scale'):
        tgt_g['exact'] = False
    return src_g, src_arr, tgt_g, ops, info, tol


def run_perturb_case(ctx, i, reqs, pending):
    src_g, src_arr, tgt_g, ops, info, tol = gen_perturb(ctx, i)
    case = {'stream': 'perturb', 'index': i, 'seed': ctx.seed, 'ops': ops, 'perturbation': info,
            'src_shape': src_g['shape'], 'tgt_shape': tgt_g['shape'], 'reachable': False}
    src = make_volume(src_g, src_arr)
    st, tgt = _call(make_geometry, tgt_g)
    if st != 'ok':
        ctx.case(stream='perturb', perturbation=info['kind'], outcome='target-not-constructible')
        return
    st, res = _call(src.match_geometry, tgt, constant_value=CV, tol=float(tol))
    must_refuse = info['kind'] in ('for', 'cs', 'big-rotate', 'big-shift') or \
        (info['kind'] == 'big-scale')
    ctx.case(sample=case if i % 41 == 0 else None,
             nontrivial_key=('perturb', info['kind'], info.get('which'), info['factor'], st == 'ok', tuple(ops)),
             stream='perturb', perturbation=info['kind'] + ('/' + info['which'] if 'which' in info else ''),
             perturb_factor=(info['factor'] if info['kind'] in ('shift', 'scale', 'rotate') else '-'),
             outcome=('ok' if st == 'ok' else res))
    ctx.hist('perturb_outcome', f"{info['kind']}/{info.get('which', '-')}/{float(F(info['factor'])):.3g}/{'ok' if st == 'ok' else 'refused'}")
    # a spacing that is off an integer multiple of the source spacing by 4 tol or more (in units of the ratio) is refused,
    # whatever the stride and however small the spacing (tolerance semantics of the scale test: absolute, match_scale_tolerance)
    if st == 'ok' and info['kind'] in ('scale', 'scale-stride') and info.get('which') == 'index' and F(info['factor']) >= 4:
        ctx.fail(case, {'what': 'a target whose spacing is not an integer multiple of the source spacing (ratio off by '
                                f"{info['factor']} tol) was matched", 'stride': info.get('stride')}, site='match_geometry/scale')
    if st == 'ok':
        if info['kind'] in ('for', 'cs'):
            ctx.fail(case, f"target in another {'frame of reference' if info['kind'] == 'for' else 'coordinate system'} was matched",
                     site='match_geometry/' + info['kind'])
        else:
            # whatever was returned must equal the target within tolerance and coincide with the source
            oracle_match(ctx, case, src_g, src_arr, tgt_g, res, tol, CV)
            if must_refuse:
                # a big perturbation can only be "matched" by a geometry that is not equal: oracle_match reports it;
                # nothing to add here
                pass
    elif res != 'RuntimeError':
        ctx.fail(case, f'refusal is not a RuntimeError: {res}', site='match_geometry/refusal-kind')
    # model: only when decisive (same outcome at tol/4 and 4 tol, see ASSUMPTIONS)
    reqs.append(model_match_req(src_g, src_arr, tgt_g, tol / 4, CV))
    pending.append(('probe', None, None, None))
    reqs.append(model_match_req(src_g, src_arr, tgt_g, tol * 4, CV))
    pending.append(('probe', None, None, None))
    reqs.append(model_match_req(src_g, src_arr, tgt_g, tol, CV))
    pending.append(('match-perturbed', case, impl_match_obs(st, res), src_g['exact'] and tgt_g['exact']))


# ------------------------------------------------------------------------------------------ stream: geometry_equal
def gen_geq(ctx, i):
    r = ctx.rng('geq', i)
    g = random_source(r)
    if r.random() < 0.3:
        g['pos'] = [p * 64 for p in g['pos']]       # large translations: the relative term matters
    h = copy_geom(g)
    kind = r.choice(['same', 'shape', 'cs', 'for-diff', 'for-none-a', 'for-none-b', 'for-none-both', 'entry', 'entry', 'entry',
                     'entry-exact', 'two'])
    tolk = r.choice(['default', 'default', 'none', '1e-3', '0', '-1e-3'])
    tol = {'default': TOL, 'none': None, '1e-3': F(1, 1000), '0': F(0), '-1e-3': -F(1, 1000)}[tolk]
    expect = True
    info = {'kind': kind, 'tol': tolk}
    if tol is not None and tol < 0 and kind in ('entry', 'two'):
        kind = info['kind'] = 'entry-exact'        # no boundary to aim at: identical entries pass (np.isclose: `| x == y`), others by the inequality
    if kind == 'shape':
        a = r.randrange(3)
        h['shape'][a] += r.choice([1, -1]) if h['shape'][a] > 1 else 1
        expect = False
    elif kind == 'cs':
        h['cs'] = 'SLIDE' if g['cs'] == 'PATIENT' else 'PATIENT'
        expect = False
    elif kind == 'for-diff':
        g['for'], h['for'] = '1.2.826.0.1.3680043.8.498.1', '1.2.826.0.1.3680043.8.498.2'
        expect = False
    elif kind == 'for-none-a':
        g['for'], h['for'] = None, '1.2.826.0.1.3680043.8.498.2'
    elif kind == 'for-none-b':
        g['for'], h['for'] = '1.2.826.0.1.3680043.8.498.2', None
    elif kind == 'for-none-both':
        g['for'] = h['for'] = None
    elif kind in ('entry', 'entry-exact', 'two'):
        # perturb the translation (always possible without destroying orthogonality) or a spacing
        f = r.choice([F(1, 64), F(100, 404), F(404, 100), F(64)])
        info['factor'] = str(f)
        c = r.randrange(3)
        base_tol = tol if tol is not None else F(0)
        if r.random() < 0.6:
            b = h['pos'][c]
            d = f * (base_tol + RTOL * abs(b))
            d = d / (1 + f * RTOL * (1 if b >= 0 else -1)) if d != 0 else d   # so that |d| = f (tol + rtol |b + d|) about
            if kind == 'entry-exact' or d == 0:
                d = F(1, 2 ** 30)
                expect = tol is not None and d <= tol + RTOL * abs(b + d)
            else:
                expect = f < 1
            h['pos'][c] = b + d
            info['where'] = 'translation'
        else:
            a = r.randrange(3)
            cc = max(range(3), key=lambda c: abs(h['dir'][a][c]))
            e = h['spacing'][a] * abs(h['dir'][a][cc])
            d = f * (base_tol + RTOL * e) / abs(h['dir'][a][cc])
            if kind == 'entry-exact' or d == 0:
                d = F(1, 2 ** 30)
                new_e = (h['spacing'][a] + d) * abs(h['dir'][a][cc])
                expect = tol is not None and d * abs(h['dir'][a][cc]) <= tol + RTOL * new_e
            else:
                expect = f < 1
            h['spacing'][a] = h['spacing'][a] + d
            info['where'] = 'column'
        if kind == 'two':
            g['for'], h['for'] = '1.2.826.0.1.3680043.8.498.1', '1.2.826.0.1.3680043.8.498.2'
            expect = False
        h['exact'] = False
    return g, h, tol, expect, info


def exact_geq(g, h, tol):
    """the property's statement, evaluated exactly on what the objects hold (float affines)"""
    if g['for'] is not None and h['for'] is not None and g['for'] != h['for']:
        return False, None
    if list(g['shape']) != list(h['shape']) or g['cs'] != h['cs']:
        return False, None
    ga = [F(float(x)) for x in affine12(g)]
    ha = [F(float(x)) for x in affine12(h)]
    if tol is None:
        return ga == ha, None
    tolf = F(float(tol))
    margins = []
    for x, y in zip(ga, ha):
        bound = tolf + F(1e-5) * abs(y)
        d = abs(x - y)
        if bound <= 0 or d == 0:
            margins.append(F(0) if d == 0 else F(10 ** 9))     # identical entries always pass (np.isclose has `| x == y`)
        else:
            margins.append(d / bound)
    return all(m <= 1 for m in margins), margins


def run_geq_case(ctx, i, reqs, pending):
    g, h, tol, expect, info = gen_geq(ctx, i)
    r = ctx.rng('geq-kind', i)
    # a bare geometry, a volume without channels, volumes with 2 / 3 / 5 channels: channels must not matter
    kinds = [(-1, make_geometry)] + [(c, (lambda c: lambda x: make_volume(x, np.zeros(x['shape'], np.int16), c))(c))
                                    for c in (0, 2, 3, 5)]
    (ca, mka), (cb, mkb) = r.choice(kinds), r.choice(kinds)
    A, B = mka(g), mkb(h)
    info['channels'] = [ca, cb]
    case = {'stream': 'geq', 'index': i, 'seed': ctx.seed, 'info': info}
    kw = {} if info['tol'] == 'default' else {'tol': (None if tol is None else float(tol))}
    for direction, (X, Y, gx, gy, cx, cy) in (('ab', (A, B, g, h, ca, cb)), ('ba', (B, A, h, g, cb, ca))):
        st, val = _call(X.geometry_equal, Y, **kw)
        want, margins = exact_geq(gx, gy, tol)
        near = margins is not None and any(F(1, 4) < m < 4 for m in margins if m not in (0,))
        ctx.case(sample=dict(case, direction=direction) if i % 53 == 0 else None,
                 nontrivial_key=('geq', info['kind'], info['tol'], info.get('factor'), info.get('where'), direction, str(val)),
                 stream='geq', geq_kind=info['kind'], geq_tol=info['tol'], outcome=str(val),
                 geq_channels=f'{max(cx, 0)}/{max(cy, 0)}' + ('/geometry' if min(cx, cy) < 0 else ''))
        c2 = dict(case, direction=direction)
        if st != 'ok':
            ctx.fail(c2, f'geometry_equal raised {val}', site='geometry_equal')
            continue
        if near:
            ctx.hist('geq_near_boundary_skipped', info['kind'])
            continue
        if bool(val) != want:
            ctx.fail(c2, {'what': 'geometry_equal disagrees with shape/coordinate system/affine-within-tolerance/frame-of-reference',
                          'got': bool(val), 'want': want}, site='geometry_equal')
        reqs.append(('geometryEqual', {'a': geom_json(gx), 'b': geom_json(gy), 'tol': None if tol is None else rat(tol),
                                       'ca': max(cx, 0), 'cb': max(cy, 0)}))
        pending.append(('geq', c2, ('ok', bool(val)), None))


# ------------------------------------------------------------------------------------------ stream: v2v / bounds
def gen_v2v(ctx, i):
    r = ctx.rng('v2v', i)
    pow2 = r.random() < 0.6
    a = random_source(r)
    if pow2:
        a['dir'] = [list(d) for d in r.choice(SP)]
        a['spacing'] = [r.choice([F(1, 4), F(1, 2), F(1), F(2), F(4)]) for _ in range(3)]
        a['pos'] = [F(r.randint(-64, 64), r.choice([1, 2, 4])) for _ in range(3)]
        a['exact'] = True
        b = copy_geom(a)
        b['dir'] = [list(d) for d in r.choice(SP)]
        b['spacing'] = [r.choice([F(1, 4), F(1, 2), F(1), F(2), F(4)]) for _ in range(3)]
        b['pos'] = [F(r.randint(-64, 64), r.choice([1, 2, 4])) for _ in range(3)]
        b['shape'] = [r.choice([1, 2, 3, 4, 5, 6]) for _ in range(3)]
    else:
        b = random_source(r)
        b['pos'] = [a['pos'][c] + F(r.randint(-40, 40), 8) for c in range(3)]
    # points are chosen in the index space of `b` (the target), mapped back exactly to indices of `a`
    npts = r.choice([0, 1, 1, 2, 3, 5, 8])
    kinds = []
    ys = []
    for _ in range(npts):
        k = r.choice(['inside', 'inside', 'inside', 'boundary', 'outside', 'far'])
        y = []
        for ax in range(3):
            n = b['shape'][ax]
            y.append(F(r.randint(0, (n - 1) * 8), 8) if n > 1 else F(r.randint(-3, 3), 8))
        ax = r.randrange(3)
        n = b['shape'][ax]
        if k == 'boundary':
            y[ax] = r.choice([F(-1, 2), F(n) - F(1, 2)])
            if not pow2:
                y[ax] += r.choice([F(1, 10 ** 5), -F(1, 10 ** 5)])
                k = 'near-boundary'
        elif k == 'outside':
            y[ax] = r.choice([F(-1, 2) - F(1, 8), F(n) - F(1, 2) + F(1, 8), F(-1), F(n)])
        elif k == 'far':
            y[ax] = r.choice([F(-100), F(n + 100)])
        kinds.append(k)
        ys.append(y)
    xs = [to_idx(a, to_ref(b, y)) for y in ys]
    return a, b, xs, ys, kinds, pow2


def v2v_expect_fail(ys, shape, rounded):
    for y in ys:
        for ax in range(3):
            v = y[ax]
            if rounded:
                v = F(round(v))        # Python round on Fraction: half to even
            if v < F(-1, 2) or v > F(shape[ax]) - F(1, 2):
                return True
    return False


def run_v2v_case(ctx, i, reqs, pending):
    from highdicom.volume import VolumeToVolumeTransformer
    a, b, xs, ys, kinds, pow2 = gen_v2v(ctx, i)
    A, B = make_geometry(a), make_geometry(b)
    pts = np.array([[float(v) for v in x] for x in xs], dtype=np.float64).reshape(-1, 3)
    exact = pow2 and all(F(float(v)) == v for x in xs for v in x)
    tolv = F(0) if exact else F(1, 10 ** 7)
    base = {'stream': 'v2v', 'index': i, 'seed': ctx.seed, 'kinds': kinds, 'pow2': pow2, 'to_shape': b['shape']}
    for rounded, check in itertools.product((False, True), repeat=2):
        case = dict(base, round_output=rounded, check_bounds=check)
        st, tr = _call(VolumeToVolumeTransformer, A, B, round_output=rounded, check_bounds=check)
        if st != 'ok':
            ctx.fail(case, f'transformer could not be constructed: {tr}', site='v2v/construct')
            continue
        st, out = _call(tr, pts)
        # points whose exact image is within 1e-6 of a decision boundary are not decisive in floats
        risky = (not exact) and any(
            min(abs(v + F(1, 2)), abs(v - (F(b['shape'][ax]) - F(1, 2)))) < F(1, 10 ** 6) or
            (rounded and abs((v % 1) - F(1, 2)) < F(1, 10 ** 6))
            for y in ys for ax, v in enumerate(y))
        want_fail = check and v2v_expect_fail(ys, b['shape'], rounded)
        ctx.case(sample=case if i % 29 == 0 and not rounded and check else None,
                 nontrivial_key=('v2v', tuple(sorted(set(kinds))), rounded, check, st, pow2, len(xs)),
                 stream='v2v', v2v_mode=f"round={int(rounded)},check={int(check)}", outcome=('ok' if st == 'ok' else out),
                 n_points=len(xs))
        for k in kinds:
            ctx.hist('point_kinds', k)
        if risky:
            ctx.hist('v2v_near_boundary_skipped', f'{rounded},{check}')
            continue
        if want_fail:
            if st == 'ok':
                ctx.fail(case, {'what': 'bounds check passed although a point lies outside the target', 'points_in_target': [[float(v) for v in y] for y in ys]},
                         site='v2v/bounds-missed')
        else:
            if st != 'ok':
                ctx.fail(case, {'what': f'bounds check failed ({out}) although no point lies outside the target' if check else f'transformer raised {out}',
                                'points_in_target': [[float(v) for v in y] for y in ys]}, site='v2v/bounds-false')
            else:
                o = np.asarray(out, dtype=np.float64).reshape(-1, 3)
                for y, got in zip(ys, o):
                    for ax in range(3):
                        want = F(round(y[ax])) if rounded else y[ax]
                        if abs(F(float(got[ax])) - want) > tolv * max(1, abs(want)):
                            ctx.fail(case, {'what': 'index mapping differs from mapping through physical space',
                                            'got': [float(v) for v in got], 'want': [float(F(round(v)) if rounded else v) for v in y]},
                                     site='v2v/mapping')
                            break
        if st == 'ok' or want_fail or check:
            impl = ('ok', [[F(float(v)) for v in row] for row in np.asarray(out, dtype=np.float64).reshape(-1, 3)]) if st == 'ok' \
                else ('err', _err_kind(out))
            reqs.append(('v2v', {'from': [rat(v) for v in affine12(a)], 'to': [rat(v) for v in affine12(b)],
                                 'shape': b['shape'], 'round': rounded, 'check': check, 'pts': [[rat(v) for v in x] for x in xs]}))
            pending.append(('pts', case, impl, tolv))
    # map_reference_to_indices on the same target with the reference positions of the points
    refs = [to_ref(b, y) for y in ys]
    rp = np.array([[float(v) for v in P] for P in refs], dtype=np.float64).reshape(-1, 3)
    exact_r = pow2 and all(F(float(v)) == v for P in refs for v in P)
    for rounded, check in itertools.product((False, True), repeat=2):
        case = dict(base, api='map_reference_to_indices', round_output=rounded, check_bounds=check)
        st, out = _call(B.map_reference_to_indices, rp, round_output=rounded, check_bounds=check)
        risky = (not exact_r) and any(
            min(abs(v + F(1, 2)), abs(v - (F(b['shape'][ax]) - F(1, 2)))) < F(1, 10 ** 6) or
            (rounded and abs((v % 1) - F(1, 2)) < F(1, 10 ** 6))
            for y in ys for ax, v in enumerate(y))
        want_fail = check and v2v_expect_fail(ys, b['shape'], False)     # check happens before rounding
        ctx.case(nontrivial_key=('ref2idx', tuple(sorted(set(kinds))), rounded, check, st, pow2, len(xs)),
                 stream='ref2idx', v2v_mode=f"round={int(rounded)},check={int(check)}", outcome=('ok' if st == 'ok' else out))
        if risky:
            continue
        tolr = F(0) if exact_r else F(1, 10 ** 7)
        if want_fail and st == 'ok':
            ctx.fail(case, 'bounds check passed although a point lies outside the volume', site='ref2idx/bounds-missed')
        elif not want_fail and st != 'ok':
            ctx.fail(case, f'raised {out} although no point lies outside the volume', site='ref2idx/bounds-false')
        elif st == 'ok':
            o = np.asarray(out, dtype=np.float64).reshape(-1, 3)
            for y, got in zip(ys, o):
                for ax in range(3):
                    want = F(round(y[ax])) if rounded else y[ax]
                    if abs(F(float(got[ax])) - want) > tolr * max(1, abs(want)):
                        ctx.fail(case, {'what': 'indices differ from the exact solution', 'got': [float(v) for v in got],
                                        'want': [float(v) for v in y]}, site='ref2idx/mapping')
                        break
        impl = ('ok', [[F(float(v)) for v in row] for row in np.asarray(out, dtype=np.float64).reshape(-1, 3)]) if st == 'ok' \
            else ('err', _err_kind(out))
        reqs.append(('refToIdx', {'aff': [rat(v) for v in affine12(b)], 'shape': b['shape'], 'round': rounded, 'check': check,
                                  'pts': [[rat(v) for v in P] for P in refs]}))
        pending.append(('pts', case, impl, tolr))


# ------------------------------------------------------------------------------------------ stream: dtype of the index array
DTYPES = ['int8', 'uint8', 'int16', 'uint16', 'int32', 'uint32', 'int64', 'uint64', 'float16', 'float32', 'float64', 'bool']
FLOAT_TAG = {'float16': 'f16', 'float32': 'f32', 'float64': 'f64'}


def gen_v2vdt(ctx, i):
    """power-of-two class geometries (every float64 operation exact), index arrays of every dtype with magnitudes up to the
    limits of the dtype (64-bit types: |index| <= 2^40 so that float64 stays exact)"""
    r = ctx.rng('v2vdt', i)
    a = {'dir': [list(d) for d in r.choice(SP)], 'spacing': [r.choice([F(1, 4), F(1, 2), F(1), F(2), F(4)]) for _ in range(3)],
         'pos': [F(r.randint(-64, 64), r.choice([1, 2, 4])) for _ in range(3)], 'shape': [r.choice([1, 2, 3, 4, 5, 6]) for _ in range(3)],
         'cs': 'PATIENT', 'for': None, 'exact': True}
    b = copy_geom(a)
    b['dir'] = [list(d) for d in r.choice(SP)]
    b['spacing'] = [r.choice([F(1, 4), F(1, 2), F(1), F(2), F(4)]) for _ in range(3)]
    if r.random() < 0.5:
        b['pos'] = [F(r.randint(-64, 64), r.choice([1, 2, 4])) for _ in range(3)]
    else:
        b['pos'] = list(to_ref(a, [r.choice([-3, -1, 0, 0, 1, 2]) for _ in range(3)]))     # origins a few voxels apart
    b['shape'] = [r.choice([1, 2, 3, 4, 6, 300, 70000, 2 ** 33]) for _ in range(3)]
    dt = r.choice(DTYPES)
    npd = np.dtype(dt)
    n = r.choice([0, 1, 1, 2, 3, 5])
    xs = []
    for _ in range(n):
        x = []
        for _ax in range(3):
            if npd.kind in 'iu':
                info = np.iinfo(npd)
                lo, hi = max(int(info.min), -2 ** 40), min(int(info.max), 2 ** 40)
                cands = [lo, lo + 1, 0, 1, 2, 3, r.randint(0, 9), hi - 1, hi, hi // 2, r.randint(lo, hi)]
                if lo < 0:
                    cands += [-1, -2, r.randint(-9, -1)]
                x.append(F(r.choice(cands)))
            elif npd.kind == 'b':
                x.append(F(r.choice([0, 1])))
            else:
                big = {'float16': 2 ** 11, 'float32': 2 ** 24, 'float64': 2 ** 40}[dt]
                x.append(r.choice([F(r.randint(-40, 40), 8), F(r.randint(-40, 40), 8), F(r.randint(-big, big)), F(big), F(-big)]))
        xs.append(x)
    ys = [to_idx(b, to_ref(a, x)) for x in xs]
    return a, b, dt, xs, ys


def run_v2vdt_case(ctx, i, reqs, pending):
    from highdicom.volume import VolumeToVolumeTransformer
    a, b, dt, xs, ys = gen_v2vdt(ctx, i)
    npd = np.dtype(dt)
    A, B = make_geometry(a), make_geometry(b)
    pts = np.array([[int(v) if npd.kind in 'iub' else float(v) for v in x] for x in xs], dtype=npd).reshape(-1, 3)
    # generator sanity: the array holds exactly the intended indices
    if any(F(float(pts[k, c])) != xs[k][c] for k in range(len(xs)) for c in range(3)):
        ctx.note(f'v2vdt {i}: index not representable in {dt}; skipped')
        return
    info = np.iinfo(npd) if npd.kind in 'iu' else None
    djson = {'kind': npd.kind, 'lo': int(info.min) if info else 0, 'hi': int(info.max) if info else 0,
             'float': FLOAT_TAG.get(dt, 'f64')}
    base = {'stream': 'v2vdt', 'index': i, 'seed': ctx.seed, 'dtype': dt, 'to_shape': b['shape'], 'n': len(xs)}
    near_limit = bool(info) and any(abs(v) >= min(int(info.max), 2 ** 40) - 1 or v <= max(int(info.min), -2 ** 40) + 1
                                    for x in xs for v in x)
    for rounded, check in itertools.product((False, True), repeat=2):
        case = dict(base, round_output=rounded, check_bounds=check)
        st, tr = _call(VolumeToVolumeTransformer, A, B, round_output=rounded, check_bounds=check)
        if st != 'ok':
            ctx.fail(case, f'transformer could not be constructed: {tr}', site='v2v/construct')
            continue
        st, out = _call(tr, pts)
        # exact expectation: the image of every index through physical space, rounded half to even if asked; for a
        # narrower floating input type rounded to that type (documented: output dtype matches the input dtype)
        if rounded:
            want = [[F(round(v)) for v in y] for y in ys]
        elif npd.kind == 'f' and dt != 'float64':
            want = [[F(float(npd.type(float(v)))) for v in y] for y in ys]
        else:
            want = [list(y) for y in ys]
        want_fail = check and any(v < F(-1, 2) or v > F(b['shape'][ax]) - F(1, 2) for w in want for ax, v in enumerate(w))
        ctx.case(sample=case if i % 31 == 0 and rounded and check else None,
                 nontrivial_key=('v2vdt', dt, rounded, check, st, near_limit, len(xs) > 0),
                 stream='v2vdt', index_dtype=dt, v2v_mode=f"round={int(rounded)},check={int(check)}",
                 outcome=('ok' if st == 'ok' else out), near_dtype_limit=near_limit)
        if want_fail:
            if st == 'ok':
                ctx.fail(case, {'what': 'bounds check passed although a point lies outside the target',
                                'indices': [[str(v) for v in x] for x in xs]}, site='v2v/bounds-missed')
        elif st != 'ok':
            ctx.fail(case, {'what': f'transformer raised {out} although no point lies outside the target (index dtype {dt})',
                            'indices': [[str(v) for v in x] for x in xs], 'images': [[str(v) for v in y] for y in ys]},
                     site='v2v/dtype-false-failure')
        else:
            o = np.asarray(out)
            got = _as_fracs(out)
            if got != want:
                ctx.fail(case, {'what': f'index mapping differs from mapping through physical space (index dtype {dt}, result dtype {o.dtype})',
                                'indices': [[str(v) for v in x] for x in xs], 'got': [[str(v) for v in g] for g in got],
                                'want': [[str(v) for v in w] for w in want]}, site='v2v/dtype-mapping')
            elif rounded and o.dtype.kind not in 'iu':
                ctx.fail(case, f'rounded output has non-integer dtype {o.dtype}', site='v2v/dtype-kind')
            elif not rounded and o.dtype.kind != 'f':
                ctx.fail(case, f'unrounded output has non-floating dtype {o.dtype}', site='v2v/dtype-kind')
        if st == 'ok':
            impl = ('ok', _as_fracs(out))
        else:
            impl = ('err', _err_kind(out))
        reqs.append(('v2v', {'from': [rat(v) for v in affine12(a)], 'to': [rat(v) for v in affine12(b)], 'shape': b['shape'],
                             'round': rounded, 'check': check, 'pts': [[rat(v) for v in x] for x in xs], 'dtype': djson}))
        pending.append(('pts', case, impl, F(0)))


# ------------------------------------------------------------------------------------------ stream: pad widths, every accepted spelling
def run_padspell_case(ctx, i, reqs, pending):
    """`pad` is the operation match_geometry hands its planned widths to: nested widths as Python ints, np.int64, np.int32, in
    lists or tuples, single or (before, after) form must all be accepted and mean the same (oracle: exact shape / position / voxels)"""
    r = ctx.rng('padspell', i)
    g = random_source(r)
    N = int(np.prod(g['shape']))
    arr = np.arange(1, N + 1, dtype=np.int32).reshape(g['shape'])
    kind = r.choice(['geometry', 'volume'])
    obj = make_geometry(g, r.choice(SHAPE_SPELLINGS)) if kind == 'geometry' else make_volume(g, arr, 0, r.choice(LAYOUTS))
    form = r.choice(['pairs', 'pairs', 'singles'])
    # (unsigned numpy widths: `-np.uint8(1)` wrapped in `_prepare_pad_width` on the pinned tree; fixed by C08 in /repo dd02312)
    elem = r.choice(['int', 'np.int64', 'np.int64', 'np.int32', 'np.int16', 'np.uint8', 'np.uint16'])
    cont = r.choice(['list', 'tuple'])
    conv = {'int': int, 'np.int64': np.int64, 'np.int32': np.int32, 'np.int16': np.int16, 'np.uint8': np.uint8,
            'np.uint16': np.uint16}[elem]
    raw = [(r.choice([0, 0, 1, 2, 3]), r.choice([0, 1, 2])) for _ in range(3)]
    if form == 'singles':
        raw = [(b, b) for b, _ in raw]
        pw = [[conv(b)] for b, _ in raw]
    else:
        pw = [[conv(b), conv(a)] for b, a in raw]
    if cont == 'tuple':
        pw = tuple(tuple(x) for x in pw)
    case = {'stream': 'padspell', 'index': i, 'seed': ctx.seed, 'kind': kind, 'form': form, 'element': elem, 'container': cont,
            'widths': raw, 'shape': g['shape']}
    st, res = _call(obj.pad, pw) if kind == 'geometry' else _call(obj.pad, pw, mode='CONSTANT', constant_value=CV)
    ctx.case(nontrivial_key=('padspell', kind, form, elem, cont, st), stream='padspell', pad_width_spelling=f'{form}/{elem}/{cont}',
             outcome=('ok' if st == 'ok' else res))
    if st != 'ok':
        ctx.fail(case, f'pad refused widths spelled as {elem} in a {cont} ({form}): {res}', site='pad/spelling-refused')
        return
    want_g, _ = op_pad(g, np.zeros(g['shape'], int), raw)
    if [int(n) for n in res.spatial_shape] != want_g['shape'] or \
            (g['exact'] and frac_affine(res.affine) != [F(float(x)) for x in affine12(want_g)]):
        ctx.fail(case, {'what': 'padded geometry differs from shape + widths / origin moved back by the leading widths',
                        'shape': [int(n) for n in res.spatial_shape], 'want_shape': want_g['shape']}, site='pad/spelling-geometry')
    if kind == 'volume':
        want = np.pad(arr, raw, mode='constant', constant_values=CV)
        if not np.array_equal(np.asarray(res.array), want):
            ctx.fail(case, 'padded array differs from the source surrounded by the constant', site='pad/spelling-array')


# ------------------------------------------------------------------------------------------ stream: histories on ONE object
def _draw_points(r, dt, n):
    npd = np.dtype(dt)
    xs = []
    for _ in range(n):
        x = []
        for _ax in range(3):
            if npd.kind in 'iu':
                info = np.iinfo(npd)
                lo, hi = max(int(info.min), -2 ** 40), min(int(info.max), 2 ** 40)
                cands = [0, 1, 2, 3, r.randint(0, 9), r.randint(0, 9), hi, hi - 1, hi // 2, 300, 70000]
                cands = [c for c in cands if lo <= c <= hi]
                if lo < 0:
                    cands += [-1, -2, r.randint(-9, -1), lo]
                x.append(F(r.choice(cands)))
            elif npd.kind == 'b':
                x.append(F(r.choice([0, 1])))
            else:
                big = {'float16': 2 ** 11, 'float32': 2 ** 24, 'float64': 2 ** 40}[dt]
                x.append(r.choice([F(r.randint(-40, 40), 8), F(r.randint(-40, 40), 8), F(r.randint(0, 48), 8), F(r.randint(-big, big))]))
        xs.append(x)
    return xs


def _expect_v2v(ys, rounded, dt):
    npd = np.dtype(dt)
    if rounded:
        return [[F(round(v)) for v in y] for y in ys]
    if npd.kind == 'f' and dt != 'float64':
        return [[F(float(npd.type(float(v)))) for v in y] for y in ys]
    return [list(y) for y in ys]


def _as_fracs(out):
    """exact values of a returned index array (non-finite entries as text, so that they compare unequal to everything)"""
    o = np.asarray(out)
    if o.dtype.kind in 'iu':
        return [[F(int(v)) for v in row] for row in o.reshape(-1, 3)]
    return [[F(float(v)) if np.isfinite(v) else repr(float(v)) for v in row] for row in o.reshape(-1, 3)]


def _state(obj):
    """snapshot of an object's attributes (arrays by value, dtype and shape)"""
    snap = {}
    for k, v in vars(obj).items():
        if isinstance(v, np.ndarray):
            snap[k] = ('ndarray', str(v.dtype), v.shape, v.tobytes())
        else:
            snap[k] = ('value', repr(v))
    return snap


def gen_v2vhist(ctx, i):
    r = ctx.rng('v2vhist', i)
    a, b, _dt, _xs, _ys = gen_v2vdt(ctx, 10 ** 6 + i)        # geometries of the power-of-two class
    rounded, check = r.random() < 0.5, r.random() < 0.4
    counts = r.choice([[1], [2], [1, 2], [3], [1, 1, 2], [2, 3]])
    calls = []
    # typical orders: integer grid points first, sub-voxel floats later; narrow integers first, wide ones later; random
    order = r.choice(['int-then-float', 'narrow-then-wide', 'random', 'random'])
    for c in range(r.randint(2, 7)):
        if order == 'int-then-float':
            dt = r.choice(['int64', 'int32', 'int16', 'uint8']) if c == 0 else r.choice(['float64', 'float64', 'float32', 'int64'])
        elif order == 'narrow-then-wide':
            dt = r.choice(['uint8', 'int8', 'uint16']) if c == 0 else r.choice(['int64', 'int32', 'uint16', 'float64'])
        else:
            dt = r.choice(DTYPES)
        n = r.choice(counts)
        calls.append((dt, _draw_points(r, dt, n)))
    return a, b, rounded, check, order, calls


def run_v2vhist_case(ctx, i, reqs, pending):
    """several calls on ONE transformer object (and on ONE geometry object for map_reference_to_indices): every answer must
    equal the exact image and the answer of a fresh object; the objects must not change state; inputs must not be modified"""
    from highdicom.volume import VolumeToVolumeTransformer
    a, b, rounded, check, order, calls = gen_v2vhist(ctx, i)
    A, B = make_geometry(a), make_geometry(b)
    base = {'stream': 'v2vhist', 'index': i, 'seed': ctx.seed, 'round_output': rounded, 'check_bounds': check, 'order': order,
            'calls': [(dt, len(xs)) for dt, xs in calls]}
    st, tr = _call(VolumeToVolumeTransformer, A, B, round_output=rounded, check_bounds=check)
    if st != 'ok':
        ctx.fail(base, f'transformer could not be constructed: {tr}', site='v2v/construct')
        return
    s_tr, s_B = _state(tr), _state(B)
    seen = set()
    for cno, (dt, xs) in enumerate(calls):
        npd = np.dtype(dt)
        pts = np.array([[int(v) if npd.kind in 'iub' else float(v) for v in x] for x in xs], dtype=npd).reshape(-1, 3)
        if any(F(float(pts[k, c])) != xs[k][c] for k in range(len(xs)) for c in range(3)):
            continue
        keep = pts.copy()
        ys = [to_idx(b, to_ref(a, x)) for x in xs]
        want = _expect_v2v(ys, rounded, dt)
        want_fail = check and any(v < F(-1, 2) or v > F(b['shape'][ax]) - F(1, 2) for w in want for ax, v in enumerate(w))
        case = dict(base, call=cno, dtype=dt, n=len(xs))
        st, out = _call(tr, pts)
        repeat_count = (len(xs) in seen)
        seen.add(len(xs))
        ctx.case(sample=case if i % 43 == 0 and cno == 1 else None,
                 nontrivial_key=('v2vhist', order, cno, dt, len(xs), repeat_count, rounded, check, st),
                 stream='v2vhist', history_call=min(cno, 6), index_dtype=dt, same_count_as_earlier_call=repeat_count,
                 outcome=('ok' if st == 'ok' else out))
        # fresh object, same call
        st2, out2 = _call(VolumeToVolumeTransformer(A, B, round_output=rounded, check_bounds=check), keep.copy())
        if (st == 'ok') != (st2 == 'ok') or (st == 'ok' and (np.asarray(out).dtype != np.asarray(out2).dtype
                                                             or not np.array_equal(np.asarray(out), np.asarray(out2)))):
            ctx.fail(case, {'what': 'answer of a transformer that was called before differs from the answer of a fresh transformer',
                            'indices': [[str(v) for v in x] for x in xs],
                            'used': (np.asarray(out).tolist() if st == 'ok' else out),
                            'fresh': (np.asarray(out2).tolist() if st2 == 'ok' else out2)}, site='v2v/history-vs-fresh')
        if not np.array_equal(pts, keep):
            ctx.fail(case, 'the index array passed to the transformer was modified', site='v2v/input-modified')
        if want_fail:
            if st == 'ok':
                ctx.fail(case, {'what': 'bounds check passed although a point lies outside the target',
                                'indices': [[str(v) for v in x] for x in xs]}, site='v2v/bounds-missed')
        elif st != 'ok':
            ctx.fail(case, {'what': f'transformer raised {out} although no point lies outside the target',
                            'indices': [[str(v) for v in x] for x in xs]}, site='v2v/history-false-failure')
        elif _as_fracs(out) != want:
            ctx.fail(case, {'what': 'index mapping differs from mapping through physical space (transformer object used before)',
                            'indices': [[str(v) for v in x] for x in xs], 'got': [[str(v) for v in g] for g in _as_fracs(out)],
                            'want': [[str(v) for v in w] for w in want]}, site='v2v/history-mapping')
        if _state(tr) != s_tr:
            changed = sorted(k for k in set(s_tr) | set(_state(tr)) if s_tr.get(k) != _state(tr).get(k))
            ctx.disagree('L0', case, {'changed_attributes': changed}, 'stateless (entry_points_hold_no_state)',
                         'transformer object changed state during __call__')
            s_tr = _state(tr)
        # the same points through map_reference_to_indices of the ONE target geometry object
        refs = np.array([[float(v) for v in to_ref(a, x)] for x in xs], dtype=np.float64).reshape(-1, 3)
        st3, out3 = _call(B.map_reference_to_indices, refs, round_output=rounded, check_bounds=check)
        want3 = [[F(round(v)) if rounded else v for v in y] for y in ys]
        fail3 = check and any(v < F(-1, 2) or v > F(b['shape'][ax]) - F(1, 2) for y in ys for ax, v in enumerate(y))
        if (st3 != 'ok') != fail3 or (st3 == 'ok' and _as_fracs(out3) != want3):
            ctx.fail(dict(case, api='map_reference_to_indices'),
                     {'what': 'map_reference_to_indices on a geometry object used before: wrong answer',
                      'got': (np.asarray(out3).tolist() if st3 == 'ok' else out3)}, site='ref2idx/history')
        if _state(B) != s_B:
            ctx.disagree('L0', dict(case, api='map_reference_to_indices'), 'state changed', 'stateless',
                         'geometry object changed state during a call')
            s_B = _state(B)
        # model (a function of the arguments)
        info = np.iinfo(npd) if npd.kind in 'iu' else None
        djson = {'kind': npd.kind, 'lo': int(info.min) if info else 0, 'hi': int(info.max) if info else 0,
                 'float': FLOAT_TAG.get(dt, 'f64')}
        impl = ('ok', _as_fracs(out)) if st == 'ok' else ('err', _err_kind(out))
        reqs.append(('v2v', {'from': [rat(v) for v in affine12(a)], 'to': [rat(v) for v in affine12(b)], 'shape': b['shape'],
                             'round': rounded, 'check': check, 'pts': [[rat(v) for v in x] for x in xs], 'dtype': djson}))
        pending.append(('pts', case, impl, F(0)))


# ------------------------------------------------------------------------------------------ L2: translated bodies on a grid
def run_helpers(ctx, reqs, pending):
    """The translated per-axis crop/pad derivation composed with the model's slice semantics, against
    numpy slicing of a padded 1-D array: for every (in_shape, out_shape, start, step) of a grid the planned
    pad + slice must select exactly the positions start + k*step (k < out_shape) of the source line."""
    rng = range(1, 5) if ctx.tier == 'quick' else range(1, 7)
    steps = [-3, -2, -1, 1, 2, 3]
    n = 0
    for in_shape in rng:
        for out_shape in rng:
            for start in range(-7, 8):
                for step in steps:
                    reqs.append(('mgCropPad', {'offset': rat(start), 'spacing': '1', 'step': step, 'out_shape': out_shape,
                                               'in_shape': in_shape, 'tol': rat(TOL), 'rc': False, 'rp': False}))
                    pending.append(('plan', {'in_shape': in_shape, 'out_shape': out_shape, 'start': start, 'step': step}, None, None))
                    n += 1
    ctx.exhaustive.append(f'per-axis crop/pad plan (translated body) vs numpy slicing of the padded line: in_shape,out_shape in '
                          f'{rng.start}..{rng.stop - 1}, start -7..7, step in {steps} ({n} cells)')


def run_slice_grid(ctx, reqs, pending):
    """L2: the hand-written slice semantics of the model (`getitemAxis`: _check_slice + CPython slice.indices +
    size arithmetic of `_prepare_getitem_index`) against real indexing of a VolumeGeometry along one axis."""
    from highdicom.volume import VolumeGeometry
    ns = range(1, 5) if ctx.tier == 'quick' else range(1, 7)
    cells = 0
    for n in ns:
        g = VolumeGeometry(np.eye(4), (n, 1, 1), 'PATIENT')
        for start in range(-n - 2, n + 2):
            for stop in [None] + list(range(-n - 3, n + 3)):
                for step in (-3, -2, -1, 0, 1, 2, 3):
                    st, res = _call(lambda: g[slice(start, stop, step)])
                    if st == 'ok':
                        A = res.affine
                        impl = ('ok', [int(round(A[0, 3])), int(round(A[0, 0])), int(res.spatial_shape[0])])
                    else:
                        impl = ('err', _err_kind(res))
                    reqs.append(('getitemAxis', {'start': start, 'stop': stop, 'step': step, 'n': n}))
                    pending.append(('slice', {'n': n, 'start': start, 'stop': stop, 'step': step, 'layer': 'L2'}, impl, None))
                    cells += 1
    ctx.exhaustive.append(f'slice semantics (model getitemAxis vs VolumeGeometry indexing): n in {ns.start}..{ns.stop - 1}, '
                          f'start -n-2..n+1, stop None/-n-3..n+2, step -3..3 ({cells} cells)')


def check_plan(ctx, cell, ans):
    ctx.case(stream='plan-grid')
    if 'ok' not in ans:
        ctx.disagree('L2', cell, 'numpy slicing succeeds', ans, 'per-axis plan refused an integer offset')
        return
    cs, cnone, ce, st, pb, pa, rc, rp = ans['ok']
    line = np.arange(cell['in_shape'])
    padded = np.pad(line, (pb, pa), mode='constant', constant_values=-1) if (pb >= 0 and pa >= 0) else None
    if padded is None:
        ctx.disagree('L2', cell, None, ans, 'negative pad width planned')
        return
    got = padded[slice(cs, None if cnone else ce, st)]
    want = np.array([(cell['start'] + k * cell['step']) if 0 <= cell['start'] + k * cell['step'] < cell['in_shape'] else -1
                     for k in range(cell['out_shape'])])
    if got.shape != want.shape or not np.array_equal(got, want):
        ctx.disagree('L2', cell, want.tolist(), {'plan': ans['ok'], 'selects': got.tolist()}, 'per-axis plan selects other voxels')
    if not rp and (pb or pa):
        ctx.disagree('L2', cell, None, ans, 'pad planned but requires_pad not set')
    if not rc and not (cs == 0 and st == 1 and (cnone or ce >= len(padded))):
        ctx.disagree('L2', cell, None, ans, 'crop needed but requires_crop not set')


# ------------------------------------------------------------------------------------------ run / replay

# ------------------------------------------------------------------------------------------ stream: geometry_equal as a relation
def run_rel_case(ctx, i, reqs, pending):
    """reflexive; symmetric for tol=None and for differences within the purely absolute part; NOT symmetric inside the
    window (tol + rtol |a|, tol + rtol |b|] (np.allclose scales its relative term by the second argument); not transitive
    (two steps of 3/4 tol; a frame of reference of None in the middle)."""
    r = ctx.rng('rel', i)
    g = random_source(r)
    g['dir'] = [list(d) for d in r.choice(SP)]
    g['exact'] = True
    kind = r.choice(['refl', 'refl-copy', 'asym', 'asym', 'sym-abs', 'sym-none', 'trans', 'trans', 'for-trans'])
    tolk = r.choice(['default', 'default', '1e-3', '0']) if kind != 'sym-none' else 'none'
    if kind in ('refl', 'refl-copy') and r.random() < 0.3:
        tolk = '-1e-3'
    tol = {'default': TOL, 'none': None, '1e-3': F(1, 1000), '0': F(0), '-1e-3': -F(1, 1000)}[tolk]
    kw = {} if tolk == 'default' else {'tol': (None if tol is None else float(tol))}
    case = {'stream': 'rel', 'index': i, 'seed': ctx.seed, 'info': {'kind': kind, 'tol': tolk}}
    mk = r.choice([make_geometry, lambda x: make_volume(x, np.zeros(x['shape'], np.int16), r.choice([0, 2]))])

    def ask(x, y, gx, gy, tag, want=None):
        st, val = _call(x.geometry_equal, y, **kw)
        c2 = dict(case, pair=tag)
        if st != 'ok':
            ctx.fail(c2, f'geometry_equal raised {val}', site='geometry_equal')
            return None
        exact_want, _ = exact_geq(gx, gy, tol)
        if want is not None and exact_want != want:
            ctx.hist('rel_construction_missed', f'{kind}/{tag}')
        if bool(val) != exact_want:
            ctx.fail(c2, {'what': 'geometry_equal disagrees with shape/coordinate system/affine-within-tolerance/frame-of-reference',
                          'got': bool(val), 'want': exact_want, 'relation': kind}, site='geometry_equal')
        reqs.append(('geometryEqual', {'a': geom_json(gx), 'b': geom_json(gy), 'tol': None if tol is None else rat(tol),
                                       'ca': 0, 'cb': 0}))
        pending.append(('geq', c2, ('ok', bool(val)), None))
        return bool(val)
    outcome = ''
    if kind in ('refl', 'refl-copy'):
        X = mk(g)
        Y = X if kind == 'refl' else (X.copy() if hasattr(X, 'copy') else X)
        v = ask(X, Y, g, g, 'xx', True)
        if v is False:
            ctx.fail(case, {'what': 'geometry_equal is not reflexive'}, site='geometry_equal/relation')
        outcome = str(v)
    elif kind in ('asym', 'sym-abs', 'sym-none'):
        h = copy_geom(g)
        c = r.randrange(3)
        big = F(r.choice([100000, 250000, 65536, -100000, -300000]))
        g['pos'][c] = big
        base = tol if tol is not None else F(0)
        if kind == 'asym':
            lo = base + RTOL * abs(big)                # |d| must exceed this for the reverse direction to fail
            d = lo * (1 + RTOL / 2)                     # inside the window (lo, lo / (1 - rtol)], about its middle
            h['pos'][c] = big + (d if big > 0 else -d)   # |b| = |a| + |d|
        elif kind == 'sym-abs':
            h['pos'][c] = big + base * F(3, 4) * r.choice([1, -1])
        else:
            h['pos'][c] = big
        h['exact'] = g['exact'] = False
        X, Y = mk(g), mk(h)
        ab = ask(X, Y, g, h, 'ab', True)
        ba = ask(Y, X, h, g, 'ba', kind != 'asym')
        outcome = f'{ab}/{ba}'
        if kind != 'asym' and ab != ba:
            ctx.fail(case, {'what': 'geometry_equal is not symmetric where it must be', 'ab': ab, 'ba': ba}, site='geometry_equal/relation')
        if kind == 'asym':
            ctx.hist('geometry_equal_asymmetric_window', 'asymmetric as specified' if (ab, ba) == (True, False) else f'{ab}/{ba}')
    elif kind == 'trans':
        base = tol if tol is not None else F(0)
        if base == 0:
            base = F(1, 1024)
            kw = {'tol': float(base)}
            tol = base
            case['info']['tol'] = '1/1024'
        c = r.randrange(3)
        g['pos'][c] = F(0)                             # at the origin: the relative term is negligible
        h, k = copy_geom(g), copy_geom(g)
        h['pos'][c] = g['pos'][c] + base * F(3, 4)
        k['pos'][c] = g['pos'][c] + base * F(3, 2)
        for x in (g, h, k):
            x['exact'] = False
        X, Y, Z = mk(g), mk(h), mk(k)
        a1, a2, a3 = ask(X, Y, g, h, 'gh', True), ask(Y, Z, h, k, 'hk', True), ask(X, Z, g, k, 'gk', False)
        outcome = f'{a1}/{a2}/{a3}'
        ctx.hist('geometry_equal_not_transitive', 'g~h, h~k, not g~k' if (a1, a2, a3) == (True, True, False) else outcome)
    else:
        h, k = copy_geom(g), copy_geom(g)
        g['for'], h['for'], k['for'] = '1.2.826.0.1.3680043.8.498.1', None, '1.2.826.0.1.3680043.8.498.2'
        X, Y, Z = mk(g), mk(h), mk(k)
        a1, a2, a3 = ask(X, Y, g, h, 'gh', True), ask(Y, Z, h, k, 'hk', True), ask(X, Z, g, k, 'gk', False)
        outcome = f'{a1}/{a2}/{a3}'
    ctx.case(sample=case if i % 41 == 0 else None, nontrivial_key=('rel', kind, tolk, outcome), stream='rel', rel_kind=kind,
             geq_tol=case['info']['tol'], outcome=outcome)


# ------------------------------------------------------------------------------------------ stream: transformers in both directions
def run_v2vinv_case(ctx, i, reqs, pending):
    """source + target derived by a chain (every signed permutation, strides, crops, pads): the transformer target -> source
    sends every voxel index of the target to the integer source index at the same physical position (exactly, rounded or
    not), the transformer source -> target sends it back; random points: there and back is the identity."""
    from highdicom.volume import VolumeToVolumeTransformer
    r = ctx.rng('v2vinv', i)
    src = random_source(r)
    if r.random() < 0.7:
        src['dir'] = [list(d) for d in r.choice(SP)]
        src['spacing'] = [r.choice([F(1, 4), F(1, 2), F(1), F(2), F(4)]) for _ in range(3)]
        src['pos'] = [F(r.randint(-64, 64), r.choice([1, 2, 4])) for _ in range(3)]
        src['exact'] = True
    N = int(np.prod(src['shape']))
    idx = np.arange(N).reshape(src['shape'])
    tgt, tidx, ops = random_chain(r, copy_geom(src), idx, r.choice([1, 1, 2, 2, 3, 4]))
    def pow2(q):
        return q > 0 and (q.numerator & (q.numerator - 1)) == 0 and (q.denominator & (q.denominator - 1)) == 0
    # np.linalg.inv is exact for scaled signed permutations with power-of-two spacings only (a stride of 3 makes 1/3 appear)
    exact = bool(src.get('exact')) and all(F(float(v)) == v for v in affine12(src) + affine12(tgt)) \
        and all(pow2(q) for q in list(src['spacing']) + list(tgt['spacing']))
    tolv = F(0) if exact else F(1, 10 ** 7)
    S, T = make_geometry(src), make_geometry(tgt)
    base = {'stream': 'v2vinv', 'index': i, 'seed': ctx.seed, 'ops': ops, 'exact': exact}
    ks = [list(k) for k in itertools.product(*[range(n) for n in tgt['shape']])]
    if len(ks) > 60:
        ks = r.sample(ks, 60)
    want_src = [to_idx(src, to_ref(tgt, k)) for k in ks]
    if any(v.denominator != 1 for w in want_src for v in w):
        ctx.fail(base, {'what': 'harness: a chain-derived target voxel does not sit on the source lattice'}, site='harness')
        return
    dtype = r.choice([np.int64, np.int32, np.float64])
    for rounded in (False, True):
        case = dict(base, round_output=rounded, dtype=np.dtype(dtype).name)
        st1, t_ts = _call(VolumeToVolumeTransformer, T, S, round_output=rounded, check_bounds=False)
        st2, t_st = _call(VolumeToVolumeTransformer, S, T, round_output=rounded, check_bounds=True)
        if st1 != 'ok' or st2 != 'ok':
            ctx.fail(case, f'transformer could not be constructed: {t_ts if st1 != "ok" else t_st}', site='v2v/construct')
            continue
        pts = np.array(ks, dtype=dtype).reshape(-1, 3)
        st, there = _call(t_ts, pts)
        ctx.case(sample=case if i % 37 == 0 and rounded else None,
                 nontrivial_key=('v2vinv', tuple(ops), rounded, exact, np.dtype(dtype).name), stream='v2vinv',
                 v2v_mode=f'round={int(rounded)},inverse-pair', outcome=st if st == 'ok' else there, n_points=len(ks),
                 chain_ops='+'.join(sorted({o.split(':')[0] for o in ops})) or 'none')
        if st != 'ok':
            ctx.fail(case, f'transformer target -> source raised {there}', site='v2v/mapping')
            continue
        th = np.asarray(there, dtype=np.float64).reshape(-1, 3)
        bad = [(k, [float(x) for x in g_], [int(x) for x in w]) for k, g_, w in zip(ks, th, want_src)
               if any(abs(F(float(g_[a])) - w[a]) > tolv * max(1, abs(w[a])) for a in range(3))]
        if bad:
            ctx.fail(case, {'what': 'transformer target -> source does not give the source voxel at the same physical position',
                            'examples': bad[:3]}, site='v2v/mapping')
            continue
        if rounded and (there.dtype.kind not in 'iu' or not np.array_equal(np.asarray(there, dtype=np.int64),
                                                                          np.array([[int(x) for x in w] for w in want_src]).reshape(-1, 3))):
            ctx.fail(case, {'what': 'rounded transformer output is not the integer source index'}, site='v2v/mapping')
        # and back: the source -> target transformer (with its bounds check: every image is a voxel of the target)
        st, back = _call(t_st, np.asarray(there))
        if st != 'ok':
            ctx.fail(case, {'what': f'transformer source -> target refused the images of target voxels: {back}'}, site='v2v/bounds-false')
        else:
            bk = np.asarray(back, dtype=np.float64).reshape(-1, 3)
            if any(abs(F(float(b_[a])) - k[a]) > tolv * max(1, abs(k[a])) for k, b_ in zip(ks, bk) for a in range(3)):
                ctx.fail(case, {'what': 'there and back between the two volumes is not the identity on voxel indices'}, site='v2v/mapping')
        impl = ('ok', [[F(float(v)) for v in row] for row in th])
        reqs.append(('v2v', {'from': [rat(v) for v in affine12(tgt)], 'to': [rat(v) for v in affine12(src)],
                             'shape': src['shape'], 'round': rounded, 'check': False, 'pts': [[rat(F(v)) for v in k] for k in ks]}))
        pending.append(('pts', case, impl, tolv))
    # random continuous points: there and back (unrounded) is the identity
    pts = np.array([[r.uniform(-3, 9) for _ in range(3)] for _ in range(5)])
    st1, f = _call(VolumeToVolumeTransformer, S, T)
    st2, b = _call(VolumeToVolumeTransformer, T, S)
    if st1 == 'ok' and st2 == 'ok':
        rt = b(f(pts))
        if not np.allclose(rt, pts, rtol=1e-9, atol=1e-9):
            ctx.fail(base, {'what': 'there and back between the two volumes is not the identity on points'}, site='v2v/mapping')



# ------------------------------------------------------------------------------------------ stream: derived objects and their own maps
def _use_maps(obj, other, r):
    """ask an object for its reference <-> index maps in one of the ways the library offers (read-only queries)"""
    from highdicom.volume import VolumeToVolumeTransformer
    how = r.choice(['inverse_affine', 'map_reference_to_indices', 'transformer_into', 'transformer_from', 'all'])
    pts = np.array([[0.0, 0.0, 0.0], [1.0, 2.0, 3.0]])
    if how in ('inverse_affine', 'all'):
        obj.inverse_affine
    if how in ('map_reference_to_indices', 'all'):
        obj.map_reference_to_indices(obj.map_indices_to_reference(pts))
    if how in ('transformer_into', 'all'):
        VolumeToVolumeTransformer(other, obj)(pts)
    if how in ('transformer_from', 'all'):
        VolumeToVolumeTransformer(obj, other)(pts)
    return how


def _derive(obj, g, r):
    """(child object, its exact geometry, route) by one of the library's ways of deriving an object without resampling"""
    n = g['shape']
    idx = np.zeros(n, dtype=np.int8)
    routes = ['getitem-crop', 'getitem-stride', 'getitem-negstride', 'flip', 'permute', 'pad', 'crop_to', 'pad_to', 'copy', 'match',
              'match', 'get_geometry', 'swap', 'int-index']
    if not hasattr(obj, 'array'):
        routes = [x for x in routes if x != 'get_geometry']
    route = r.choice(routes)
    if route in ('getitem-crop', 'getitem-stride', 'getitem-negstride', 'int-index'):
        sls, pyidx = [], []
        for a in range(3):
            st = r.randrange(n[a])
            sp = r.randint(st + 1, n[a])
            if route == 'int-index' and a == 0:
                sls.append((st, st + 1, 1))
                pyidx.append(st)
            elif route == 'getitem-negstride':
                step = -r.choice([1, 2])
                sls.append((sp - 1, st - 1, step))
                pyidx.append(slice(sp - 1, st - 1 if st > 0 else None, step))
            else:
                step = 1 if route != 'getitem-stride' else r.choice([1, 2, 3])
                sls.append((st, sp, step))
                pyidx.append(slice(st, sp, step))
        h, _ = op_slice(g, idx, sls)
        return obj[tuple(pyidx)], h, route
    if route == 'flip':
        axes = [a for a in range(3) if r.random() < 0.5] or [r.randrange(3)]
        h, _ = op_slice(g, idx, [(n[a] - 1, -1, -1) if a in axes else (0, n[a], 1) for a in range(3)])
        return obj.flip_spatial(axes), h, route
    if route in ('permute', 'swap'):
        if route == 'swap':
            a, b = r.sample(range(3), 2)
            p = [0, 1, 2]
            p[a], p[b] = b, a
            h, _ = op_permute(g, idx, p)
            return obj.swap_spatial_axes(a, b), h, route
        p = list(r.choice(list(itertools.permutations(range(3)))))
        h, _ = op_permute(g, idx, p)
        return obj.permute_spatial_axes(p), h, route
    if route in ('pad', 'pad_to'):
        if route == 'pad':
            pads = [(r.choice([0, 1, 2]), r.choice([0, 1, 2])) for _ in range(3)]
            h, _ = op_pad(g, idx, pads)
            return obj.pad([list(p) for p in pads]), h, route
        extra = [r.choice([0, 1, 2, 3]) for _ in range(3)]
        pads = [(e // 2, e - e // 2) for e in extra]
        h, _ = op_pad(g, idx, pads)
        return obj.pad_to_spatial_shape([n[a] + extra[a] for a in range(3)]), h, route
    if route == 'crop_to':
        tgt = [r.randint(1, n[a]) for a in range(3)]
        sls = [((n[a] - tgt[a]) // 2, (n[a] - tgt[a]) // 2 + tgt[a], 1) for a in range(3)]
        h, _ = op_slice(g, idx, sls)
        return obj.crop_to_spatial_shape(tgt), h, route
    if route == 'copy':
        return obj.copy(), copy_geom(g), route
    if route == 'get_geometry':
        return obj.get_geometry(), copy_geom(g), route
    # match_geometry to a target derived by a short chain (the crop step on an unpadded, unpermuted source included)
    tg, _, ops = random_chain(r, copy_geom(g), np.zeros(n, dtype=np.int64), r.choice([1, 1, 2]))
    return obj.match_geometry(make_geometry(tg)), tg, 'match:' + '+'.join(o.split(':')[0] for o in ops)


def _check_own_maps(ctx, case, obj, g, who, exact):
    """the object's reference <-> index maps must be those of its OWN affine (exact geometry g)"""
    from highdicom.volume import VolumeToVolumeTransformer
    n = g['shape']
    ks = [[0, 0, 0], [n[0] - 1, n[1] - 1, n[2] - 1], [(n[0] - 1) // 2, 0, n[2] - 1], [-1, 3, 0]]   # the last one lies outside
    refs = [to_ref(g, k) for k in ks]
    tolv = F(0) if exact else F(1, 10 ** 7)
    rp = np.array([[float(v) for v in P] for P in refs], dtype=np.float64)
    ok = True
    st, out = _call(obj.map_reference_to_indices, rp)
    if st != 'ok' or any(abs(F(float(o[a])) - k[a]) > tolv * max(1, abs(k[a])) for k, o in zip(ks, np.asarray(out).reshape(-1, 3)) for a in range(3)):
        ctx.fail(dict(case, who=who), {'what': 'map_reference_to_indices of a derived object does not invert its own affine',
                                       'got': None if st != 'ok' else np.asarray(out).tolist(), 'want': ks}, site='derive/ref2idx')
        ok = False
    inv = np.asarray(obj.inverse_affine)
    prod = inv @ obj.affine
    if not np.allclose(prod, np.eye(4), rtol=0, atol=1e-9):
        ctx.fail(dict(case, who=who), {'what': 'inverse_affine of a derived object is not the inverse of its own affine'}, site='derive/inverse')
        ok = False
    ident = make_geometry(g)          # a fresh object with the same exact geometry
    st, out = _call(VolumeToVolumeTransformer(ident, obj, round_output=False, check_bounds=True), np.array(ks[:3], dtype=np.float64))
    if st != 'ok' or any(abs(F(float(o[a])) - k[a]) > tolv * max(1, abs(k[a])) for k, o in zip(ks[:3], np.asarray(out).reshape(-1, 3)) for a in range(3)):
        ctx.fail(dict(case, who=who), {'what': 'transformer into a derived object does not map through the object\'s own affine '
                                               '(voxel centres of the object refused or moved)',
                                       'got': out if st != 'ok' else np.asarray(out).tolist(), 'want': ks[:3]}, site='derive/v2v')
        ok = False
    return ok


def run_derive_case(ctx, i, reqs, pending):
    """One object, a history: its maps are used (inverse_affine / map_reference_to_indices / transformers) BEFORE or AFTER children
    are derived from it (indexing, flip, permute, swap, pad, to-shape, copy, get_geometry, match_geometry), also grandchildren;
    every object's maps must be those of its own affine, whatever was asked of its relatives before."""
    r = ctx.rng('derive', i)
    g = random_source(r)
    if r.random() < 0.7:
        g['dir'] = [list(d) for d in r.choice(SP)]
        g['spacing'] = [r.choice([F(1, 4), F(1, 2), F(1), F(2), F(4)]) for _ in range(3)]
        g['pos'] = [F(r.randint(-64, 64), r.choice([1, 2, 4])) for _ in range(3)]
        g['exact'] = True
    g['shape'] = [max(2, x) for x in g['shape']]
    kind = r.choice(['volume', 'volume', 'volume-channels', 'geometry'])
    arr = np.arange(1, int(np.prod(g['shape'])) + 1, dtype=np.int32).reshape(g['shape'])
    root = make_geometry(g) if kind == 'geometry' else make_volume(g, arr, 2 if kind == 'volume-channels' else 0)
    other = make_geometry(random_source(r))
    order = r.choice(['use-then-derive', 'derive-then-use', 'use-derive-use'])
    case = {'stream': 'derive', 'index': i, 'seed': ctx.seed, 'kind': kind, 'order': order, 'routes': []}

    def pow2(q):
        return q > 0 and (q.numerator & (q.numerator - 1)) == 0 and (q.denominator & (q.denominator - 1)) == 0
    objs = [(root, g, 'root')]
    used = []
    if order in ('use-then-derive', 'use-derive-use'):
        used.append(_use_maps(root, other, r))
    cur, cg = root, g
    for depth in range(r.choice([1, 1, 2, 3])):
        try:
            child, hg, route = _derive(cur, cg, r)
        except Exception as e:  # noqa: BLE001
            ctx.fail(case, {'what': f'deriving an object was refused: {type(e).__name__}: {e}'[:300], 'routes': case['routes']}, site='derive/refused')
            break
        case['routes'].append(route)
        objs.append((child, hg, f'child{depth + 1}:{route}'))
        if order == 'use-derive-use' and r.random() < 0.6:
            used.append(_use_maps(child, other, r))
        cur, cg = child, hg
    if order == 'derive-then-use':
        # the youngest first, the root last: a cache filled by a descendant must not reach the ancestors either
        for o, _, _ in reversed(objs):
            used.append(_use_maps(o, other, r))
    case['used'] = used
    all_ok = True
    for o, og, who in (objs if r.random() < 0.5 else list(reversed(objs))):
        exact = bool(og.get('exact')) and all(F(float(v)) == v for v in affine12(og)) and all(pow2(q) for q in og['spacing'])
        all_ok &= _check_own_maps(ctx, case, o, og, who, exact)
    ctx.case(sample=case if i % 43 == 0 else None,
             nontrivial_key=('derive', kind, order, tuple(x.split(':')[0] for x in case['routes']), tuple(used)), stream='derive',
             derive_order=order, derive_kind=kind, outcome='ok' if all_ok else 'own maps wrong',
             derive_route='>'.join(x.split(':')[0] for x in case['routes']) or 'none')
    for x in case['routes']:
        ctx.hist('derive_step', x.split(':')[0])
    for u in used:
        ctx.hist('maps_used_by', u)


STREAMS = {'chain': run_chain_case, 'perturb': run_perturb_case, 'geq': run_geq_case, 'v2v': run_v2v_case,
           'v2vdt': run_v2vdt_case, 'v2vhist': run_v2vhist_case, 'padspell': run_padspell_case, 'rel': run_rel_case,
           'v2vinv': run_v2vinv_case, 'derive': run_derive_case}


def _resolve(ctx, reqs, pending):
    answers = ctx.model(reqs)
    if answers is None:
        return
    probes = []
    for (kind, case, impl, extra), ans in zip(pending, answers):
        if kind == 'probe':
            probes.append(ans)
            continue
        if kind == 'match':
            compare_match(ctx, case, impl, ans, extra)
        elif kind == 'match-perturbed':
            lo, hi = probes[-2], probes[-1]
            probes = []
            decisive = ('ok' in lo) or ('err' in hi)
            ctx.hist('perturb_decisive', f"{case['perturbation']['kind']}/{'decisive' if decisive else 'inside-margin-band'}")
            if decisive:
                compare_match(ctx, case, impl, ans, extra)
        elif kind == 'geq':
            if 'proto_err' in ans or 'ok' not in ans:
                ctx.disagree('L0', case, impl, ans, 'geometry_equal model error')
            elif ans['ok'] != impl[1]:
                ctx.disagree('L0', case, impl, ans, 'geometry_equal')
        elif kind == 'pts':
            if 'proto_err' in ans:
                ctx.disagree('L0', case, impl, ans, 'model protocol error')
            elif ('ok' in ans) != (impl[0] == 'ok'):
                ctx.disagree('L0', case, impl if impl[0] == 'err' else 'ok', ans if 'err' in ans else 'ok', 'bounds check / mapping ok-vs-error')
            elif impl[0] == 'ok':
                m = [[F(v) for v in row] for row in ans['ok']]
                for mr, ir in zip(m, impl[1]):
                    if any(isinstance(y, str) or abs(x - y) > extra * max(1, abs(x)) for x, y in zip(mr, ir)):
                        ctx.disagree('L0', case, [str(v) for v in ir], [float(v) for v in mr], 'index mapping')
                        break
        elif kind == 'plan':
            check_plan(ctx, case, ans)
        elif kind == 'slice':
            ctx.case(stream='slice-grid')
            model = ('ok', ans['ok']) if 'ok' in ans else ('err', ans.get('err', 'proto'))
            if model[0] != impl[0] or (impl[0] == 'ok' and model[1] != impl[1]):
                ctx.disagree('L2', case, impl, model, 'slice semantics of one axis')


def run(ctx, only=None):
    reqs, pending = [], []
    if only is None:
        run_helpers(ctx, reqs, pending)
        run_slice_grid(ctx, reqs, pending)
    budget = {'chain': ctx.n(1000, 12000), 'perturb': ctx.n(800, 9000), 'geq': ctx.n(1000, 10000), 'v2v': ctx.n(500, 5000),
              'v2vdt': ctx.n(600, 6000), 'v2vhist': ctx.n(500, 5000), 'padspell': ctx.n(200, 2000), 'rel': ctx.n(300, 3000),
              'v2vinv': ctx.n(250, 2500), 'derive': ctx.n(400, 4000)}
    for stream, fn in STREAMS.items():
        if only is not None and only[0] != stream:
            continue
        idxs = [only[1]] if only is not None else range(budget[stream])
        for i in idxs:
            fn(ctx, i, reqs, pending)
            if len(reqs) > 4000:
                _resolve(ctx, reqs, pending)
                reqs, pending = [], []
    _resolve(ctx, reqs, pending)


def replay(ctx, case):
    """Re-run one stored case (stream, index, seed) on the implementation only; returns the oracle failures of that case, or
    None when it passes on the current tree.  The model is switched off: a replay does not regenerate / rebuild the Lean
    side, so model answers could stem from another tree and say nothing about whether the stored input still fails."""
    if not isinstance(case, dict) or 'stream' not in case or 'index' not in case or case['stream'] not in STREAMS:
        return None
    sub = type(ctx)(ctx.prop, ctx.tier, int(case.get('seed', ctx.seed)), 1, ctx.driver)
    sub.model_available = False          # implementation side only
    import contextlib
    import io as _io
    with contextlib.redirect_stdout(_io.StringIO()), contextlib.redirect_stderr(_io.StringIO()):
        run(sub, only=(case['stream'], int(case['index'])))

    def key(c):
        return (c.get('stream'), c.get('index'), c.get('seed')) if isinstance(c, dict) else None
    want = (case['stream'], int(case['index']), int(case.get('seed', ctx.seed)))
    hits = [f for f in sub.failures if key(f['case']) == want]
    return hits[:3] or None
