"""C17  Coded concepts behave as values under equality, hashing and I/O.

Tie T: T17 (sr/coding.py: attribute selection, constructor assignments, property lookups, the arguments of
`Code(...)` in `__eq__`, the operands of `__hash__`, the decision tree of `from_dataset`).
Tie C: Model/Coding.lean (pydicom's `Code.__eq__`/`__hash__`, `==` dispatch, object store) against the real
objects on ALL ordered pairs of a 3 x 4 x 2 x 2 alphabet in both classes, the constructor on a dense value
grid, `from_dataset` on every presence pattern.
Oracle (independent of the model): the relations evaluated on the real objects.
"""
from __future__ import annotations

import io
import itertools
import json

import numpy as np

PROP = 'C17'
TARGETS = ['T17', 'T17p', 'T17m']
LEAN_MODULES = ['HdVerif.Props.C17']
MODEL_MODULES = ['HdVerif.Model.Coding']
NAMESPACE = 'HdVerif.C17'
DRIVER = 'Drivers/C17.lean'
RULE = ('alphabet = 3 schemes (SRT, SCT, one other) x 4 values (a retired SRT value, its SCT successor, a 17-character '
        'value, a URN) x 2 meanings x 2 versions x {pydicom Code, CodedConcept}; the alias pair and the long/URN values '
        'are drawn per seed.  One case = one ordered pair (==, !=, hash, set, dict), one triple (transitivity, via the '
        'pair matrix), one constructed value, or one from_dataset call; non-trivial = pair with equal normalised key but '
        'different representation/meaning/alias side, constructor value by (length, form), from_dataset by presence pattern')
ASSUMPTIONS = [
    'pydicom Code.__eq__/__ne__/__hash__ are TRANSLATED from the installed pydicom source on every run (T17p: pydCodeEq, pydEqOtherReads, '
    'pydHashArgs, pydNeNegatesEq, pydCodeFields) - translated, not trusted; the model driver uses the retired-scheme table regenerated '
    'from pydicom.sr._snomed_dict (T17m)',
    'snomed_mapping enters the theorems as an arbitrary function `retired s v`',
    'Python str hash enters as an arbitrary function h; len(str) is the number of code points (= Lean String.length)',
    'deepcopy yields a new object with equal content (exercised on every from_dataset(copy=True) case)',
    'arguments ending in a padding character (blank, NUL) do not survive a written file - pydicom`s reader strips them (theorem file_roundtrip, '
    'counterexample_trailing_blank_through_file, stream file-strings): the read-back-unchanged clause through files is claimed for arguments '
    'without trailing padding; in memory such arguments are kept as they are',
    'what counts as a URN or URL is what the constructor tests (prefix "urn:" or "://" inside); the oracle only uses values that are '
    'unambiguously one or the other',
]
MODELLED_NOT_VERIFIED = ['pydicom Dataset attribute storage / file writer+reader', 'copy.deepcopy',
                         'Python == dispatch and set/dict insertion']

CODE_KWS = ('CodeValue', 'LongCodeValue', 'URNCodeValue')


# ------------------------------------------------------------------ helpers
def _ds_pairs(ds):
    """keyword -> str(value) of every non-sequence element of a dataset (what the model sees)."""
    out = []
    for el in ds:
        if el.VR == 'SQ' or not el.keyword:
            continue
        out.append([el.keyword, str(el.value)])
    return out


def _enc(o):
    from pydicom.sr.coding import Code
    if isinstance(o, Code):
        return {'code': [o.value, o.scheme_designator, o.meaning, o.scheme_version]}
    return {'concept': _ds_pairs(o)}


def _try(fn, *a, **k):
    try:
        return ('ok', fn(*a, **k))
    except Exception as e:  # noqa: BLE001
        return ('err', type(e).__name__)


def _kind(name):
    return {'IndexError': 'index', 'ValueError': 'value', 'TypeError': 'type', 'RuntimeError': 'runtime',
            'KeyError': 'key', 'AttributeError': 'attribute'}.get(name, 'other')


def _alphabet(ctx, variant=0):
    """[(descr, object)] : 48 codes x 2 classes; plus the alias map used by the oracle."""
    from pydicom.sr._snomed_dict import mapping
    from pydicom.sr.coding import Code
    from highdicom.sr.coding import CodedConcept
    srt = mapping['SRT']
    keys = sorted(srt)
    r = ctx.rng('alphabet', variant)
    if ctx.seed == 0 and variant == 0:
        old = 'T-A0100'
    else:
        old = r.choice(keys)
    new = srt[old]
    longv = ''.join(r.choice('0123456789ABCDEFX-') for _ in range(17))
    urn = r.choice(['urn:oid:1.2.840.10008.2.16.4', 'urn:lex:eu:council:directive:2010', 'http://snomed.info/id/12738006',
                    'https://loinc.org/1234-5/details'])
    other = r.choice(['DCM', '99HDV', 'LN', 'UCUM'])
    schemes = ['SRT', 'SCT', other]
    values = [old, new, longv, urn]
    meanings = ['Brain', 'Entire brain (body structure)']
    versions = [None, r.choice(['20200101', '2.0', 'v1'])]
    objs = []
    for s, v, m, ver in itertools.product(schemes, values, meanings, versions):
        for cls in ('code', 'concept'):
            o = Code(v, s, m, ver) if cls == 'code' else CodedConcept(v, s, m, ver)
            if cls == 'concept' and variant % 2 == 1:
                # odd alphabets: every concept has been written to bytes, read back (raw elements, padded strings) and
                # converted with from_dataset(copy=False) - all relations must hold for such objects too
                o = _through_file(o)
            objs.append(({'scheme': s, 'value': v, 'meaning': m, 'version': ver, 'cls': cls, 'variant': variant}, o))
    ctx.hist('alphabet_concepts', 'through a file' if variant % 2 == 1 else 'in memory', len(objs) // 2)
    alias = {('SRT', old): ('SCT', new)}
    retired = [[v, srt[v]] for v in values if v in srt]
    return objs, alias, retired


def _through_file(c):
    import pydicom
    from pydicom.dataset import Dataset
    from highdicom.sr.coding import CodedConcept
    outer = Dataset()
    outer.ConceptNameCodeSequence = [c]
    buf = io.BytesIO()
    pydicom.dcmwrite(buf, outer, implicit_vr=(len(c.value) % 2 == 0), little_endian=True)
    buf.seek(0)
    return CodedConcept.from_dataset(pydicom.dcmread(buf, force=True).ConceptNameCodeSequence[0], copy=False)


def _okey(alias, d):
    s, v = alias.get((d['scheme'], d['value']), (d['scheme'], d['value']))
    return (s, v, d['version'])


# ------------------------------------------------------------------ 1. pairs and triples
def _relations(ctx, reqs, pending, variant=0):
    objs, alias, retired = _alphabet(ctx, variant)
    n = len(objs)
    E = np.zeros((n, n), bool)
    ok = np.ones((n, n), bool)
    hashes = []
    for d, o in objs:
        st, h = _try(hash, o)
        if st != 'ok':
            ctx.fail({'what': 'hash', 'obj': d}, f'hash raised {h}', site='hash')
            h = None
        hashes.append(h)
        reqs.append(('hashInput', {'o': _enc(o)}))
        pending.append(({'what': 'hash', 'obj': d}, ('hash', h)))
    for i, (da, a) in enumerate(objs):
        for j, (db, b) in enumerate(objs):
            case = {'what': 'pair', 'a': da, 'b': db}
            st, e = _try(lambda: a == b)
            st2, ne = _try(lambda: a != b)
            want = _okey(alias, da) == _okey(alias, db)
            same_sv = (da['scheme'], da['value']) == (db['scheme'], db['value'])
            nontriv = None
            if want and (da['cls'] != db['cls'] or da['meaning'] != db['meaning'] or not same_sv):
                nontriv = ('pair', da['scheme'], da['value'], da['cls'], da['meaning'], str(da['version']),
                           db['scheme'], db['value'], db['cls'], db['meaning'])
            ctx.case(sample=case if (want and not same_sv and len(ctx.samples) < 2) else None, nontrivial_key=nontriv,
                     classes=da['cls'] + '/' + db['cls'], expected_equal=want,
                     alias_pair=(not same_sv and want), same_scheme_value=same_sv)
            if st != 'ok' or st2 != 'ok' or not isinstance(e, (bool, np.bool_)) or not isinstance(ne, (bool, np.bool_)):
                ctx.fail(case, f'== / != did not return a bool: {st}:{e!r} {st2}:{ne!r}', site='eq')
                ok[i, j] = False
                continue
            E[i, j] = bool(e)
            # decided by scheme, value, version (aliases normalised), never by meaning
            if bool(e) != want:
                ctx.fail(case, f'a == b is {e}, but normalised (scheme, value, version) keys '
                               f'{_okey(alias, da)} / {_okey(alias, db)} say {want}', site='eq-key')
            if bool(ne) != (not bool(e)):
                ctx.fail(case, f'a != b is {ne} while a == b is {e}', site='ne')
            # hashing: same scheme + value => same hash whichever class; sets / dicts treat them as one iff equal
            if same_sv and hashes[i] is not None and hashes[j] is not None:
                if hashes[i] != hashes[j]:
                    ctx.fail(case, 'same scheme and value but different hash', site='hash')
                st3, ln = _try(lambda: len({a, b}))
                if st3 != 'ok' or (ln == 1) != bool(e):
                    ctx.fail(case, f'len({{a, b}}) = {ln} but a == b is {e}', site='set')
                st4, hit = _try(lambda: {a: 1}.get(b) == 1)
                if st4 != 'ok' or bool(hit) != bool(e):
                    ctx.fail(case, f'dict lookup of b in {{a: 1}} gives {hit} but a == b is {e}', site='dict')
                reqs.append(('setLen2', {'a': _enc(a), 'b': _enc(b)}))
                pending.append((dict(case, what='setLen2'), ('ok', ln if st3 == 'ok' else None)))
            reqs.append(('eq', {'a': _enc(a), 'b': _enc(b)}))
            pending.append((case, ('ok', bool(e))))
            if (i + j) % 7 == 0:
                reqs.append(('ne', {'a': _enc(a), 'b': _enc(b)}))
                pending.append((dict(case, what='ne'), ('ok', bool(ne))))
    ctx.exhaustive.append(f'alphabet {variant}: all {n * n} ordered pairs of the {n}-object alphabet (==, !=, hash, set, dict)')
    # relations on the real results (not via the key)
    for i in range(n):
        if ok[i, i] and not E[i, i]:
            ctx.fail({'what': 'refl', 'a': objs[i][0]}, 'a == a is False', site='refl')
    asym = np.argwhere(E != E.T)
    for i, j in asym[:20]:
        if ok[i, j] and ok[j, i]:
            ctx.fail({'what': 'symm', 'a': objs[i][0], 'b': objs[j][0]}, f'a == b is {E[i, j]} but b == a is {E[j, i]}', site='symm')
    # transitivity over ALL triples through the pair matrix: (E @ E) > 0 must imply E
    Ei = E.astype(np.int64)
    two = (Ei @ Ei) > 0
    bad = np.argwhere(two & ~E & ok)
    for i, k in bad[:20]:
        js = np.nonzero(E[i] & E[:, k])[0]
        j = int(js[0])
        ctx.fail({'what': 'trans', 'a': objs[i][0], 'b': objs[j][0], 'c': objs[k][0]}, 'a == b and b == c but a != c', site='trans')
    ntr = int(Ei.sum(axis=1) @ Ei.sum(axis=0))
    ctx.evaluations += n * n * n
    ctx.hist('triples', 'checked', n * n * n)
    ctx.hist('triples', 'with a==b and b==c', int((Ei @ Ei).sum()))
    ctx.exhaustive.append(f'alphabet {variant}: all {n ** 3} triples of the {n}-object alphabet for transitivity (through the matrix of real == results; '
                          f'{int((Ei @ Ei).sum())} with both premises true)')
    # meaning independence stated directly: objects that differ only in meaning behave identically
    for i, (da, a) in enumerate(objs):
        for j, (db, b) in enumerate(objs):
            if i < j and all(da[k] == db[k] for k in ('scheme', 'value', 'version', 'cls')) and da['meaning'] != db['meaning']:
                if not (E[i] == E[j]).all() or not (E[:, i] == E[:, j]).all():
                    ctx.fail({'what': 'meaning', 'a': da, 'b': db}, 'objects differing only in meaning compare differently to a third', site='meaning')
    return objs, alias, retired


# ------------------------------------------------------------------ 2. value attribute
def _values(ctx):
    r = ctx.rng('values')
    out = []
    alnum = 'ABCDEFGHIJKLMNOPQRSTUVWXYZ0123456789-.'
    for L in range(0, 24):
        out.append((''.join(r.choice(alnum) for _ in range(L)), 'plain'))
    for L in range(5, 24):
        out.append(('urn:' + ''.join(r.choice('abcdef0123456789:.') for _ in range(L - 4)), 'urn'))
    for L in range(8, 26):
        pre = r.choice(['http://', 'https://', 'ftp://'])
        if L <= len(pre):
            continue
        out.append((pre + ''.join(r.choice('abcdef0123456789./') for _ in range(L - len(pre))), 'url'))
    # ambiguous forms: only compared with the model, no oracle verdict
    for L in (3, 4, 10, 16, 17, 20):
        out.append((('urn' + 'x' * L)[:L], 'ambiguous'))
        out.append((('URN:' + 'x' * L)[:max(L, 5)], 'urn'))          # RFC 8141: the leading "urn" is case-insensitive
        out.append((('Urn:' + 'y' * L)[:max(L, 5)], 'urn'))
        out.append((('a' * (L // 2) + '://' + 'b' * L)[:max(L, 5)], 'ambiguous'))
    out += [('äöüß' * 4, 'plain'), ('äöüß' * 4 + 'x', 'plain'), ('1234567890123456', 'plain'), ('12345678901234567', 'plain')]
    for _ in range(ctx.n(20, 400)):
        L = r.choice([1, 8, 15, 16, 17, 18, 30, 64])
        form = r.choice(['plain', 'urn', 'url'])
        body = ''.join(r.choice(alnum) for _ in range(L))
        v = body if form == 'plain' else ('urn:' + body)[:max(L, 5)] if form == 'urn' else ('http://' + body)[:max(L, 8)]
        if form == 'plain' and (v.startswith('urn') or '://' in v):
            continue
        out.append((v, form))
    return out


def _expected_attr(v, form):
    if form in ('urn', 'url'):
        return 'URNCodeValue'
    return 'CodeValue' if len(v) <= 16 else 'LongCodeValue'


def _constructor(ctx, reqs, pending):
    import pydicom
    from pydicom.dataset import Dataset
    from highdicom.sr.coding import CodedConcept
    r = ctx.rng('ctor')
    for idx, (v, form) in enumerate(_values(ctx)):
        ver = r.choice([None, '1.0'])
        mlen = r.choice([1, 1, 5, 5, 20, 40, 63, 64, 64, 64, 64, 65, 80, 0])
        meaning = ('m' * mlen)
        case = {'what': 'ctor', 'value': v, 'form': form, 'meaning_len': mlen, 'version': ver}
        st, c = _try(CodedConcept, v, '99HDV', meaning, ver)
        ctx.case(sample=case if idx % 41 == 0 else None,
                 nontrivial_key=('ctor', min(len(v), 18), form, mlen > 64) if st == 'ok' else None,
                 form=form, value_len=('<=16' if len(v) <= 16 else '>16'), ctor_outcome=(st if st == 'ok' else c))
        reqs.append(('mk', {'value': v, 'scheme': '99HDV', 'meaning': meaning, 'version': ver}))
        if st != 'ok':
            pending.append((case, ('err', _kind(c))))
            if mlen <= 64:
                ctx.fail(case, f'constructor refused a legal code: {c}', site='ctor')
            continue
        pending.append((case, ('ok', sorted(_ds_pairs(c)))))
        present = [k for k in CODE_KWS if hasattr(c, k)]
        if len(present) != 1:
            ctx.fail(case, f'value stored in {present}', site='ctor-attr')
            continue
        if form != 'ambiguous' and present[0] != _expected_attr(v, form):
            ctx.fail(case, f'value stored in {present[0]}, the standard assigns {_expected_attr(v, form)}', site='ctor-attr')
        stv, got = _try(lambda: (getattr(c, present[0]), c.value))
        if stv != 'ok' or got != (v, v):
            ctx.fail(case, f'value read back as {got!r}', site='ctor-value')
        stf, gotf = _try(lambda: (c.meaning, c.scheme_designator, c.scheme_version))
        if stf != 'ok' or gotf != (meaning, '99HDV', ver):
            ctx.fail(case, f'meaning / scheme / version not read back: {gotf!r}', site='ctor-fields')
        # through a written file (explicit and implicit VR): value unchanged, equal to the original, same hash
        if v and v == v.strip() and meaning and idx % (1 if ctx.tier == 'thorough' else 3) == 0 and all(ord(ch) < 128 for ch in v):
            for implicit in (False, True):
                outer = Dataset()
                outer.ConceptNameCodeSequence = [c]
                buf = io.BytesIO()
                st2, _ = _try(pydicom.dcmwrite, buf, outer, implicit_vr=implicit, little_endian=True)
                if st2 != 'ok':
                    ctx.note(f'pydicom could not write code {v!r}')
                    continue
                buf.seek(0)
                back = pydicom.dcmread(buf, force=True).ConceptNameCodeSequence[0]
                st3, c2 = _try(CodedConcept.from_dataset, back)
                ctx.case(path='file-roundtrip')
                if st3 != 'ok':
                    ctx.fail(dict(case, what='ctor-file'), f'from_dataset refused the written code: {c2}', site='file')
                else:
                    st4, same = _try(lambda: c2.value == v and (c2 == c) and (c == c2) and hash(c2) == hash(c) and
                                     [k for k in CODE_KWS if hasattr(c2, k)] == present)
                    if st4 != 'ok' or not same:
                        ctx.fail(dict(case, what='ctor-file'), f'code changed through the file ({same!r})', site='file')


SPECIALS = [
    # (value, scheme, meaning, version, must be refused?)  -- the DICOM value delimiter in any argument cannot be stored
    ('a\\b', '99HDV', 'm', None, True), ('\\', '99HDV', 'm', None, True), ('abc\\', '99HDV', 'm', '1', True),
    ('a' * 17 + '\\b', '99HDV', 'm', None, True), ('urn:oid:1.2\\3', '99HDV', 'm', None, True),
    ('abc', '99\\HDV', 'm', None, True), ('abc', '99HDV', 'x\\y', None, True), ('abc', '99HDV', 'm', '1\\2', True),
    ('abc', '99HDV', '\\' * 3, '2.0', True),
    # other characters that are special somewhere in DICOM but are kept as they are in memory
    (' a ', '99HDV', ' m ', None, False), ('a b', '99HDV', 'two  spaces', ' 1 ', False), ('a\nb', '99HDV', 'm\tn', None, False),
    ('a^b=c', '99HDV', 'x^y=z', None, False), ('*?%', '99HDV', '"quoted"', None, False), ('/', '99HDV', '/', '/', False),
    ('\u00e4\u00f6\u00fc', '99HDV', '\u00df\u4e2d', None, False), ('abc', '99HDV', 'm', '', False),
]


def _special_characters(ctx, reqs, pending):
    from pydicom.sr.coding import Code
    from highdicom.sr.coding import CodedConcept
    for idx, (v, sch, m, ver, refuse) in enumerate(SPECIALS):
        case = {'what': 'ctor-special', 'special': idx, 'args': [v, sch, m, ver]}
        st, c = _try(CodedConcept, v, sch, m, ver)
        ctx.case(sample=case if idx in (0, 9) else None, nontrivial_key=('special', idx), special=('backslash' if refuse else 'kept'),
                 ctor_outcome=(st if st == 'ok' else c))
        reqs.append(('mk', {'value': v, 'scheme': sch, 'meaning': m, 'version': ver}))
        if st != 'ok':
            pending.append((dict(case, what='ctor'), ('err', _kind(c))))
            if not refuse:
                ctx.fail(case, f'constructor refused a storable code: {c}', site='ctor-special')
            continue
        pending.append((dict(case, what='ctor'), ('ok', sorted(_ds_pairs(c)))))
        # whatever is accepted must read back unchanged, hash and compare like the matching Code
        stv, back = _try(lambda: (c.value, c.scheme_designator, c.meaning, c.scheme_version))
        sth, good = _try(lambda: hash(c) == hash(Code(v, sch, m, ver)) and (c == Code(v, sch, m, ver)) and (Code(v, sch, m, ver) == c))
        if stv != 'ok' or back != (v, sch, m, ver) or sth != 'ok' or not good:
            ctx.fail(case, f'accepted arguments {[v, sch, m, ver]!r} read back as {back!r}; hash/== with the matching Code: {good!r}'
                     + (' (an argument containing a backslash must be refused)' if refuse else ''), site='ctor-special')


# ------------------------------------------------------------------ 3. from_dataset / from_code
def _fd_cases(ctx):
    extras = [None, ('ContextIdentifier', '7150'), ('PatientID', 'p1')]
    cases = []
    for mask in range(8):
        for has_m in (True, False):
            for has_s in (True, False):
                for has_v in (False, True):
                    for copy in (True, False):
                        cases.append((mask, has_m, has_s, has_v, copy, extras[(mask + has_m + 2 * has_s + has_v) % 3], 'dataset'))
    # several code-value attributes of which all but one (or all) are PRESENT BUT EMPTY ('' / None in memory / zero-length after
    # a bytes round trip): still not exactly one code; and a single attribute that is present but empty
    for mask in (3, 5, 6, 7, 1, 2, 4):
        nbits = bin(mask).count('1')
        for variant in ('str', 'none', 'rt'):
            for keep in (list(range(nbits)) + [-1] if nbits > 1 else [-1]):
                for copy in (True, False):
                    cases.append((mask, True, True, (mask + keep) % 2 == 0, copy, None, f'dataset-empty:{variant}:{keep}'))
    # other spellings of the option: numpy booleans, 1 / 0 (truthiness is what the code tests)
    for mask in (1, 2, 4):
        for copy in (True, False):
            for spell in ('np', 'int'):
                cases.append((mask, True, True, mask == 2, copy, None, f'dataset-spell:{spell}'))
    for copy in (True, False):
        cases.append((1, True, True, False, copy, None, 'concept'))
        cases.append((4, True, True, True, copy, None, 'concept'))
        for kind in ('dict', 'none', 'code', 'str'):
            cases.append((1, True, True, False, copy, None, kind))
    return cases


def _build_fd_input(c):
    from pydicom.dataset import Dataset
    from pydicom.sr.coding import Code
    from highdicom.sr.coding import CodedConcept
    mask, has_m, has_s, has_v, copy, extra, kind = c
    vals = {'CodeValue': '12738006', 'LongCodeValue': '1273800612738006X', 'URNCodeValue': 'urn:oid:1.2.840.10008.2.16.4'}
    if kind == 'dict':
        return {'CodeValue': 'x', 'CodeMeaning': 'm', 'CodingSchemeDesignator': 's'}
    if kind == 'none':
        return None
    if kind == 'code':
        return Code('12738006', 'SCT', 'Brain')
    if kind == 'str':
        return '12738006'
    if kind == 'concept':
        kw = [k for i, k in enumerate(CODE_KWS) if mask >> i & 1][0]
        return CodedConcept(vals[kw], 'SCT', 'Brain', '2020' if has_v else None)
    ds = Dataset()
    empty = None
    if kind.startswith('dataset-empty'):
        _, variant, keep = kind.split(':')
        empty = (variant, int(keep))
    j = 0
    for i, k in enumerate(CODE_KWS):
        if mask >> i & 1:
            if empty is not None and j != empty[1]:
                setattr(ds, k, None if empty[0] == 'none' else '')
            else:
                setattr(ds, k, vals[k])
            j += 1
    if has_m:
        ds.CodeMeaning = 'Brain'
    if has_s:
        ds.CodingSchemeDesignator = 'SCT'
    if has_v:
        ds.CodingSchemeVersion = '2020'
    if extra:
        setattr(ds, extra[0], extra[1])
    if empty is not None and empty[0] == 'rt':
        import io as _io
        import pydicom
        outer = Dataset()
        outer.ConceptNameCodeSequence = [ds]
        buf = _io.BytesIO()
        pydicom.dcmwrite(buf, outer, implicit_vr=True, little_endian=True)
        buf.seek(0)
        ds = pydicom.dcmread(buf, force=True).ConceptNameCodeSequence[0]
    return ds


def _from_dataset(ctx, reqs, pending, only=None):
    from pydicom.dataset import Dataset
    from highdicom.sr.coding import CodedConcept
    for c in _fd_cases(ctx):
        if only is not None and list(c) != list(only):
            continue
        mask, has_m, has_s, has_v, copy, extra, kind = c
        case = {'what': 'from_dataset', 'fd': list(c)}
        inp = _build_fd_input(c)
        is_ds = isinstance(inp, Dataset)
        before = sorted(_ds_pairs(inp)) if is_ds else None
        cls_before = type(inp)
        copy_arg = copy
        if kind == 'dataset-spell:np':
            copy_arg = np.True_ if copy else np.False_
        elif kind == 'dataset-spell:int':
            copy_arg = 1 if copy else 0
        if kind.startswith('dataset-spell') and copy:
            st, res = _try(CodedConcept.from_dataset, inp, copy_arg)        # positionally
        else:
            st, res = _try(CodedConcept.from_dataset, inp, copy=copy_arg)
        n_codes = bin(mask).count('1')
        want_ok = is_ds and n_codes == 1 and has_m and has_s
        ctx.case(sample=case if (want_ok and mask == 2 and copy) else None,
                 nontrivial_key=('fd', mask, has_m, has_s, has_v, copy, kind),
                 fd_codes=n_codes, fd_input=kind.split(':')[0] + (':' + kind.split(':')[1] if ':' in kind else ''), fd_copy=copy, fd_outcome=(st if st == 'ok' else res))
        if (st == 'ok') != want_ok:
            ctx.fail(case, f'from_dataset {"accepted" if st == "ok" else "refused (" + str(res) + ")"} a dataset with {n_codes} code value '
                           f'attribute(s), meaning={has_m}, scheme={has_s}, input kind {kind}', site='fd-accept')
        if is_ds:
            cls_name = 'concept' if isinstance(inp, CodedConcept) and kind == 'concept' else 'dataset'
            if kind.startswith('dataset-empty') and sorted(k for k in CODE_KWS if k in inp) != sorted(k for i, k in enumerate(CODE_KWS) if mask >> i & 1):
                ctx.note(f'generator: empty attribute lost in {kind}')
            reqs.append(('fromDataset', {'cls': cls_name, 'ds': before, 'copy': copy}))
        else:
            reqs.append(('fromDataset', {'cls': 'other', 'ds': [], 'copy': copy}))
        if st != 'ok':
            pending.append((case, ('err', _kind(res))))
            if is_ds and (sorted(_ds_pairs(inp)) != before or type(inp) is not cls_before):
                ctx.fail(case, 'refused dataset was modified', site='fd-refuse')
            continue
        if not isinstance(res, CodedConcept):
            ctx.fail(case, f'result has type {type(res).__name__}', site='fd-type')
            continue
        same = res is inp
        if copy and same:
            ctx.fail(case, 'copy=True returned the dataset itself', site='fd-copy')
        if not copy and not same:
            ctx.fail(case, 'copy=False returned a different object', site='fd-alias')
        if sorted(_ds_pairs(res)) != before:
            ctx.fail(case, 'content of the result differs from the dataset', site='fd-content')
        if copy and (type(inp) is not cls_before or sorted(_ds_pairs(inp)) != before):
            ctx.fail(case, 'copy=True altered the original (class or content)', site='fd-copy')
        kws_present = [k for k in CODE_KWS if k in res]
        stp, props = _try(lambda: (res.value, res.meaning, res.scheme_designator, res.scheme_version))
        if stp != 'ok' or len(kws_present) != 1 or props != (getattr(res, kws_present[0]), 'Brain', 'SCT', '2020' if has_v else None):
            ctx.fail(case, f'properties of the converted concept do not read the dataset: {props!r}', site='fd-props')
        res.CodeMeaning = 'changed afterwards'
        after = sorted(_ds_pairs(inp))
        if copy and after != before:
            ctx.fail(case, 'writing to the copy changed the original', site='fd-copy')
        if not copy and after == before:
            ctx.fail(case, 'writing to the alias did not change the original', site='fd-alias')
        pending.append((case, ('ok', {'same': same,
                                      'orig_cls': 'concept' if isinstance(inp, CodedConcept) else 'dataset',
                                      'res_ds': before, 'orig_after': after})))
    if only is None:
        ctx.exhaustive.append('from_dataset: every subset of {CodeValue, LongCodeValue, URNCodeValue} x meaning x scheme x version x copy, '
                              'plus CodedConcept and non-Dataset inputs')


def _from_code(ctx, objs, retired, reqs, pending):
    from pydicom.sr.coding import Code
    from highdicom.sr.coding import CodedConcept
    for idx, (d, o) in enumerate(objs):
        case = {'what': 'from_code', 'obj': d}
        st, c = _try(CodedConcept.from_code, o)
        ctx.case(path='from_code/' + d['cls'])
        if st != 'ok' or not isinstance(c, CodedConcept):
            ctx.fail(case, f'from_code failed: {c}', site='from_code')
            continue
        if isinstance(o, CodedConcept) and c is not o:
            ctx.fail(case, 'from_code(CodedConcept) returned another object', site='from_code')
        st2, good = _try(lambda: (c == o) and (o == c) and hash(c) == hash(o) and len({c, o}) == 1)
        if st2 != 'ok' or not good:
            ctx.fail(case, f'from_code(x) is not equal to x / hashes differently ({good})', site='from_code')
        st3, fields = _try(lambda: (c.value, c.scheme_designator, c.meaning, c.scheme_version))
        if st3 != 'ok' or fields != (d['value'], d['scheme'], d['meaning'], d['version']):
            ctx.fail(case, f'from_code changed a field: {fields}', site='from_code')
        reqs.append(('fromCode', {'o': _enc(o)}))
        pending.append((case, ('ok', {'concept': sorted(_ds_pairs(c))})))


# ------------------------------------------------------------------ 4. mutation after construction
MUT_KWS = ['CodeMeaning', 'CodingSchemeDesignator', 'CodingSchemeVersion', 'CodeValue', 'LongCodeValue', 'URNCodeValue']


def _mutations(ctx, objs, alias, reqs, pending):
    """attribute assignments / deletions on a copy of a concept, then == in both directions with another object"""
    from copy import deepcopy
    concepts = [(d, o) for d, o in objs if d['cls'] == 'concept']
    values = sorted({d['value'] for d, _ in objs})
    schemes = sorted({d['scheme'] for d, _ in objs})
    for idx in range(ctx.n(300, 3000)):
        r = ctx.rng('mut', idx)
        d0, c0 = concepts[idx % len(concepts)]
        dother, other = r.choice(objs)
        ops = []
        for _ in range(r.choice([1, 1, 2, 3])):
            kw = r.choice(MUT_KWS)
            if r.random() < 0.25:
                ops.append([kw])
            else:
                v = {'CodeMeaning': r.choice(['Brain', 'changed']), 'CodingSchemeDesignator': r.choice(schemes),
                     'CodingSchemeVersion': r.choice(['20200101', '2.0'])}.get(kw) or r.choice(values)
                ops.append([kw, v])
        c = deepcopy(c0)
        before = _ds_pairs(c)
        applied = True
        for op in ops:
            try:
                if len(op) == 1:
                    if op[0] in c:
                        delattr(c, op[0])
                else:
                    setattr(c, op[0], op[1])
            except Exception:  # noqa: BLE001
                applied = False
        if not applied:
            continue
        keeps = all(len(op) == 2 or op[0] not in ('CodeMeaning', 'CodingSchemeDesignator') for op in ops)
        st1, ab = _try(lambda: c == other)
        st2, ba = _try(lambda: other == c)
        st3, aa = _try(lambda: c == c)
        case = {'what': 'mutated', 'concept': d0, 'ops': ops, 'other': dother}
        present = [k for k in CODE_KWS if k in c]
        ctx.case(sample=case if idx % 101 == 0 else None, nontrivial_key=('mut', tuple(op[0] + ('=' if len(op) == 2 else '-') for op in ops), len(present), keeps),
                 mutation_keeps_readable=keeps, mutation_value_attrs=len(present))
        if keeps:
            # the setters cannot break the equivalence: == answers in both directions, symmetric, reflexive
            if st1 != 'ok' or st2 != 'ok' or bool(ab) != bool(ba):
                ctx.fail(case, f'after attribute assignments: a == b -> {st1}:{ab}, b == a -> {st2}:{ba}', site='mutated-symm')
            if st3 != 'ok' or not aa:
                ctx.fail(case, f'after attribute assignments a == a -> {st3}:{aa}', site='mutated-refl')
            if len(present) == 1 and st1 == 'ok':
                dm = {'scheme': str(c.CodingSchemeDesignator), 'value': str(c[present[0]].value),
                      'version': str(c.CodingSchemeVersion) if 'CodingSchemeVersion' in c else None}
                # alias knowledge for the (possibly new) scheme/value pair comes from the same table the alphabet used
                want = _okey(alias, dm) == _okey(alias, dother)
                if bool(ab) != want:
                    ctx.fail(case, f'mutated concept {dm} == other is {ab}, keys say {want}', site='mutated-key')
        reqs.append(('mutatedEq', {'ds': before, 'ops': ops, 'other': _enc(other)}))
        pending.append((case, ('ok', {'ds': sorted(_ds_pairs(c)), 'ab': [st1, bool(ab) if st1 == 'ok' else _kind(ab)],
                                      'ba': [st2, bool(ba) if st2 == 'ok' else _kind(ba)]})))


# ------------------------------------------------------------------ 5. dict / set histories
def _triple(d):
    return (d['scheme'], d['value'], d['version'])


def _dict_histories(ctx, objs, alias, reqs, pending, only_idx=None):
    """histories of insertions / look-ups / deletions on ONE dict or set whose keys are codes of both classes
    (same scheme+value under different meanings, versions and classes; sometimes both sides of a retired alias)"""
    by_sv = {}
    for d, o in objs:
        by_sv.setdefault((d['scheme'], d['value']), []).append((d, o))
    svs = sorted(by_sv)
    alias_svs = set(alias) | set(alias.values())
    for idx in range(ctx.n(120, 1500) if only_idx is None else only_idx + 1):
        if only_idx is not None and idx != only_idx:
            continue
        r = ctx.rng('dict', idx)
        kind = r.choice(['dict', 'dict', 'set'])
        with_alias = r.random() < 0.25
        pool_sv = r.sample(svs, r.choice([1, 2, 3]))
        if with_alias:
            a0 = sorted(alias)[0]
            pool_sv = list(dict.fromkeys(pool_sv + [a0, alias[a0]]))
        has_alias_pair = any(a in pool_sv and b in pool_sv for a, b in alias.items())
        keys = [x for sv in pool_sv for x in by_sv[sv]]
        real = {} if kind == 'dict' else set()
        ref = {}            # oracle: raw (scheme, value, version) -> [descr of the key object stored first, value]
        ops, outs = [], []
        n_ops = r.choice([4, 8, 8, 14, 20])
        snapshot_fail = None
        for step in range(n_ops):
            dk, k = r.choice(keys)
            what = r.choice(['set', 'set', 'set', 'get', 'get', 'del'])
            t = _triple(dk)
            if what == 'set':
                v = step + 1 if kind == 'dict' else 0
                st, _ = _try(real.__setitem__, k, v) if kind == 'dict' else _try(real.add, k)
                out = ('ok', v) if st == 'ok' else ('err', _)
                want = v
                if t in ref:
                    ref[t][1] = v
                else:
                    ref[t] = [dk, v]
                ops.append({'op': 'set', 'k': _enc(k), 'v': v})
            elif what == 'get':
                if kind == 'dict':
                    st, got = _try(real.get, k)
                else:
                    st, got = _try(lambda: 0 if k in real else None)
                out = ('ok', got) if st == 'ok' else ('err', got)
                want = ref[t][1] if t in ref else None
                ops.append({'op': 'get', 'k': _enc(k)})
            else:
                def _del():
                    if kind == 'dict':
                        old = real[k]
                        del real[k]
                        return old
                    real.remove(k)
                    return 0
                try:
                    out = ('ok', _del())
                except KeyError:
                    out = ('ok', None)
                except Exception as e:  # noqa: BLE001
                    out = ('err', type(e).__name__)
                want = ref.pop(t)[1] if t in ref else None
                ops.append({'op': 'del', 'k': _enc(k)})
            outs.append(list(out))
            # oracle: the dict behaves like one keyed by (scheme, value, version) - class and meaning never matter
            if not has_alias_pair and snapshot_fail is None and (out[0] != 'ok' or out[1] != want):
                snapshot_fail = (step, what, dk, out, want)
        entries = [[_enc(k), (real[k] if kind == 'dict' else 0)] for k in real]
        case = {'what': 'dict-history', 'kind': kind, 'ops': ops, 'idx': idx}
        ctx.case(sample=case if idx % 97 == 0 else None,
                 nontrivial_key=('dict', kind, len(pool_sv), has_alias_pair, n_ops, len(real)),
                 dict_kind=kind, dict_ops=n_ops, dict_alias_pair=has_alias_pair, dict_final_size=min(len(real), 6))
        if snapshot_fail is not None:
            step, what, dk, out, want = snapshot_fail
            ctx.fail(case, f'step {step} ({what} with key {dk}): got {out}, a container keyed by (scheme, value, version) gives {want}',
                     site='dict-history')
        elif not has_alias_pair:
            got_final = sorted((json.dumps(_enc_descr(ref[t][0]), sort_keys=True), ref[t][1]) for t in ref)
            real_final = sorted((json.dumps(e[0], sort_keys=True), e[1]) for e in entries)
            if len(real) != len(ref):
                ctx.fail(case, f'{len(real)} entries at the end, {len(ref)} distinct (scheme, value, version) keys were inserted and not deleted',
                         site='dict-history')
            elif got_final != real_final:
                ctx.fail(case, 'the key objects kept by the container are not the ones inserted first', site='dict-history')
        reqs.append(('dictHistory', {'ops': ops}))
        pending.append((case, ('ok', {'steps': outs, 'entries': entries, 'ordered': kind == 'dict'})))


def _enc_descr(d):
    """what `_enc` gives for the object described by d (without building it through the library)"""
    if d['cls'] == 'code':
        return {'code': [d['value'], d['scheme'], d['meaning'], d['version']]}
    from highdicom.sr.coding import CodedConcept
    return _enc(CodedConcept(d['value'], d['scheme'], d['meaning'], d['version']))


# ------------------------------------------------------------------ 6. histories on several objects
STORE_VALUES = ['12738006', '1273800612738006X', 'urn:oid:1.2.840.10008.2.16.4', 'T-A0100']
STORE_SCHEMES = ['SCT', '99HDV', 'SRT']
STORE_MEANINGS = ['Brain', 'Entire brain (body structure)', 'third meaning', 'm' * 64]
STORE_VERSIONS = [None, None, '2020', '2.0', '']


def _cell(o):
    from highdicom.sr.coding import CodedConcept
    return {'cls': 'concept' if isinstance(o, CodedConcept) else 'dataset', 'ds': sorted(_ds_pairs(o))}


def _store_histories(ctx, reqs, pending, only_idx=None):
    """several concepts made one after the other (constructor, from_code of codes that differ only in meaning /
    version, from_code of a concept, from_dataset copy/alias, deepcopy, pickle), written to through their references;
    after EVERY step every other object must be what it was"""
    import copy as _copy
    import pickle
    from pydicom.dataset import Dataset
    from pydicom.sr.coding import Code
    from highdicom.sr.coding import CodedConcept
    for idx in range(ctx.n(150, 2000) if only_idx is None else only_idx + 1):
        if only_idx is not None and idx != only_idx:
            continue
        r = ctx.rng('store', idx)
        objs = []
        for _ in range(r.choice([0, 1, 2])):
            ds = Dataset()
            pat = r.choice([(1, 0, 0), (0, 1, 0), (0, 0, 1), (1, 1, 0), (0, 0, 0), (1, 0, 0)])
            for bit, kw, val in zip(pat, CODE_KWS, STORE_VALUES):
                if bit:
                    setattr(ds, kw, val)
            if r.random() < 0.85:
                ds.CodeMeaning = r.choice(STORE_MEANINGS)
            if r.random() < 0.85:
                ds.CodingSchemeDesignator = r.choice(STORE_SCHEMES)
            if r.random() < 0.3:
                ds.CodingSchemeVersion = '2020'
            objs.append(ds)
        heap0 = [_cell(o) for o in objs]
        # a small argument pool so that the same (value, scheme) comes back under other meanings / versions
        v0, s0 = r.choice(STORE_VALUES), r.choice(STORE_SCHEMES)
        ops, outs = [], []
        fail = None
        for step in range(r.choice([3, 6, 6, 10, 16])):
            kinds = ['new', 'fromCode', 'fromCode', 'fromCode']
            if objs:
                kinds += ['fromConcept', 'fromDataset', 'fromDataset', 'deepcopy', 'pickle', 'set', 'set', 'del']
            what = r.choice(kinds)
            before = [_cell(o) for o in objs]
            target = None
            fresh = False
            args = None
            try:
                if what in ('new', 'fromCode'):
                    v = v0 if r.random() < 0.7 else r.choice(STORE_VALUES)
                    sc = s0 if r.random() < 0.7 else r.choice(STORE_SCHEMES)
                    m = r.choice(STORE_MEANINGS + (['m' * 65, 'a\\b'] if r.random() < 0.15 else []))
                    ver = r.choice(STORE_VERSIONS)
                    args = (v, sc, m, ver)
                    ops.append({'op': what, 'value': v, 'scheme': sc, 'meaning': m, 'version': ver})
                    fresh = True
                    res = CodedConcept(v, sc, m, ver) if what == 'new' else CodedConcept.from_code(Code(v, sc, m, ver))
                elif what == 'fromConcept':
                    j = r.randrange(len(objs))
                    ops.append({'op': 'fromConcept', 'r': j})
                    res = CodedConcept.from_code(objs[j])
                elif what == 'fromDataset':
                    j = r.randrange(len(objs))
                    cp = r.random() < 0.5
                    ops.append({'op': 'fromDataset', 'r': j, 'copy': cp})
                    fresh = cp
                    target = None if cp else j
                    res = CodedConcept.from_dataset(objs[j], copy=cp)
                elif what in ('deepcopy', 'pickle'):
                    j = r.randrange(len(objs))
                    ops.append({'op': 'deepcopy', 'r': j, 'via': what})
                    fresh = True
                    res = _copy.deepcopy(objs[j]) if what == 'deepcopy' else pickle.loads(pickle.dumps(objs[j]))
                elif what == 'set':
                    j = r.randrange(len(objs))
                    kw = r.choice(MUT_KWS)
                    val = {'CodeMeaning': r.choice(['changed', 'Brain']), 'CodingSchemeDesignator': r.choice(STORE_SCHEMES),
                           'CodingSchemeVersion': r.choice(['2020', '3.1'])}.get(kw) or r.choice(STORE_VALUES)
                    ops.append({'op': 'set', 'r': j, 'k': kw, 'v': val})
                    target = j
                    setattr(objs[j], kw, val)
                    res = None
                else:
                    j = r.randrange(len(objs))
                    kw = r.choice(MUT_KWS)
                    ops.append({'op': 'del', 'r': j, 'k': kw})
                    target = j
                    delattr(objs[j], kw)
                    res = None
                if res is None:
                    outs.append(['ok', None])
                else:
                    where = [i for i, o in enumerate(objs) if o is res]
                    if where:
                        outs.append(['ok', where[0]])
                    else:
                        objs.append(res)
                        outs.append(['ok', len(objs) - 1])
            except Exception as e:  # noqa: BLE001
                outs.append(['err', _kind(type(e).__name__)])
                res = None
                fresh = False
                target = None if what not in ('set', 'del') else target
                if what in ('set', 'del'):
                    target = None           # a refused statement must not change anything either
            # ---- oracle, after every step
            if fail is None:
                for i, b in enumerate(before):
                    if i != target and _cell(objs[i]) != b:
                        fail = (step, f'step {step} ({ops[-1]}) changed object {i}, which it does not write through: {b} -> {_cell(objs[i])}')
                        break
            if fail is None and outs[-1][0] == 'ok' and res is not None:
                if fresh and outs[-1][1] < len(before):
                    fail = (step, f'step {step} ({ops[-1]}) must make a new object but returned the existing object {outs[-1][1]}')
                elif what in ('new', 'fromCode'):
                    stp, got = _try(lambda: (res.value, res.scheme_designator, res.meaning, res.scheme_version))
                    if stp != 'ok' or got != args or not isinstance(res, CodedConcept):
                        fail = (step, f'step {step} ({ops[-1]}) gave a concept that reads {got!r}')
                elif what == 'fromConcept' and isinstance(objs[ops[-1]['r']], CodedConcept) and outs[-1][1] != ops[-1]['r']:
                    fail = (step, f'from_code of a CodedConcept returned another object')
                elif what in ('deepcopy', 'pickle', 'fromDataset'):
                    src = before[ops[-1]['r']]
                    if sorted(_ds_pairs(res)) != src['ds'] or (what == 'fromDataset' and not isinstance(res, CodedConcept)) or \
                            (what != 'fromDataset' and _cell(res)['cls'] != src['cls']):
                        fail = (step, f'step {step} ({ops[-1]}): the result does not carry the content / class it should')
                    if what == 'fromDataset' and not ops[-1]['copy'] and outs[-1][1] != ops[-1]['r']:
                        fail = (step, 'from_dataset(copy=False) returned another object')
            if fail is None and what == 'set' and outs[-1][0] == 'ok':
                if str(getattr(objs[ops[-1]['r']], ops[-1]['k'], None)) != ops[-1]['v']:
                    fail = (step, f'step {step}: the assigned attribute does not read back')
        case = {'what': 'store-history', 'heap': heap0, 'ops': ops, 'idx': idx}
        n_from_code = sum(1 for o in ops if o['op'] == 'fromCode')
        ctx.case(sample=case if idx % 149 == 0 else None,
                 nontrivial_key=('store', len(heap0), tuple(o['op'] for o in ops)[:8]),
                 store_ops=len(ops), store_from_code=min(n_from_code, 5), store_refused=sum(1 for o in outs if o[0] == 'err'),
                 store_objects=min(len(objs), 8))
        for o in ops:
            ctx.hist('store_op', o.get('via', o['op']))
        if fail is not None:
            ctx.fail(case, fail[1], site='store-history')
        reqs.append(('storeHistory', {'heap': heap0, 'ops': [{k: v for k, v in o.items() if k != 'via'} for o in ops]}))
        pending.append((case, ('ok', {'steps': outs, 'heap': [_cell(o) for o in objs]})))


# ------------------------------------------------------------------ 7. the four strings through a written file
PADDED = ['abc ', 'abc  ', ' abc', ' abc ', 'a b ', 'abc\x00', 'abc \x00', '1234567890123456 ', '123456789012345 ', 'urn:oid:1.2.3 ',
          'http://x.org/a ', 'abc', 'x',
          # white space other than the blank: stripped from the UR value of URNCodeValue only (rstrip()), kept elsewhere
          'abc\t', 'abc\n', '12345678901234567\t', 'urn:oid:1.2\t', 'urn:oid:1.2\n', 'urn:oid:1.2\r\n', 'urn:oid:1.2\x0b', 'urn:oid:1.2\x1f',
          'urn:oid:1.2\xa0', 'urn:oid:1.2\x85', 'urn:oid:1.2\x00', 'urn:oid:1.2\x00 ', 'urn:oid:1.2 \t ', 'http://x.org/a\t',
          # outside ASCII: ISO 8859-1 survives the default repertoire, anything above code point 255 is written as '?'
          'ab\u00e4', 'ab\u03a9', '\u03a9mega', 'urn:x:\u00e4', 'urn:x:\u4e2d']


def _read_back_expected(kw, x):
    """what a reader gets for the string x written into attribute kw without a SpecificCharacterSet"""
    if x is None:
        return None
    t = x.encode('iso8859-1', 'replace').decode('iso8859-1')
    return t.rstrip() if kw == 'URNCodeValue' else t.rstrip(' \x00')


def _file_strings(ctx, reqs, pending):
    import pydicom
    from pydicom.dataset import Dataset
    from highdicom.sr.coding import CodedConcept
    r = ctx.rng('file-strings')
    combos = [(v, '99HDV', 'm', None) for v in PADDED]
    combos += [('abc', s, 'm', None) for s in ('99HDV ', ' 99HDV', '99HDV\x00')]
    combos += [('abc', '99HDV', m, None) for m in ('two words ', ' lead', 'm\x00', 'm  ', 'm\t', '\u03a9mega', 'caf\u00e9', '\u4e2d\u6587')]
    combos += [('abc', s9, 'm', None) for s9 in ('99HDV\t', '99\u03a9')]
    combos += [('abc', '99HDV', 'm', ver) for ver in ('1.0 ', ' 1.0', '2\x00', '1.0')]
    for _ in range(ctx.n(10, 200)):
        combos.append((r.choice(PADDED), r.choice(['99HDV', '99HDV ', 'SCT']), r.choice(['m', 'm ', ' m']), r.choice([None, '1 ', '1'])))
    for idx, (v, sc, m, ver) in enumerate(combos):
        st, c = _try(CodedConcept, v, sc, m, ver)
        if st != 'ok':
            continue
        for implicit in (False, True):
            case = {'what': 'file-strings', 'args': [v, sc, m, ver], 'implicit': implicit}
            outer = Dataset()
            outer.ConceptNameCodeSequence = [c]
            buf = io.BytesIO()
            st2, err = _try(pydicom.dcmwrite, buf, outer, implicit_vr=implicit, little_endian=True)
            if st2 != 'ok':
                ctx.note(f'pydicom could not write {[v, sc, m, ver]!r}: {err}')
                continue
            buf.seek(0)
            back = pydicom.dcmread(buf, force=True).ConceptNameCodeSequence[0]
            st3, c2 = _try(CodedConcept.from_dataset, back)
            kw_v = [k for k in CODE_KWS if k in c][0]
            want = (_read_back_expected(kw_v, v), _read_back_expected('CodingSchemeDesignator', sc), _read_back_expected('CodeMeaning', m),
                    _read_back_expected('CodingSchemeVersion', ver))
            padded = want != (v, sc, m, ver)
            ctx.case(sample=case if idx % 13 == 0 and not implicit else None, nontrivial_key=('file-strings', idx, implicit),
                     path='file-strings', file_padded=padded, file_non_ascii=any(ord(ch) > 127 for x in (v, sc, m, ver) if x for ch in x))
            if st3 != 'ok':
                ctx.fail(case, f'from_dataset refused the code read from the file: {c2}', site='file-strings')
                continue
            # oracle: characters outside ISO 8859-1 become '?', the reader drops trailing padding (blank, NUL; all white space for the
            # UR value) and nothing else; the attribute stays the same
            stp, got = _try(lambda: (c2.value, c2.scheme_designator, c2.meaning, c2.scheme_version))
            same_attr = [k for k in CODE_KWS if k in c2] == [k for k in CODE_KWS if k in c]
            if stp != 'ok' or got != want or not same_attr:
                ctx.fail(case, f'read back {got!r}, written {[v, sc, m, ver]!r}', site='file-strings')
            elif not padded and not ((c2 == c) and (c == c2) and hash(c2) == hash(c)):
                ctx.fail(case, 'a code without trailing padding is not equal to itself after the file', site='file-strings')
            reqs.append(('fileRT', {'ds': _ds_pairs(c)}))
            pending.append((case, ('ok', sorted(_ds_pairs(c2)))))


# ------------------------------------------------------------------ 7b. copy.copy and keys mutated after insertion
def _shallow_copies(ctx, reqs, pending, only_idx=None):
    """copy.copy (pydicom's shallow copy: a new object on the SAME element table), deepcopy, assignments and deletions through any of
    the objects; what every object reads at the end is compared with the model.  Oracle: a deep copy and its source never influence
    each other; a shallow copy is a distinct CodedConcept equal to its source (that it shares the content is the model's statement,
    theorem shallow_copy_shares_content, not a demand of the property)."""
    import copy as _copy
    from highdicom.sr.coding import CodedConcept
    for idx in range(ctx.n(60, 600) if only_idx is None else only_idx + 1):
        if only_idx is not None and idx != only_idx:
            continue
        r = ctx.rng('shallow', idx)
        c0 = CodedConcept(r.choice(STORE_VALUES), r.choice(STORE_SCHEMES), r.choice(STORE_MEANINGS[:3]), r.choice(STORE_VERSIONS))
        ds0 = _ds_pairs(c0)
        objs = [c0]
        table = [0]              # oracle bookkeeping: which objects were made by deepcopy of which (fresh table) - by construction
        ops = []
        fail = None
        for step in range(r.choice([2, 4, 6, 9])):
            what = r.choice(['shallow', 'deep', 'set', 'set', 'del'])
            o = r.randrange(len(objs))
            before = [sorted(_ds_pairs(x)) for x in objs]
            if what in ('shallow', 'deep'):
                new = _copy.copy(objs[o]) if what == 'shallow' else _copy.deepcopy(objs[o])
                readable = 'CodeMeaning' in objs[o] and 'CodingSchemeDesignator' in objs[o]
                st_eq, eq = _try(lambda: new == objs[o]) if readable else ('ok', True)
                if new is objs[o] or not isinstance(new, CodedConcept) or sorted(_ds_pairs(new)) != before[o] or st_eq != 'ok' or not eq:
                    fail = fail or f'step {step}: {what} copy is not a distinct, equal CodedConcept'
                objs.append(new)
                table.append(table[o] if what == 'shallow' else len(objs) - 1)
                ops.append({'op': what, 'o': o})
            elif what == 'set':
                kw = r.choice(MUT_KWS)
                val = {'CodeMeaning': 'changed', 'CodingSchemeDesignator': '99HDV', 'CodingSchemeVersion': '3.1'}.get(kw) or r.choice(STORE_VALUES)
                setattr(objs[o], kw, val)
                ops.append({'op': 'set', 'o': o, 'k': kw, 'v': val})
            else:
                kw = r.choice(MUT_KWS)
                if kw not in objs[o]:
                    continue
                delattr(objs[o], kw)
                ops.append({'op': 'del', 'o': o, 'k': kw})
            if what in ('set', 'del'):
                for i, b in enumerate(before):
                    if table[i] != table[o] and sorted(_ds_pairs(objs[i])) != b:
                        fail = fail or f'step {step}: writing through object {o} changed object {i}, a deep copy / the source of a deep copy'
        case = {'what': 'shallow-copy', 'idx': idx, 'ds': ds0, 'ops': ops}
        ctx.case(sample=case if idx % 31 == 0 else None, nontrivial_key=('shallow', tuple(o['op'] for o in ops)[:6]),
                 shallow_ops=len(ops), shallow_copies=sum(1 for o in ops if o['op'] == 'shallow'))
        if fail:
            ctx.fail(case, fail, site='shallow-copy')
        reqs.append(('shallowHistory', {'ds': ds0, 'ops': ops}))
        pending.append((case, ('ok', [sorted(_ds_pairs(x)) for x in objs])))


def _dict_mutated_key(ctx, objs, reqs, pending):
    """d = {c: 1}, then a write to c: the entry keeps the old hash.  No oracle verdict (the property does not speak of keys that are
    written to); the real dict is compared with the model (theorem counterexample_mutated_key_is_lost)."""
    from copy import deepcopy
    concepts = [(d, o) for d, o in objs if d['cls'] == 'concept' and d.get('variant', 0) % 2 == 0]
    for idx in range(ctx.n(40, 400)):
        r = ctx.rng('dict-mut', idx)
        d0, c0 = r.choice(concepts)
        c = deepcopy(c0)
        old = deepcopy(c0)
        dct = {c: 1}
        before = _enc(c)
        kw = r.choice(['CodeMeaning', 'CodingSchemeDesignator', 'CodingSchemeVersion', [k for k in CODE_KWS if k in c][0]])
        setattr(c, kw, r.choice(['changed', 'SCT', '99HDV', '2.0', 'A', 'BB']))
        # CPython compares identity BEFORE the stored hash: whether the very key object is still found depends on whether the probe
        # sequence of its new hash happens to reach the old slot - recorded, not compared; the model speaks of DISTINCT objects
        st_self, v_self = _try(dct.get, c)
        ctx.hist('dict_mutated_self_found', str(v_self) if st_self == 'ok' else 'raised')
        probes = [deepcopy(c), old, r.choice(objs)[1]]
        got = []
        for p in probes:
            st, v = _try(dct.get, p)
            got.append(['ok', v] if st == 'ok' else ['err', _kind(v)])
        case = {'what': 'dict-mutated-key', 'idx': idx, 'concept': d0, 'written': kw}
        ctx.case(nontrivial_key=('dict-mut', kw, tuple(g[1] for g in got)), dict_mutated_attr=kw,
                 dict_mutated_found=f'equal-to-new={got[0][1]} equal-to-old={got[1][1]}')
        reqs.append(('dictMutatedKey', {'before': before, 'after': _enc(c), 'probes': [_enc(p) for p in probes]}))
        pending.append((case, ('ok', got)))


# ------------------------------------------------------------------ 8. operands that are no codes
def _foreign(ctx, objs):
    """concept vs tuple / list / str / None / int / object(): `__eq__` leaves the code comparison (branch 1 of the regenerated
    plan): never raises, never equal, `!=` is the negation, in both argument orders; the concept's hash is untouched"""
    from pydicom.dataset import Dataset
    concepts = [(d, o) for d, o in objs if d['cls'] == 'concept'][:12]
    for d, c in concepts:
        h0 = hash(c)
        others = [('tuple', (d['value'], d['scheme'], d['meaning'], d['version'])), ('list', [d['value'], d['scheme'], d['meaning']]),
                  ('str', d['value']), ('none', None), ('int', 0), ('object', object())]
        for name, x in others:
            st, res = _try(lambda: (c == x, c != x, x == c, x != c))
            ctx.case(path='foreign/' + name, nontrivial_key=('foreign', name))
            if st != 'ok' or tuple(bool(v) for v in res) != (False, True, False, True) or hash(c) != h0:
                ctx.fail({'what': 'foreign', 'obj': d, 'other': name}, f'concept vs {name}: (==, !=, reflected ==, reflected !=) = {res!r}',
                         site='foreign')
        # a plain dataset with the same elements: Dataset.__eq__ compares ALL elements (meaning included) - recorded, not judged
        ds = Dataset()
        for el in c:
            ds.add(el)
        st, res = _try(lambda: (c == ds, ds == c))
        ctx.hist('plain_dataset_same_elements', str(res) if st == 'ok' else 'raised')


# ------------------------------------------------------------------ run
def _compare(ctx, pending, answers):
    seen = {}
    real_disagree = ctx.disagree

    def capped(layer, case, impl, model, what=''):
        # keep the evidence readable: at most 4 disagreements per kind, the rest is counted
        seen[what] = seen.get(what, 0) + 1
        if seen[what] <= 4:
            real_disagree(layer, case, impl, model, what)
    ctx_disagree = capped
    try:
        _compare_inner(ctx, pending, answers, ctx_disagree)
    finally:
        for k, v in seen.items():
            if v > 4:
                ctx.note(f'{v} disagreements of kind {k!r} (4 recorded)')


def _canon_entries(ents):
    out = []
    for k, v in ents:
        if 'concept' in k:
            k = {'concept': sorted(map(list, k['concept']))}
        out.append([k, v])
    return out


def _compare_inner(ctx, pending, answers, disagree):
    for (case, impl), ans in zip(pending, answers):
        if 'proto_err' in ans:
            disagree('L0', case, impl, ans, 'model protocol error')
            continue
        what = case.get('what')
        if impl[0] == 'hash':
            # the model says which string is hashed; Python's hash of that string must be the object's hash
            if 'ok' not in ans or impl[1] is None or hash(ans['ok']) != impl[1]:
                disagree('L0', case, impl, ans, 'hash input')
            continue
        model = ('ok', ans['ok']) if 'ok' in ans else ('err', ans['err'])
        if impl[0] != model[0]:
            disagree('L0', case, impl, model, 'ok-vs-error')
            continue
        if impl[0] == 'err':
            continue
        if what == 'mutated':
            m = model[1]

            def flat(x):
                return ['ok', x['ok']] if 'ok' in x else ['err', x['err']]
            got = {'ds': sorted(map(list, m['ds'])), 'ab': flat(m['ab']), 'ba': flat(m['ba'])}
            want = dict(impl[1])
            # error kinds: ok-vs-error only
            for k in ('ab', 'ba'):
                if got[k][0] == 'err' and want[k][0] == 'err':
                    got[k] = want[k]
            if got != want:
                disagree('L0', case, impl, got, 'mutated concept')
        elif what == 'dict-history':
            m = model[1]
            steps = [['ok', x['ok']] if 'ok' in x else ['err', x['err']] for x in m['steps']]
            want_steps = [[a, (b if a == 'ok' else None)] for a, b in impl[1]['steps']]
            got_steps = [[a, (b if a == 'ok' else None)] for a, b in steps]
            ents = [[e[0], e[1]] for e in m['entries']]
            real = impl[1]['entries']
            if not impl[1]['ordered']:
                ents = sorted(ents, key=lambda e: json.dumps(e, sort_keys=True))
                real = sorted(real, key=lambda e: json.dumps(e, sort_keys=True))
            if got_steps != want_steps or _canon_entries(ents) != _canon_entries(real):
                disagree('L0', case, impl, {'steps': got_steps, 'entries': ents}, 'dict history')
        elif what == 'store-history':
            m = model[1]
            steps = [['ok', x['ok']] if 'ok' in x else ['err', None] for x in m['steps']]
            want_steps = [[a, (b if a == 'ok' else None)] for a, b in impl[1]['steps']]
            heap = [{'cls': c['cls'], 'ds': sorted(map(list, c['ds']))} for c in m['heap']]
            if steps != want_steps or heap != impl[1]['heap']:
                disagree('L0', case, impl, {'steps': steps, 'heap': heap}, 'store history')
        elif what == 'shallow-copy':
            got = [sorted(map(list, x)) if x is not None else None for x in model[1]]
            if got != impl[1]:
                disagree('L0', case, impl, got, 'shallow copy history')
        elif what == 'dict-mutated-key':
            got = [['ok', x['ok']] if 'ok' in x else ['err', x['err']] for x in model[1]]
            if [g[:1] + ([g[1]] if g[0] == 'ok' else []) for g in got] != [g[:1] + ([g[1]] if g[0] == 'ok' else []) for g in impl[1]]:
                disagree('L0', case, impl, got, 'dict with a mutated key')
        elif what == 'file-strings':
            if sorted(map(list, model[1])) != impl[1]:
                disagree('L0', case, impl, model, 'strings through a file')
        elif what == 'ctor':
            if sorted(map(list, model[1])) != impl[1]:
                disagree('L0', case, impl, model, 'constructed dataset')
        elif what == 'from_dataset':
            m = model[1]
            got = {'same': m['same'], 'orig_cls': m['orig']['cls'], 'res_ds': sorted(map(list, m['res']['ds'])),
                   'orig_after': sorted(map(list, m['orig_after_write']['ds']))}
            if got != impl[1] or m['res']['cls'] != 'concept':
                disagree('L0', case, impl, got, 'from_dataset store')
        elif what == 'from_code':
            if 'concept' not in model[1] or sorted(map(list, model[1]['concept'])) != impl[1]['concept']:
                disagree('L0', case, impl, model, 'from_code')
        elif impl[1] != model[1]:
            disagree('L0', case, impl, model, 'value')


def run(ctx):
    import hd_env  # noqa: F401
    reqs, pending = [], []
    objs, alias, retired = _relations(ctx, reqs, pending)
    for variant in range(1, ctx.n(2, 8)):
        _relations(ctx, reqs, pending, variant)
    _constructor(ctx, reqs, pending)
    _special_characters(ctx, reqs, pending)
    _from_dataset(ctx, reqs, pending)
    _from_code(ctx, objs, retired, reqs, pending)
    _mutations(ctx, objs, alias, reqs, pending)
    _dict_histories(ctx, objs, alias, reqs, pending)
    _store_histories(ctx, reqs, pending)
    _file_strings(ctx, reqs, pending)
    _foreign(ctx, objs)
    _shallow_copies(ctx, reqs, pending)
    _dict_mutated_key(ctx, objs, reqs, pending)
    answers = ctx.model(reqs)
    if answers is None:
        return
    _compare(ctx, pending, answers)


def replay(ctx, case):
    """Re-run one stored case on the implementation; returns failure detail or None."""
    from pydicom.sr.coding import Code
    from highdicom.sr.coding import CodedConcept
    sub = type(ctx)(ctx.prop, ctx.tier, ctx.seed, 1, ctx.driver)

    def mk(d):
        if d['cls'] == 'code':
            return Code(d['value'], d['scheme'], d['meaning'], d['version'])
        c = CodedConcept(d['value'], d['scheme'], d['meaning'], d['version'])
        return _through_file(c) if d.get('variant', 0) % 2 == 1 else c
    what = case.get('what')
    if what in ('pair', 'symm', 'meaning', 'setLen2', 'ne'):
        a, b = mk(case['a']), mk(case['b'])
        _, alias, _ = _alphabet(sub, case['a'].get('variant', 0))
        from pydicom.sr._snomed_dict import mapping
        for d in (case['a'], case['b']):
            if d['scheme'] == 'SRT' and d['value'] in mapping['SRT']:
                alias[('SRT', d['value'])] = ('SCT', mapping['SRT'][d['value']])
        want = _okey(alias, case['a']) == _okey(alias, case['b'])
        same_sv = (case['a']['scheme'], case['a']['value']) == (case['b']['scheme'], case['b']['value'])
        obs = {'a==b': a == b, 'b==a': b == a, 'a!=b': a != b, 'hash_equal': hash(a) == hash(b), 'len_set': len({a, b}),
               'expected_equal': want}
        bad = (obs['a==b'] != want or obs['b==a'] != want or obs['a!=b'] == obs['a==b'] or
               (same_sv and (not obs['hash_equal'] or (obs['len_set'] == 1) != obs['a==b'])))
        return obs if bad else None
    if what == 'trans':
        a, b, c = mk(case['a']), mk(case['b']), mk(case['c'])
        bad = (a == b) and (b == c) and not (a == c)
        return {'a==b': a == b, 'b==c': b == c, 'a==c': a == c} if bad else None
    if what == 'refl':
        a = mk(case['a'])
        return None if a == a else {'a==a': False}
    if what == 'ctor-special':
        _special_characters(sub, [], [])
        return [f for f in sub.failures if f['case'].get('special') == case.get('special')][:2] or None
    if what in ('ctor', 'ctor-file'):
        st, c = _try(CodedConcept, case['value'], '99HDV', 'm' * case['meaning_len'], case['version'])
        if st != 'ok':
            return {'refused': c} if case['meaning_len'] <= 64 else None
        present = [k for k in CODE_KWS if hasattr(c, k)]
        want = _expected_attr(case['value'], case['form'])
        if case['form'] != 'ambiguous' and present != [want]:
            return {'stored_in': present, 'standard': want}
        return None if c.value == case['value'] else {'value': c.value}
    if what == 'from_dataset':
        _from_dataset(sub, [], [], only=case['fd'])
        return sub.failures[:3] or None
    if what == 'shallow-copy':
        _shallow_copies(sub, [], [], only_idx=case['idx'])
        return sub.failures[:2] or None
    if what == 'foreign':
        objs, _, _ = _alphabet(sub, 0)
        _foreign(sub, objs)
        return sub.failures[:2] or None
    if what == 'dict-history':
        objs, alias, _ = _alphabet(sub, 0)
        _dict_histories(sub, objs, alias, [], [], only_idx=case['idx'])
        return sub.failures[:2] or None
    if what == 'store-history':
        _store_histories(sub, [], [], only_idx=case['idx'])
        return sub.failures[:2] or None
    if what == 'file-strings':
        _file_strings(sub, [], [])
        return [f for f in sub.failures if f['case'].get('args') == case.get('args')][:2] or None
    if what in ('from_code', 'hash'):
        o = mk(case['obj'])
        c = CodedConcept.from_code(o)
        return None if (c == o and o == c and hash(c) == hash(o)) else {'from_code': 'not equal / hash differs'}
    return None
