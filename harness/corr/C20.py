"""C20  Building objects never alters inputs and always yields valid files.

What is PROVED (Lean, Props/C20.lean): the string guards of valuerep.py (decision logic and regular
expressions regenerated from the source, tie T) accept only values valid for their VR; UID.from_uuid /
UID() yield valid UIDs for every 128-bit value / every value pydicom can draw; the copy-or-alias
data flow of every converter, every constructor and the segmentation constructor's per-plane array path,
extracted from the current AST (tie T): an alias analysis, proved sound for ALL programs of the extracted
language against a store semantics (any world of the caller incl. shared / nested arguments), accepts every
one of them - so no run writes a cell of the caller unless in-place conversion was asked, copy=True returns a
newly allocated object and copy=False the very object passed in; what a guard accepts, pydicom's own rule
table (regenerated from the installed pydicom) accepts.

What is only SUPPORTED by this correspondence (never a theorem; pydicom's writer and numpy cannot be
modelled): input snapshots before/after over all public constructors and converters below, strict
write (enforce_file_format, writing_validation_mode = RAISE), dcmread element-for-element equality,
UID validity / uniqueness / file meta.
"""
from __future__ import annotations

import io
import itertools
import re
import string

import numpy as np

PROP = 'C20'
ALIAS_TAGS = ['content', 'seg_content', 'seg_sop', 'ann_content', 'ann_sop', 'ko_content', 'ko_sop', 'sr_coding', 'sr_content',
              'sr_sop', 'sr_value_types', 'sr_templates', 'image']
CTOR_TAGS = ['base', 'content', 'seg_content', 'seg_sop', 'pm_content', 'pm_sop', 'sc_sop', 'sr_coding', 'sr_content', 'sr_sop',
             'sr_value_types', 'sr_templates', 'ko_content', 'ko_sop', 'ann_content', 'ann_sop', 'pr_content', 'pr_sop', 'legacy_sop',
             'volume', 'coding_schemes', 'color', 'image', 'io', 'spatial', 'sr_utils', 'uid']
TARGETS = ['T20vr', 'T20uid', 'T20sites', 'T20ds', 'T20pkg', 'T20calls', 'T20pyd', 'T20shared', 'T20neg'] + ['T20alias_' + t for t in ALIAS_TAGS] + ['T20ctor_' + t for t in CTOR_TAGS]
LEAN_MODULES = ['HdVerif.Props.C20']
MODEL_MODULES = ['HdVerif.Model.VR', 'HdVerif.Model.VRGuards', 'HdVerif.Model.Aliasing', 'HdVerif.Model.AliasConcrete',
                 'HdVerif.Model.AliasTables']
NAMESPACE = 'HdVerif.C20'
DRIVER = 'Drivers/C20.lean'
RULE = ('(a) guards: every string up to length 3 over a 14-letter alphabet (thorough: 4) plus random longer strings around '
        'the length limits, model vs real guard, and the hand-modelled regex semantics vs Python re on the same strings; '
        '(b) UIDs: from_uuid on random/edge 128-bit values, model vs real; (c) objects: one case = one call of a public '
        'constructor or converter on generated valid arguments (dtype / memory layout / copy flag varied) with all arguments '
        'snapshotted before and after; non-trivial = the call succeeded on a non-constant input, distinct by (subject, '
        'variant key); (d) alias programs: each extracted converter program run in the model vs the real converter '
        '(same object / fresh object / original untouched)')
ASSUMPTIONS = [
    'a Python str is a list of Unicode scalar values (lone surrogates not generated); len() counts code points on both sides',
    'str(int) / f"{int}" renders the shortest decimal (Lean Nat.toDigits 10), checked on every generated UUID',
    'pydicom.uid.generate_uid(prefix) returns prefix + decimal of a number below 10**(64-len(prefix)) (its current source; '
    'exercised each run)',
    'alias-flow extraction (docs/C20.md lists every rule): x.f / x[...] / reshape are views that may also denote what was stored '
    'there earlier (labelled links), astype / arithmetic / comparisons / deepcopy / unknown lower-case calls are fresh objects, '
    'Capitalised calls keep references to their arguments, attribute / item assignment, mutating methods and augmented '
    'assignment write, numpy out= arguments are written and returned, external methods called with copy=False / inplace=True return '
    '(and write) their receiver, copy=False converter calls write deeply; loops and comprehension bodies run under an opaque condition; '
    'constructors with more than 2^5 paths have the arms of their branches merged; highdicom-internal callees are inlined '
    '(depth 4; an internal callee that is handed a reference and is not inlined puts the entry on the skipped list); EXTERNAL '
    'callees (pydicom, numpy, builtins, enums; listed per entry in Generated/T20*.lean) are assumed not to write their '
    'arguments; loops are unrolled twice; a try body is assumed to run to completion before a handler; a list and a pydicom '
    'Sequence assigned to an attribute are both treated as aliased (checked by the argument snapshots of every generated call '
    'and, per converter, by comparing the observed same-object / altered-argument behaviour with what the program allows)',
    'attribute VRs at the guard sites are those of the pydicom data dictionary',
    'pydicom rule table: MAX_VALUE_LEN / VALIDATORS / the CS regex are regenerated from the installed pydicom; the few lines that '
    'interpret them (validate_vr_length, validate_regex) are hand-written after the source (shape checked by the translator) and '
    'compared with pydicom.valuerep.validate_value on every string of the guard stream',
    'required attributes: the type 1 / type 2 check of written files uses the reduced attribute table of the shim '
    '(harness/hd_env.py), mandatory modules only, conditional attributes not looked at',
    'generator: big-endian arrays are drawn for every array argument; constructors that test `dtype in (np.uint8, ...)` refuse '
    'them (visible as refused:* in the histograms), float arrays go through',
    'write / read-back clauses: pydicom writer and validator are exercised, not modelled (support only)',
]
MODELLED_NOT_VERIFIED = ['pydicom file writer / reader / value validation', 'copy.deepcopy', 'numpy view/copy semantics',
                         'CPython re engine (hand-modelled fragment, compared exhaustively on short strings)',
                         'uuid.UUID parsing, secrets.randbelow']

UID_RE = re.compile(r'^(0|[1-9][0-9]*)(\.(0|[1-9][0-9]*))*$')


# =====================================================================================================
# snapshots
# =====================================================================================================
_PRIV = None


def _pydicom_private():
    """pydicom's own bookkeeping attributes (parent links, encodings, caches): not part of the value"""
    global _PRIV
    if _PRIV is None:
        from pydicom.dataset import Dataset, FileDataset
        _PRIV = set(vars(Dataset())) | {'_parent_seq', 'parent', '_pixel_array', '_pixel_id', 'parent_seq', '_parent_encoding',
                                        'is_undefined_length_sequence_item', 'seq_item_tell', '_character_set', 'preamble',
                                        'filename', 'fileobj_type', 'timestamp', 'buffer', '_pixel_rep'}
    return _PRIV


def snap(x, depth=0):
    """Deep structural snapshot of an argument: array bytes, recursive element dump incl. the Python class of
    every nested dataset / sequence (an in-place class conversion of an input is a modification)."""
    from pydicom.dataset import Dataset
    from pydicom.dataelem import DataElement
    from pydicom.multival import MultiValue
    import enum
    if depth > 40:
        return ('deep',)
    if x is None or isinstance(x, (bool, int, float, complex, str, bytes)):
        return (type(x).__name__, x if not isinstance(x, bytes) else (len(x), hash(x)))
    if isinstance(x, enum.Enum):
        return ('enum', type(x).__name__, x.name)
    if isinstance(x, np.ndarray):
        return ('nd', x.dtype.str, x.shape, x.flags.writeable, x.tobytes() if x.size < 1 << 16 else hash(x.tobytes()))
    if isinstance(x, np.generic):
        return ('npg', x.dtype.str, x.item())
    if isinstance(x, Dataset):
        items = []
        for e in x.iterall() if False else x:
            items.append(snap(e, depth + 1))
        fm = getattr(x, 'file_meta', None)
        extra = {}
        # private python attributes kept next to the elements (e.g. cached arrays, LUTs) are part of the object state
        for k, v in sorted(vars(x).items()):
            if k in _pydicom_private() or k in ('file_meta',) or k.startswith('__'):
                continue
            if isinstance(v, (np.ndarray, list, tuple, dict, str, int, float, bool, type(None))):
                extra[k] = snap(v, depth + 1)
        return ('ds', type(x).__module__ + '.' + type(x).__qualname__, tuple(items),
                snap(fm, depth + 1) if fm is not None else None, tuple(sorted(extra.items(), key=repr)))
    if isinstance(x, DataElement):
        v = x.value
        if x.VR == 'SQ':
            return ('el', int(x.tag), x.VR, type(v).__module__ + '.' + type(v).__qualname__,
                    tuple(snap(i, depth + 1) for i in v))
        if isinstance(v, MultiValue):
            return ('el', int(x.tag), x.VR, tuple(snap(i, depth + 1) for i in v))
        return ('el', int(x.tag), x.VR, snap(v, depth + 1))
    if isinstance(x, dict):
        return ('dict', tuple((repr(k), snap(v, depth + 1)) for k, v in x.items()))
    if isinstance(x, (list, tuple)) or type(x).__name__ in ('Sequence', 'MultiValue') or hasattr(x, '__iter__') and hasattr(x, '__len__') and hasattr(x, '__getitem__') and not hasattr(x, 'array'):
        return ('seq', type(x).__module__ + '.' + type(x).__qualname__, tuple(snap(i, depth + 1) for i in x))
    if hasattr(x, 'array') and hasattr(x, 'affine'):      # hd.Volume / geometry
        return ('vol', type(x).__name__, snap(np.asarray(x.array), depth + 1), snap(np.asarray(x.affine), depth + 1),
                repr(getattr(x, 'frame_of_reference_uid', None)))
    if hasattr(x, 'affine'):
        return ('geom', type(x).__name__, snap(np.asarray(x.affine), depth + 1), repr(getattr(x, 'spatial_shape', None)))
    if hasattr(x, '__dict__'):
        return ('obj', type(x).__qualname__, tuple((k, snap(v, depth + 1)) for k, v in sorted(vars(x).items())
                                                   if not callable(v)))
    return ('repr', type(x).__qualname__, repr(x))


def snap_diff(a, b, path='arg'):
    """first place where two snapshots differ (human readable)"""
    if a == b:
        return None
    if not (isinstance(a, tuple) and isinstance(b, tuple)) or len(a) != len(b):
        return f'{path}: {str(a)[:160]} -> {str(b)[:160]}'
    if a and isinstance(a[0], str) and a[0] == 'el' and b[0] == 'el':
        path = f'{path}/({a[1] >> 16:04x},{a[1] & 0xffff:04x})'
    for i, (x, y) in enumerate(zip(a, b)):
        if x != y:
            return snap_diff(x, y, f'{path}.{i}')
    return f'{path}: differs'


def mutable_ids(x, acc=None, depth=0):
    """ids of all mutable containers reachable from a dataset / sequence / array (to detect sharing)"""
    from pydicom.dataset import Dataset
    if acc is None:
        acc = {}
    if depth > 40:
        return acc
    if isinstance(x, np.ndarray):
        acc[id(x)] = 'ndarray'
        b = x.base
        while isinstance(b, np.ndarray):
            acc[id(b)] = 'ndarray-base'
            b = b.base
    elif isinstance(x, Dataset):
        acc[id(x)] = type(x).__name__
        for e in x:
            if e.VR == 'SQ':
                acc[id(e.value)] = type(e.value).__name__
                for it in e.value:
                    mutable_ids(it, acc, depth + 1)
    elif isinstance(x, (list, tuple)) or type(x).__name__ == 'Sequence' or (hasattr(x, '__iter__') and hasattr(x, '__len__') and not isinstance(x, (str, bytes, dict))):
        acc[id(x)] = type(x).__name__
        for it in x:
            mutable_ids(it, acc, depth + 1)
    return acc


def plainify(x):
    """A plain-pydicom deep copy (no highdicom classes anywhere) of a dataset or sequence."""
    from pydicom.dataset import Dataset, FileMetaDataset
    from pydicom.dataelem import DataElement
    from pydicom.sequence import Sequence
    import copy as _copy
    if isinstance(x, Dataset):
        out = Dataset()
        for e in x:
            if e.VR == 'SQ':
                out.add(DataElement(e.tag, 'SQ', Sequence([plainify(i) for i in e.value])))
            else:
                out.add(DataElement(e.tag, e.VR, _copy.deepcopy(e.value)))
        fm = getattr(x, 'file_meta', None)
        if fm is not None:
            out.file_meta = FileMetaDataset()
            for e in fm:
                out.file_meta.add(DataElement(e.tag, e.VR, _copy.deepcopy(e.value)))
        for k in ('preamble', 'is_little_endian', 'is_implicit_VR'):
            if k in vars(x):
                try:
                    setattr(out, k, vars(x)[k])
                except Exception:  # noqa: BLE001
                    pass
        return out
    return Sequence([plainify(i) for i in x])


# =====================================================================================================
# element-for-element comparison and the file clause
# =====================================================================================================
def _canon_value(vr, v):
    from pydicom.multival import MultiValue
    if isinstance(v, (MultiValue, list, tuple)):
        return [_canon_value(vr, i) for i in v]
    if vr in ('DA', 'TM', 'DT', 'UI', 'CS', 'SH', 'LO', 'ST', 'LT', 'UT', 'AE', 'AS', 'UC', 'UR'):
        return '' if v is None else str(v)
    if vr == 'PN':
        return '' if v is None else str(v)
    if vr in ('DS',):
        from fractions import Fraction
        return None if v in (None, '') else Fraction(str(v))     # the decimal string that is (or will be) stored
    if vr in ('IS',):
        return None if v in (None, '') else int(v)
    if vr in ('FL', 'FD'):
        return None if v is None else float(v)
    if vr in ('OB', 'OW', 'OF', 'OD', 'OL', 'UN', 'OB or OW', 'OV'):
        b = bytes(v) if v is not None else b''
        return b + (b'\x00' if len(b) % 2 else b'')
    return v


def elem_diff(a, b, path='', skip=(), loose=False):
    """`loose`: values of identifiers and dates / times are not compared (two constructions from the same arguments)"""
    ta, tb = sorted(a.keys()), sorted(b.keys())
    ta = [t for t in ta if int(t) not in skip]
    tb = [t for t in tb if int(t) not in skip]
    if ta != tb:
        return (f'{path}: tag sets differ: only-in-memory={[str(t) for t in ta if t not in tb][:5]} '
                f'only-in-file={[str(t) for t in tb if t not in ta][:5]}')
    for t in ta:
        ea, eb = a[t], b[t]
        if loose and ea.VR != eb.VR and (ea.VR in eb.VR.split(' or ') or eb.VR in ea.VR.split(' or ')):
            continue        # one of the two was written meanwhile: pydicom's writer resolved its ambiguous VR in place
        if ea.VR != eb.VR and not ({ea.VR, eb.VR} <= {'OB', 'OW', 'OB or OW'}) and not ({ea.VR, eb.VR} <= {'US', 'SS', 'US or SS'}):
            return f'{path}/{t} {ea.keyword}: VR {ea.VR} vs {eb.VR}'
        if ea.VR == 'SQ':
            sa, sb = list(ea.value), list(eb.value)
            if len(sa) != len(sb):
                return f'{path}/{t} {ea.keyword}: sequence length {len(sa)} vs {len(sb)}'
            for i, (x, y) in enumerate(zip(sa, sb)):
                d = elem_diff(x, y, f'{path}/{ea.keyword}[{i}]', loose=loose)
                if d:
                    return d
        elif loose and ea.VR in ('UI', 'DA', 'TM', 'DT'):
            continue
        else:
            try:
                va, vb = _canon_value(ea.VR, ea.value), _canon_value(eb.VR, eb.value)
            except Exception as e:  # noqa: BLE001
                return f'{path}/{t} {ea.keyword} ({ea.VR}): value not canonicalisable: {type(e).__name__}: {e}'
            if va != vb:
                return f'{path}/{t} {ea.keyword} ({ea.VR}): {str(va)[:70]!r} vs {str(vb)[:70]!r}'
    return None


GROUP_LENGTH = 0x00020000


def uid_values(ds, acc=None):
    """all UI values of a dataset (recursively) as {value: path}"""
    if acc is None:
        acc = {}
    for e in ds:
        if e.VR == 'SQ':
            for it in e.value:
                uid_values(it, acc)
        elif e.VR == 'UI' and e.value not in (None, ''):
            vs = e.value if not isinstance(e.value, str) else [e.value]
            for v in vs:
                acc.setdefault(str(v), e.keyword)
    return acc


class strict_validation:
    """pydicom value validation set to raise: `writing_validation_mode` (encoding of text, writer) and
    `reading_validation_mode`, which - despite its name - is the mode pydicom 3 applies when a value is *assigned* to an element
    (DataElement.__init__) and when a file is parsed"""

    def __enter__(self):
        from pydicom import config
        self.old = (config.settings._writing_validation_mode, config.settings._reading_validation_mode)
        config.settings.writing_validation_mode = config.RAISE
        config.settings.reading_validation_mode = config.RAISE

    def __exit__(self, *a):
        from pydicom import config
        config.settings._writing_validation_mode, config.settings._reading_validation_mode = self.old


def required_attributes(ds):
    """Type 1 / type 2 attributes of the mandatory modules of the object's IOD, as far as the attribute table of the shim
    (harness/hd_env.py, a reduced hand-made table: presence / type only) knows them: a type 1 attribute must be there with a
    value, a type 2 attribute must be there.  Attributes below a sequence are demanded in every item of that sequence when the
    sequence is there.  Conditional (1C / 2C) and optional attributes are not looked at.  -> (first shortcoming | None, #checked)"""
    import sys
    try:
        from highdicom import _iods
        table = sys.modules['highdicom._modules'].MODULE_ATTRIBUTE_MAP
        iod = _iods.SOP_CLASS_UID_IOD_KEY_MAP[str(ds.SOPClassUID)]
        modules = [m['key'] for m in _iods.IOD_MODULE_MAP[iod] if m.get('usage') == 'M']
    except Exception:  # noqa: BLE001
        return None, 0
    checked = 0

    def holders(d, path):
        if not path:
            return [d]
        seq = d.get(path[0])
        if seq is None:
            return []
        out = []
        for it in seq:
            out += holders(it, path[1:])
        return out
    for mod in modules:
        for a in table.get(mod, []):
            if a['type'] not in ('1', '2'):
                continue
            for h in holders(ds, a['path']):
                checked += 1
                if a['keyword'] not in h:
                    return f"type {a['type']} attribute {'/'.join(a['path'] + [a['keyword']])} of module {mod} ({iod}) is missing", checked
                if a['type'] == '1':
                    v = h[a['keyword']].value
                    if v is None or (hasattr(v, '__len__') and len(v) == 0):
                        return f"type 1 attribute {'/'.join(a['path'] + [a['keyword']])} of module {mod} ({iod}) is empty", checked
    return None, checked


def meta_consistency(obj):
    """the file meta information an object carries IN MEMORY names that very object (first shortcoming | None)"""
    fm = getattr(obj, 'file_meta', None)
    if fm is None:
        return 'object has no file meta'
    if str(fm.get('MediaStorageSOPInstanceUID')) != str(obj.SOPInstanceUID):
        return (f"the object's file meta carries MediaStorageSOPInstanceUID {fm.get('MediaStorageSOPInstanceUID')} but its "
                f'SOPInstanceUID is {obj.SOPInstanceUID}')
    if str(fm.get('MediaStorageSOPClassUID')) != str(obj.SOPClassUID):
        return "the object's file meta carries another SOP class than the data set"
    if fm.get('TransferSyntaxUID') is None:
        return "the object's file meta has no TransferSyntaxUID"
    return None


def plain_file_clause(obj):
    """written the way users write (`Dataset.save_as`, no file-format enforcement - enforcement would repair the identifiers of
    the file meta from the data set - value validation RAISE) and read back: the file names that very object"""
    import pydicom
    buf = io.BytesIO()
    with strict_validation():
        try:
            obj.save_as(buf)
            back = pydicom.dcmread(io.BytesIO(buf.getvalue()))
        except Exception as e:  # noqa: BLE001
            return f'plain save_as / dcmread failed: {type(e).__name__}: {str(e)[:200]}'
    if str(back.SOPInstanceUID) != str(obj.SOPInstanceUID):
        return 'SOPInstanceUID changed in the file written with plain save_as'
    if str(back.file_meta.get('MediaStorageSOPInstanceUID')) != str(back.SOPInstanceUID):
        return (f"file written with plain save_as: file meta carries {back.file_meta.get('MediaStorageSOPInstanceUID')}, the data "
                f'set has {back.SOPInstanceUID}')
    if str(back.file_meta.get('MediaStorageSOPClassUID')) != str(back.SOPClassUID):
        return 'file written with plain save_as: file meta SOP class differs from the data set'
    if str(back.file_meta.get('TransferSyntaxUID')) != str(obj.file_meta.get('TransferSyntaxUID')):
        return 'file written with plain save_as: transfer syntax differs from the object'
    return None


def revalidate(ctx, case, name, obj, snap0, when, writable=True):
    """an object built EARLIER, looked at again after later constructions: it equals its own snapshot (objects share no mutable
    state: caches, class attributes, default arguments), its file meta still names it in memory and in a plainly written file"""
    d = snap_diff(snap0, snap(obj), 'object')
    if d:
        ctx.fail(case, f'object altered by a later construction ({when}): {d}', site=name + '/history')
        return
    m = meta_consistency(obj) or (plain_file_clause(obj) if writable else None)   # (an object its own strict write refused
    if m:                                                                           # is reported there, not here)
        ctx.fail(case, f'{m} ({when})', site=name + '/history')


def file_clause(obj):
    """Returns (failure text or None, bytes).  The write / read-back / identifier clauses of the property."""
    import pydicom
    buf = io.BytesIO()
    with strict_validation():
        try:
            obj.save_as(buf, enforce_file_format=True)
        except Exception as e:  # noqa: BLE001
            # pydicom's `tag_in_exception` re-raises `type(exc)(message)`, which for a UnicodeEncodeError is a TypeError: the cause
            # is in the exception chain
            chain, x = [], e
            while x is not None and len(chain) < 8:
                chain.append(x)
                x = x.__cause__ or x.__context__
            mark = " [raised in pydicom's character-set encoder]" if any(isinstance(c, UnicodeEncodeError) for c in chain) else ''
            return f'strict write refused: {type(e).__name__}: {str(e)[:300]}{mark}', None
        blob = buf.getvalue()
        try:
            back = pydicom.dcmread(io.BytesIO(blob))
            for _ in back.iterall():      # force every (lazily parsed) value through validation
                pass
        except Exception as e:  # noqa: BLE001
            return f'written file not readable under strict validation: {type(e).__name__}: {str(e)[:300]}', blob
    d = elem_diff(obj, back)
    if d:
        return 'read-back differs: ' + d, blob
    fm = getattr(obj, 'file_meta', None)
    if fm is None:
        return 'object has no file meta', blob
    d = elem_diff(fm, back.file_meta, 'file_meta', skip=(GROUP_LENGTH,))
    if d:
        return 'read-back file meta differs: ' + d, blob
    if str(back.file_meta.get('MediaStorageSOPInstanceUID')) != str(obj.SOPInstanceUID):
        return 'SOPInstanceUID not carried into file meta', blob
    if str(back.file_meta.get('MediaStorageSOPClassUID')) != str(obj.SOPClassUID):
        return 'SOPClassUID not carried into file meta', blob
    for v, kw in itertools.chain(uid_values(back).items(), uid_values(back.file_meta).items()):
        if len(v) > 64 or not UID_RE.match(v):
            return f'invalid UID in {kw}: {v!r}', blob
    # file meta information is consistent with the data set and the encoding actually used
    ts = back.file_meta.get('TransferSyntaxUID')
    if ts is None:
        return 'file meta has no TransferSyntaxUID', blob
    if hasattr(obj, 'PixelData') and ts.is_compressed != (blob.find(b'\xfe\xff\x00\xe0') >= 0 and obj['PixelData'].is_undefined_length):
        return f'TransferSyntaxUID {ts} does not match the encoding of PixelData (encapsulated: {obj["PixelData"].is_undefined_length})', blob
    missing, n = required_attributes(back)
    file_clause.last_required = n
    if missing:
        return 'written file lacks a required attribute: ' + missing, blob
    return None, blob


# =====================================================================================================
# (a) value-representation guards and the regular-expression fragment
# =====================================================================================================
ALPHABET = ['A', 'Z', 'a', '0', '9', ' ', '_', '\n', '\\', '\x1b', '\x00', '\t', '\x7f', '\u00e9', '^', '\r']
GUARDS = [('_check_code_string', 'checkCodeString', 16), ('_check_short_string', 'checkShortString', 16),
          ('_check_long_string', 'checkLongString', 64), ('_check_short_text', 'checkShortText', 1024),
          ('_check_long_text', 'checkLongText', 10240)]
EXTRA_PATTERNS = [r'[A-Z0-9_ ]{1,16}$', r'[A-Z0-9_ ]{1,3}\Z', r'.*[_ ]$', r'[0-9 _]{1}.*', r'A*9+$', r'[^A]{2,}', r'\d{2}\.?',
                  r'.+\n?\Z', r'[A-Z]{2}', r'^[a-z]*$', r'[\x00-\x1a\x1c-\x1f\x7f]', r'_?A{0,2}\n$', r'[ -~]{1,2}\Z']


def _err_kind(e):
    return {'IndexError': 'index', 'ValueError': 'value', 'TypeError': 'type', 'RuntimeError': 'runtime',
            'KeyError': 'key', 'AttributeError': 'attribute'}.get(type(e).__name__, 'other')


def _guard_strings(ctx):
    maxlen = 3 if ctx.tier == 'quick' else 4
    for n in range(maxlen + 1):
        for t in itertools.product(ALPHABET, repeat=n):
            yield ''.join(t), 'exhaustive'
    ctx.exhaustive.append(f'all {sum(len(ALPHABET) ** n for n in range(maxlen + 1))} strings of length <= {maxlen} over '
                          f'{len(ALPHABET)} boundary characters x 5 guards')
    # random longer strings around every length limit, mostly clean with 0-2 planted offenders
    clean = string.ascii_uppercase + string.digits + ' _'
    text = clean + string.ascii_lowercase + '.,;-()/'
    for i in range(ctx.n(300, 3000)):
        r = ctx.rng('guardstr', i)
        limit = r.choice([16, 16, 64, 1024, 10240])
        n = max(0, limit + r.choice([-2, -1, 0, 0, 1, 2]))
        base = clean if r.random() < 0.5 else text
        chars = [r.choice(base) for _ in range(n)]
        for _ in range(r.choice([0, 0, 1, 2])):
            if chars:
                chars[r.choice([0, len(chars) - 1, r.randrange(len(chars))])] = r.choice(ALPHABET + [chr(r.randrange(0, 0x250))])
        yield ''.join(chars), f'limit{limit}'


def _vr_valid(vr, s):
    """PS3.5 6.2 validity, written independently of the model and of the library (the guard-soundness oracle)."""
    ctrl = [c for c in s if ord(c) < 32 or ord(c) == 127]
    if vr == 'CS':
        return len(s) <= 16 and all(c in string.ascii_uppercase + string.digits + ' _' for c in s)
    if vr in ('SH', 'LO'):
        return len(s) <= {'SH': 16, 'LO': 64}[vr] and '\\' not in s and all(c == '\x1b' for c in ctrl)
    return len(s) <= {'ST': 1024, 'LT': 10240}[vr] and all(c in '\t\n\x0c\r\x1b' for c in ctrl)


def _pyd_validate(vr, s):
    """pydicom's validator as applied under strict validation (raises ValueError when it refuses)"""
    import pydicom.config
    from pydicom.valuerep import validate_value
    validate_value(vr, s, pydicom.config.RAISE)


def _check_guards(ctx):
    import warnings
    from highdicom import valuerep
    reqs, pend = [], []
    vrs = {'_check_code_string': 'CS', '_check_short_string': 'SH', '_check_long_string': 'LO',
           '_check_short_text': 'ST', '_check_long_text': 'LT'}
    fns = [(py, lean, getattr(valuerep, py, None)) for py, lean, _ in GUARDS]
    for py, _, f in fns:
        if f is None:
            ctx.fail({'guard': py}, 'guard no longer exists', site='valuerep')
    for s, origin in _guard_strings(ctx):
        cps = [ord(c) for c in s]
        for py, lean, f in fns:
            if f is None:
                continue
            try:
                f(s)
                impl = ('ok', None)
            except Exception as e:  # noqa: BLE001
                impl = ('err', _err_kind(e))
            ok = impl[0] == 'ok'
            ctx.case(sample={'guard': py, 's': s} if (ok and len(s) > 1 and ctx.evaluations % 211 == 0) else None,
                     nontrivial_key=('guard', py, s) if ok and s else None, guard=py, outcome=impl[0] if ok else impl[1],
                     origin=origin)
            # oracle: accepted => valid for the VR
            if ok and not _vr_valid(vrs[py], s):
                ctx.fail({'guard': py, 's': s}, f'guard accepted a value that is not a valid {vrs[py]}', site='valuerep/' + py)
            if not ok and impl[1] != 'value':
                ctx.fail({'guard': py, 's': s}, f'guard refused a str with {impl[1]} instead of ValueError', site='valuerep/' + py)
            reqs.append((lean, {'s': cps}))
            pend.append(({'guard': py, 's': s}, impl))
            # pydicom's own rule for the VR (what its validator lets through when the value is assigned / written strictly):
            # model of the regenerated rule table vs the real validator, and oracle: accepted by the guard => accepted by pydicom
            try:
                _pyd_validate(vrs[py], s)
                pimpl = ('ok', True)
            except ValueError:
                pimpl = ('ok', False)
            except Exception as e:  # noqa: BLE001
                pimpl = ('err', _err_kind(e))
            ctx.case(nontrivial_key=('pydicom_rule', vrs[py], s) if s else None, pydicom_rule=f'{vrs[py]}:{pimpl[1]}')
            if ok and pimpl != ('ok', True):
                ctx.fail({'guard': py, 's': s}, f'guard accepted a value pydicom\'s validator refuses for VR {vrs[py]}',
                         site='valuerep/' + py)
            reqs.append(('pydAccepts', {'vr': vrs[py], 's': cps}))
            pend.append(({'guard': 'pydicom_rule:' + vrs[py], 's': s}, pimpl))
        # person name: warns or not
        with warnings.catch_warnings(record=True) as w:
            warnings.simplefilter('always')
            try:
                valuerep.check_person_name(s)
                warned = len(w) > 0
                impl = ('ok', warned)
            except Exception as e:  # noqa: BLE001
                impl = ('err', _err_kind(e))
                ctx.fail({'guard': 'check_person_name', 's': s}, 'check_person_name refused a str', site='valuerep/pn')
        reqs.append(('personNameWarns', {'s': cps}))
        pend.append(({'guard': 'check_person_name', 's': s}, impl))
    return reqs, pend


def _check_regex_engine(ctx):
    """The hand-written semantics of the regex fragment against CPython's `re` (the source's own patterns are covered by
    the guard comparison; these are further patterns of the same fragment, incl. the `$` / `\\Z` distinction)."""
    import os
    import sys
    sys.path.insert(0, os.path.join(os.path.dirname(os.path.dirname(os.path.dirname(os.path.abspath(__file__)))), 'translate'))
    try:
        import targets_C20 as tg
    except Exception as e:  # noqa: BLE001
        ctx.note(f'regex engine check skipped: {e}')
        return [], []
    reqs, pend = [], []
    alpha = ['A', 'Z', 'a', '9', ' ', '_', '\n', '.', '\x00', '~']
    maxlen = 3 if ctx.tier == 'quick' else 4
    strings = [''.join(t) for n in range(maxlen + 1) for t in itertools.product(alpha, repeat=n)]
    for pat in EXTRA_PATTERNS:
        atoms = tg._ReParser(pat).parse()
        bol = bool(atoms and atoms[0][0] == 'bol')
        js = []
        for a in atoms:
            if a[0] == 'bol':
                continue
            js.append(list(a[:1]) if a[0] != 'rep' else ['rep', a[1], [list(x) for x in tg._canon_ranges(a[2])], a[3], a[4]])
        cre = re.compile(pat)
        for mode in ('match', 'fullmatch', 'search'):
            if bol and mode == 'search':
                continue
            f = getattr(cre, mode)
            for s in strings:
                reqs.append(('re', {'p': js, 's': [ord(c) for c in s], 'mode': mode}))
                pend.append(({'regex': pat, 'mode': mode, 's': s, 'layer': 'L2'}, ('ok', f(s) is not None)))
                ctx.case(regex=pat)
    ctx.exhaustive.append(f'{len(EXTRA_PATTERNS)} patterns x match/fullmatch/search x all {len(strings)} strings of length <= '
                          f'{maxlen} over {len(alpha)} characters: Lean regex semantics vs CPython re')
    return reqs, pend


# =====================================================================================================
# (b) identifiers
# =====================================================================================================
def _check_uids(ctx):
    import uuid
    import highdicom as hd
    reqs, pend = [], []
    vals = [0, 1, 9, 10, 2 ** 128 - 1, 2 ** 127, 10 ** 38, 10 ** 38 - 1, 10 ** 38 + 1, 2 ** 64, 2 ** 64 - 1, 7 * 10 ** 30]
    vals += [10 ** k for k in range(1, 39)] + [10 ** k - 1 for k in range(1, 39)]
    for i in range(ctx.n(300, 5000)):
        r = ctx.rng('uuid', i)
        vals.append(r.getrandbits(r.choice([128, 128, 128, 64, 20, 100, 127])))
    for n in vals:
        try:
            u = hd.UID.from_uuid(str(uuid.UUID(int=n)))
            impl = ('ok', [ord(c) for c in str(u)])
        except Exception as e:  # noqa: BLE001
            impl = ('err', _err_kind(e))
        ctx.case(sample={'uuid_int': str(n)} if ctx.evaluations % 301 == 0 else None, nontrivial_key=('uuid', n), uid='from_uuid',
                 digits=len(str(n)))
        if impl[0] != 'ok':
            ctx.fail({'uuid_int': str(n)}, f'from_uuid refused a valid UUID: {impl[1]}', site='uid/from_uuid')
        else:
            s = str(u)
            if len(s) > 64 or not UID_RE.match(s) or not isinstance(u, hd.UID):
                ctx.fail({'uuid_int': str(n)}, f'from_uuid produced an invalid UID {s!r}', site='uid/from_uuid')
            if s != '2.25.' + str(n):
                ctx.fail({'uuid_int': str(n)}, f'from_uuid({n}) = {s!r}', site='uid/from_uuid')
        reqs.append(('fromUuid', {'n': n}))
        pend.append(({'uuid_int': str(n)}, impl))
    # UID(): validity, uniqueness, and the law assumed of pydicom.uid.generate_uid
    seen = set()
    reqs.append(('defaultPrefix', {}))
    pend.append(None)
    k = ctx.n(300, 5000)
    for i in range(k):
        u = str(hd.UID())
        ctx.case(uid='UID()', nontrivial_key=('uid', u))
        if len(u) > 64 or not UID_RE.match(u):
            ctx.fail({'uid': u}, 'UID() produced an invalid UID', site='uid/new')
        if u in seen:
            ctx.fail({'uid': u}, 'UID() produced the same identifier twice', site='uid/new')
        seen.add(u)
        reqs.append(('validUID', {'s': [ord(c) for c in u]}))
        pend.append(({'uid': u, 'what': 'validUID'}, ('ok', bool(len(u) <= 64 and UID_RE.match(u)))))
    return reqs, pend, sorted(seen)


def _compare(ctx, pend, answers):
    for p, ans in zip(pend, answers):
        if p is None:
            continue
        case, impl = p
        if 'proto_err' in ans:
            ctx.disagree('L0', case, impl, ans, 'model protocol error')
            continue
        model = ('ok', ans['ok']) if 'ok' in ans else ('err', ans['err'])
        layer = case.get('layer', 'L0')
        if impl[0] != model[0]:
            ctx.disagree(layer, case, impl, model, 'ok-vs-error')
        elif impl[0] == 'ok' and impl[1] is not None and impl[1] != model[1]:
            ctx.disagree(layer, case, impl, model, 'value')
        elif impl[0] == 'err' and impl[1] != model[1]:
            ctx.disagree(layer, case, impl, model, 'refusal kind')      # the property of the guards speaks of ValueError


def _extractor_corpus(ctx):
    """negative tests of the alias-flow extractor: the committed corpus of synthetic constructors (translate/tests_C20/corpus.py),
    as abstracted by the extractor of this run (Generated/T20neg.lean), evaluated by the model"""
    ans = ctx.model([('corpus', {})])
    if not ans or 'ok' not in ans[0]:
        return
    r = ans[0]['ok']
    for name in r.get('writersAccepted', []):
        ctx.disagree('L0', {'corpus_writer': name}, 'writes an argument', 'accepted by neverWritesInputs',
                     'extractor corpus: a constructor that writes an argument is accepted')
    for name in list(r.get('twinsRejected', [])) + list(r.get('twinsRefused', [])):
        ctx.disagree('L0', {'corpus_twin': name}, 'writes nothing the caller sees', 'rejected', 'extractor corpus: a harmless twin is rejected')
    ctx.hist('extractor_corpus', f"writers rejected {r.get('writers', 0) - len(r.get('writersAccepted', []))} + refused {r.get('refused', 0)}")
    ctx.hist('extractor_corpus', f"twins accepted {r.get('twins', 0) - len(r.get('twinsRejected', []))}")
    ctx.exhaustive.append(f"extractor corpus: {r.get('writers', 0)} writing constructors + {r.get('refused', 0)} refused, {r.get('twins', 0)} twins")


def _strings_and_uids(ctx):
    r1, p1 = _check_guards(ctx)
    r2, p2 = _check_regex_engine(ctx)
    r3, p3, uids = _check_uids(ctx)
    answers = ctx.model(r1 + r2 + r3)
    if answers is None:
        return
    _compare(ctx, p1 + p2 + p3, answers)
    # the model's UID() against the real ones: same prefix, the drawn number within the range the theorem assumes
    k = len(r1) + len(r2)
    pre = None
    for (fn, _), ans in zip(r3, answers[k:]):
        if fn == 'defaultPrefix':
            pre = ans.get('ok')
    if pre is not None:
        reqs, exp = [], []
        for u in uids:
            if not u.startswith(pre):
                ctx.disagree('L0', {'uid': u}, u, pre, 'UID() does not start with the prefix the model was generated from')
                continue
            tail = u[len(pre):]
            n = int(tail)
            if str(n) != tail or not n < 10 ** (64 - len(pre)):
                ctx.fail({'uid': u}, 'generate_uid law violated: suffix is not the shortest decimal of a number below '
                         '10**(64-len(prefix))', site='uid/new')
            reqs.append(('defaultUid', {'n': n}))
            exp.append(u)
        ans2 = ctx.model(reqs) or []
        for u, a in zip(exp, ans2):
            got = ''.join(chr(c) for c in a.get('ok', [])) if 'ok' in a else a
            if got != u:
                ctx.disagree('L0', {'uid': u}, u, got, 'UID() rendering')


# =====================================================================================================
# (c) constructors and converters: input snapshots, copy / no-copy, strict write, read back, identifiers
# =====================================================================================================
_OPEN = None


def _open_finding_known(fid):
    """is the open finding registered (known_findings.json)?  Input classes that only reproduce a registered open finding are
    generated only then, so that they are attributed instead of reported as new."""
    global _OPEN
    if _OPEN is None:
        import json
        import os
        path = os.path.join(os.path.dirname(os.path.dirname(os.path.dirname(os.path.abspath(__file__)))), 'known_findings.json')
        try:
            _OPEN = {f['id'] for f in json.load(open(path)).get('findings', []) if f.get('status') == 'open'}
        except Exception:  # noqa: BLE001
            _OPEN = set()
    return fid in _OPEN


def attribute(failure, open_findings):
    """oracle failure -> id of the open finding it is an instance of (call site + input class), or None"""
    case = failure.get('case') or {}
    ids = {f['id'] for f in open_findings}
    if 'C20-non-latin1-text-unwritable' in ids and isinstance(case, dict) and case.get('text_class') == 'non-latin1' \
            and str(failure.get('site', '')).endswith('/file') and str(failure.get('detail', '')).startswith('strict write refused') \
            and CHARSET_FAILURE.search(str(failure.get('detail', ''))):       # the refusal itself must come from the text encoder
        return 'C20-non-latin1-text-unwritable'
    return None


def _charset_witness(text_value):
    """the witness of C20-non-latin1-text-unwritable: a segmentation with that series description, written strictly"""
    import logging
    import highdicom as hd
    from gen import sources
    logging.disable(logging.CRITICAL)
    try:
        src = sources.ct_series(2, 4, 4)
        seg = hd.seg.Segmentation(src, np.ones((2, 4, 4), np.uint8), 'BINARY', [sources.seg_description(1)],
                                  series_instance_uid=hd.UID(), series_number=1, sop_instance_uid=hd.UID(), instance_number=1,
                                  manufacturer='m', manufacturer_model_name='mm', software_versions='1',
                                  device_serial_number='1', series_description=text_value)
        msg, _ = file_clause(seg)
    finally:
        logging.disable(logging.NOTSET)
    return msg


def carried_file_clause(part):
    """strict write / read back of a content-level object (data set or sequence of data sets): it is put into a carrier data
    set (Secondary Capture identification, the object under ContentSequence) and must come back element for element"""
    import pydicom
    from pydicom import config
    from pydicom.dataset import Dataset, FileMetaDataset
    from pydicom.uid import ExplicitVRLittleEndian, generate_uid
    if isinstance(part, Dataset):
        items = [part]
    elif hasattr(part, '__iter__') and all(isinstance(i, Dataset) for i in part):
        items = list(part)
    else:
        return None
    ds = Dataset()
    ds.file_meta = FileMetaDataset()
    ds.file_meta.TransferSyntaxUID = ExplicitVRLittleEndian
    ds.file_meta.MediaStorageSOPClassUID = '1.2.840.10008.5.1.4.1.1.7'
    ds.SOPClassUID = '1.2.840.10008.5.1.4.1.1.7'
    ds.SOPInstanceUID = generate_uid(prefix=None)
    ds.file_meta.MediaStorageSOPInstanceUID = ds.SOPInstanceUID
    ds.add_new(0x0040A730, 'SQ', items)            # ContentSequence as a carrier
    buf = io.BytesIO()
    with strict_validation():
        try:
            ds.save_as(buf, enforce_file_format=True)
        except Exception as e:  # noqa: BLE001
            return f'strict write refused: {type(e).__name__}: {str(e)[:300]}'
        try:
            back = pydicom.dcmread(io.BytesIO(buf.getvalue()))
            for _ in back.iterall():
                pass
        except Exception as e:  # noqa: BLE001
            return f'written file not readable under strict validation: {type(e).__name__}: {str(e)[:300]}'
    got = list(back[0x0040A730].value)
    if len(got) != len(items):
        return f'read-back: {len(got)} items instead of {len(items)}'
    for i, (a, b) in enumerate(zip(items, got)):
        d = elem_diff(a, b, f'[{i}]')
        if d:
            return 'read-back differs: ' + d
    return None


def alias_equal_parts(inputs, limit=400):
    """Generator dimension `shared parts`: wherever two mutable parts of the arguments are deep-equal (two CodedConcepts of the
    same code, the same algorithm identification in two segment descriptions, two equal arrays, the same item in two lists),
    make them the SAME object - a change of values nowhere, so nothing a constructor may refuse, but a write through one
    reference now shows through the other.  Returns the number of places re-pointed."""
    from pydicom.dataset import Dataset
    seen = {}
    count = [0]
    budget = [limit]

    def visit(container, key, x, depth):
        if depth > 8 or budget[0] <= 0:
            return
        small_ds = isinstance(x, Dataset) and 0 < len(x) <= 40 and 'PixelData' not in x
        small_arr = isinstance(x, np.ndarray) and 0 < x.size <= 4096
        if small_ds or small_arr:
            budget[0] -= 1
            try:
                key_ = (type(x).__qualname__, snap(x))
                hash(key_)
            except TypeError:
                key_ = None
            if key_ is not None:
                first = seen.get(key_)
                if first is not None and first is not x:
                    try:
                        container[key] = first
                        count[0] += 1
                        return
                    except Exception:  # noqa: BLE001  (tuple, read-only container)
                        pass
                else:
                    seen[key_] = x
        if isinstance(x, Dataset):
            if 'PixelData' in x:
                return
            for e in x:
                if e.VR == 'SQ' and e.value is not None:
                    for i, it in enumerate(list(e.value)):
                        visit(e.value, i, it, depth + 1)
        elif isinstance(x, list) or type(x).__name__ == 'Sequence':
            for i, it in enumerate(list(x)):
                visit(x, i, it, depth + 1)
        elif isinstance(x, tuple):
            for it in x:
                visit(None, None, it, depth + 1) if isinstance(it, (list, Dataset)) else None
    for k in list(inputs):
        visit(inputs, k, inputs[k], 0)
    return count[0]


def _subject(ctx, idx):
    """case idx -> subject dict (pure function of seed, idx)"""
    from gen import objects
    r = ctx.rng('subject', idx)
    f = objects.SUBJECTS[idx % len(objects.SUBJECTS)]
    del objects.GIVEN_UIDS[:]
    objects.NON_LATIN1 = _open_finding_known('C20-non-latin1-text-unwritable')
    s = f(r, ctx.np_rng('subject', idx))
    s['container_forms'] = objects.vary_containers(s['inputs'], ctx.rng('containers', idx))
    for form in s['container_forms'].values():
        ctx.hist('container_form', form)
    s['given_uids'] = set(objects.GIVEN_UIDS)
    if ctx.rng('shared-parts', idx).random() < 0.4:
        n = alias_equal_parts(s['inputs'])
        ctx.hist('shared_parts', 'none found' if n == 0 else ('1' if n == 1 else ('2-5' if n <= 5 else '>5')))
        s['variant'] = tuple(s['variant']) + (('shared', min(n, 3)),) if isinstance(s['variant'], tuple) else s['variant']
    else:
        ctx.hist('shared_parts', 'off')
    return s


def _generated_uids(obj, inputs, given=()):
    """UI values of the result that occur nowhere in the arguments: identifiers the library generated in this call"""
    from pydicom.dataset import Dataset
    have = set(given)

    def walk(x, d=0):
        if d > 6:
            return
        if isinstance(x, Dataset):
            have.update(uid_values(x))
            fm = getattr(x, 'file_meta', None)
            if fm is not None:
                have.update(uid_values(fm))
        elif isinstance(x, (list, tuple)) or type(x).__name__ == 'Sequence':
            for i in x:
                walk(i, d + 1)
        elif isinstance(x, dict):
            for i in x.values():
                walk(i, d + 1)
    walk(inputs)
    mine = uid_values(obj)
    # registered (1.2.840.10008.*) identifiers are constants of the standard, not generated values
    return {u: kw for u, kw in mine.items() if u not in have and not u.startswith('1.2.840.10008.')}


_HISTORY = []       # (case, subject name, object, snapshot after construction + write) of every SOP-level object of this run


def _run_subject(ctx, idx, collect=None):
    # value validation is set to raise for the whole life of the object (building of the arguments and construction
    # included): a value that only warns when it is assigned would otherwise slip into the file unvalidated
    with strict_validation():
        try:
            s = _subject(ctx, idx)
        except Exception as e:  # noqa: BLE001
            ctx.note(f'generator failed for subject {idx}: {type(e).__name__}: {str(e)[:150]}')
            ctx.hist('subject_outcome', 'generator-error')
            if PYDICOM_VALIDATION.search(str(e)):
                ctx.fail({'subject_index': idx}, 'value validation (RAISE) rejected a value a content-level constructor produced '
                         f'while the arguments were built: {type(e).__name__}: {str(e)[:200]}', site='generator/file')
            return
        case = {'subject': s['name'], 'idx': idx, 'variant': repr(s['variant'])}
        _run_subject_strict(ctx, idx, s, case, collect)


# what a failure caused by text outside the declared character set looks like (the open finding): pydicom's encoder raises
# UnicodeEncodeError - or, in RAISE mode, trips over constructing one; `file_clause` marks those by where they were raised
CHARSET_FAILURE = re.compile(r"UnicodeEncodeError|codec can't encode|\[raised in pydicom's character-set encoder\]")
PYDICOM_VALIDATION = re.compile(r"with a VR of|Invalid value for VR|exceeds the maximum length|must be <= \d+ characters|"
                                r"is not valid for VR|Value .* for VR")


def _run_subject_strict(ctx, idx, s, case, collect):
    if s.get('text_class'):
        case['text_class'] = s['text_class']
        ctx.hist('text_class', s['text_class'])
    before = {k: snap(v) for k, v in s['inputs'].items()}
    try:
        obj = s['call'](**s['inputs'])
    except Exception as e:  # noqa: BLE001
        ctx.case(subject=s['name'], subject_outcome='refused:' + type(e).__name__)
        ctx.note(f"{s['name']} {s['variant']} refused generated arguments: {type(e).__name__}: {str(e)[:120]}")
        ctx.hist('refused_valid_arguments', s['name'])
        if PYDICOM_VALIDATION.search(str(e)) and not CHARSET_FAILURE.search(f'{type(e).__name__}: {e}'):
            # the library itself produced a value pydicom's validation rejects
            ctx.fail(case, f'value validation (RAISE) rejected a value the constructor produced: {type(e).__name__}: {str(e)[:200]}',
                     site=s['name'] + '/file')
        if 'read-only' in str(e) or 'readonly' in str(e) or 'WRITEABLE' in str(e):
            # numpy refused a write into an argument whose buffer is read-only: the constructor tried to alter its input
            ctx.fail(case, f'constructor tried to write into a read-only argument: {type(e).__name__}: {str(e)[:120]}',
                     site=s['name'] + '/inputs')
        # a refusal must not have altered the arguments either
        for k in before:
            d = snap_diff(before[k], snap(s['inputs'][k]), k)
            if d:
                ctx.fail(case, f'argument altered by a constructor that then refused: {d}', site=s['name'] + '/inputs')
        return
    nontriv = (s['name'], s['variant'])
    ctx.case(sample=case if ctx.evaluations % 37 == 0 else None, nontrivial_key=nontriv, subject=s['name'], subject_outcome='ok')
    # 1. inputs untouched
    for k in before:
        d = snap_diff(before[k], snap(s['inputs'][k]), k)
        if d:
            ctx.fail(case, f'argument altered by the constructor: {d}', site=s['name'] + '/inputs')
    # 2. file clause
    if hasattr(obj, 'save_as') and hasattr(obj, 'SOPInstanceUID'):
        m0 = meta_consistency(obj)
        if m0:
            ctx.fail(case, m0, site=s['name'] + '/file')
        msg, blob = file_clause(obj)
        if msg:
            ctx.fail(case, msg, site=s['name'] + '/file')
        snap0 = snap(obj)         # the object as it stands after its own construction and write
        n_req = getattr(file_clause, 'last_required', 0)
        ctx.hist('required_attributes_checked', '0' if n_req == 0 else ('1-20' if n_req <= 20 else ('21-60' if n_req <= 60 else '>60')))
        # 3. identifiers generated by the library are unique per call (same arguments, second call)
        if idx % 3 == 0:
            try:
                # (baseline taken now: writing `obj` above may have resolved ambiguous VRs - `US or SS` - inside nested data sets
                # the result shares with the arguments; that is pydicom's writer, not a construction)
                mid = {k: snap(v) for k, v in s['inputs'].items()}
                obj2 = s['call'](**s['inputs'])
                g1, g2 = (_generated_uids(o, s['inputs'], s['given_uids']) for o in (obj, obj2))
                both = set(g1) & set(g2)
                if both:
                    u = sorted(both)[0]
                    ctx.fail(case, f'identifier generated in two calls is the same: {g1[u]} = {u}', site=s['name'] + '/uid')
                ctx.hist('generated_uids_per_call', len(g1))
                # the arguments served two constructions: still untouched, and the second result is the first one again
                # (identifiers and dates / times apart) - nothing of the first call lives on in the arguments or the library
                for k in mid:
                    d = snap_diff(mid[k], snap(s['inputs'][k]), k)
                    if d:
                        ctx.fail(case, f'argument altered by the second construction from the same arguments: {d}',
                                 site=s['name'] + '/inputs')
                # (observation only - the property does not say that two constructions agree; a difference would point at state
                # that outlives a call, cf. the lint `no_state_shared_between_calls`)
                d = elem_diff(obj, obj2, 'second', loose=True)
                if d:
                    ctx.note(f"{s['name']} {s['variant']}: second construction from the same arguments differs: {d}")
                ctx.hist('second_construction', 'differs' if d else 'same')
                # history: the FIRST object after a second construction of the same class with the same options
                revalidate(ctx, case, s['name'], obj, snap0, 'after a second construction with the same arguments', msg is None)
            except Exception as e:  # noqa: BLE001
                ctx.fail(case, f'second call with the same (unaltered) arguments failed: {type(e).__name__}: {str(e)[:150]}',
                         site=s['name'] + '/second-call')
        if collect is not None:
            collect.append((case, obj, blob))
            _HISTORY.append((case, s['name'], obj, snap0, msg is None))
    else:
        # content-level objects: the same file clause, each one carried inside a minimal file-format data set
        for k, part in enumerate(obj if isinstance(obj, list) else [obj]):
            msg = carried_file_clause(part)
            if msg:
                ctx.fail(dict(case, part=k, part_class=type(part).__name__), msg, site=f"{s['name']}/{type(part).__name__}/file")
            ctx.hist('carried_parts', type(part).__name__)
        if collect is not None:
            collect.append((case, obj, None))


def _converter_classes():
    """every highdicom class with a from_dataset / from_sequence classmethod: {class: (method name, has copy parameter)}"""
    import importlib
    import inspect
    import pkgutil
    import highdicom as hd
    out = {}
    for m in pkgutil.walk_packages(hd.__path__, 'highdicom.'):
        if m.name.endswith('_modules') or '._' in m.name and not m.name.endswith('_module_utils'):
            continue
        try:
            mod = importlib.import_module(m.name)
        except Exception:  # noqa: BLE001
            continue
        for _, c in inspect.getmembers(mod, inspect.isclass):
            if not c.__module__.startswith('highdicom'):
                continue
            for meth in ('from_dataset', 'from_sequence'):
                f = c.__dict__.get(meth)
                if f is None:
                    continue
                try:
                    sig = inspect.signature(getattr(c, meth))
                except (TypeError, ValueError):
                    continue
                out[(c, meth)] = 'copy' in sig.parameters
    return out


def _harvest(obj, acc, depth=0):
    """all nested datasets / sequences of a constructed object whose class is a highdicom class"""
    from pydicom.dataset import Dataset
    if depth > 30:
        return
    if isinstance(obj, Dataset):
        if type(obj).__module__.startswith('highdicom'):
            acc.append(obj)
        for e in obj:
            if e.VR == 'SQ':
                if type(e.value).__module__.startswith('highdicom'):
                    acc.append(e.value)
                for it in e.value:
                    _harvest(it, acc, depth + 1)
    elif hasattr(obj, '__iter__') and not isinstance(obj, (str, bytes)):
        if type(obj).__module__.startswith('highdicom'):
            acc.append(obj)
        for it in obj:
            _harvest(it, acc, depth + 1)


def _call_converter(cls, meth, arg, copy, extra):
    f = getattr(cls, meth)
    kw = dict(extra)
    if copy is not None:
        kw['copy'] = copy
    return f(arg, **kw)


def _converter_extra(cls, meth, inst):
    """further required arguments of some converters, read off the instance"""
    import inspect
    sig = inspect.signature(getattr(cls, meth))
    extra = {}
    for name, p in sig.parameters.items():
        if name in ('is_root', 'is_sr') and hasattr(inst, '_' + name):
            extra[name] = bool(getattr(inst, '_' + name))
            continue
        if name in ('dataset', 'sequence', 'copy') or p.default is not inspect._empty:
            continue
        if p.kind in (p.VAR_KEYWORD, p.VAR_POSITIONAL):
            continue
        if name == 'is_root':
            extra[name] = bool(getattr(inst, '_is_root', False))
        elif name == 'is_sr':
            extra[name] = bool(getattr(inst, '_is_sr', True))
        elif name == 'color':
            extra[name] = None
        else:
            return None
    return extra


def _check_converter(ctx, cls, meth, has_copy, inst, origin, obs=None, defining=None):
    """one instance through one converter with copy in {True, False} (or without the parameter)"""
    from pydicom.dataset import Dataset
    defining = defining or cls
    name = f'{defining.__module__.replace("highdicom.", "")}.{defining.__qualname__}.{meth}'
    if defining is not cls:
        name += f'[{cls.__qualname__}]'
    extra = _converter_extra(cls, meth, inst)
    if extra is None:
        ctx.hist('converter_outcome', 'skipped:arguments')
        return
    # sequences travel as plain pydicom Sequence / list of plain datasets, datasets as plain Dataset
    import copy as _copy
    for copy, typed in [(c, t) for c in ((True, False) if has_copy else (None,)) for t in (False, True)]:
        # the argument: a plain pydicom object, or one that already has the highdicom classes (a path where a
        # converter might be tempted to skip its defensive copy)
        try:
            plain = _copy.deepcopy(inst) if typed else plainify(inst)
        except Exception as e:  # noqa: BLE001
            ctx.note(f'could not prepare the argument of {name}: {e}')
            return
        if meth == 'from_sequence' and defining.__module__ == 'highdicom.sr.templates':
            # the template converters take content items that were already parsed (what ContentSequence.from_sequence yields)
            from highdicom.sr import ContentSequence
            try:
                plain = ContentSequence.from_sequence(plain, is_root=bool(getattr(inst, '_is_root', False)),
                                                      is_sr=bool(getattr(inst, '_is_sr', True)), copy=False)
            except Exception as e:  # noqa: BLE001
                ctx.note(f'could not pre-parse the argument of {name}: {type(e).__name__}: {e}'[:200])
                return
        elif meth == 'from_sequence' and defining.__module__.startswith('highdicom.sr') and \
                ctx.rng('convseq', ctx.evaluations).random() < 0.5:
            plain = list(plain)
        case = {'converter': name, 'copy': copy, 'typed_argument': typed, 'origin': origin}
        before = snap(plain)
        ids_before = mutable_ids(plain)
        try:
            res = _call_converter(cls, meth, plain, copy, extra)
        except Exception as e:  # noqa: BLE001
            ctx.case(converter=name, converter_outcome='refused:' + type(e).__name__)
            ctx.hist('converter_refusals', f'{name}: {type(e).__name__}: {str(e)[:80]}')
            d = snap_diff(before, snap(plain))
            if d and copy is not False:
                ctx.fail(case, f'original altered by a conversion that then refused: {d}', site=name)
            continue
        ctx.case(sample=case if ctx.evaluations % 53 == 0 else None, nontrivial_key=('conv', name, copy, typed),
                 converter=name, converter_outcome='ok', copy=copy, typed_argument=typed)
        if obs is not None:
            obs.append((f'{defining.__qualname__}.{meth}', copy, res is plain, snap(plain) != before, case))
        if copy is False:
            # in-place conversion was requested: the same object comes back
            # (a sequence converter may have to build a new container; then its items must be the caller's items)
            same_items = meth == 'from_sequence' and hasattr(res, '__len__') and len(res) == len(plain) and \
                all(a is b for a, b in zip(res, plain))
            if res is not plain and not same_items:
                ctx.fail(case, f'conversion without copying returned a different object ({type(res).__name__})', site=name)
            continue
        # copy=True, or a converter that offers no in-place mode: the original is untouched ...
        d = snap_diff(before, snap(plain))
        if d:
            ctx.fail(case, f'original altered by a copying conversion: {d}', site=name)
        # ... and the result shares no mutable part with it
        if res is plain:
            ctx.fail(case, 'copying conversion returned the original object', site=name)
        elif copy is True and (isinstance(res, (Dataset, list)) or hasattr(res, '__iter__')):
            # only where a deep copy was asked for explicitly (converters without the parameter promise nothing about
            # sharing; the property speaks of modification only)
            shared = set(ids_before) & set(mutable_ids(res))
            if shared:
                k = sorted(shared)[0]
                ctx.fail(case, f'result of a copying conversion shares a mutable {ids_before[k]} with the original', site=name)


def _check_extractors(ctx, ds, origin, obs):
    """`extract_from_dataset` converters (no in-place mode): the data set they read from stays untouched and the result
    shares nothing mutable with it"""
    import highdicom as hd
    calls = [('PaletteColorLUTTransformation.extract_from_dataset', lambda d: hd.PaletteColorLUTTransformation.extract_from_dataset(d))]
    for color in ('red', 'green', 'blue'):
        calls.append(('PaletteColorLUT.extract_from_dataset', lambda d, c=color: hd.PaletteColorLUT.extract_from_dataset(d, c)))
    for name, f in calls:
        before = snap(ds)
        ids_before = mutable_ids(ds)
        case = {'converter': name, 'copy': None, 'origin': origin}
        try:
            res = f(ds)
        except Exception as e:  # noqa: BLE001
            ctx.case(converter=name, converter_outcome='refused:' + type(e).__name__)
            ctx.hist('converter_refusals', f'{name}: {type(e).__name__}: {str(e)[:80]}')
            continue
        ctx.case(nontrivial_key=('conv', name), converter=name, converter_outcome='ok')
        d = snap_diff(before, snap(ds))
        if d:
            ctx.fail(case, f'data set altered by an extracting conversion: {d}', site=name)
        if res is ds or set(ids_before) & set(mutable_ids(res)):
            ctx.fail(case, 'extract_from_dataset did not return a new object (it promises to)', site=name)
        obs.append((name, None, res is ds, snap(ds) != before, case))


def _objects(ctx):
    import logging
    import warnings
    logging.disable(logging.CRITICAL)
    warnings.simplefilter('ignore')
    built = []
    del _HISTORY[:]
    n = ctx.n(140, 2400)
    for idx in range(n):
        _run_subject(ctx, idx, built)
    # histories: every object built so far, looked at again after ALL later constructions (same and other classes, same and
    # other options, different identifiers) - before any converter is let loose on them
    with strict_validation():
        for case, name, obj, snap0, writable in _HISTORY:
            revalidate(ctx, case, name, obj, snap0, 'at the end of the history of constructions', writable)
    ctx.hist('history_revalidated', len(_HISTORY))
    from gen import objects as _objs
    for tname, cnt in sorted(_objs.NUM_TYPES.items()):
        ctx.hist('numeric_argument_type', f'{tname}:{"many" if cnt > 50 else "some"}')
    _objs.NUM_TYPES.clear()
    del _HISTORY[:]
    # converters on everything the constructors produced
    conv = _converter_classes()
    seen_per = {}
    obs = []
    import pydicom
    import highdicom as hd

    def defining(k, meth):
        for base in k.__mro__:
            if meth in base.__dict__ and base.__module__.startswith('highdicom'):
                return base
        return None

    def through(inst, via, origin, arg=None):
        """every converter the class `via` offers (own or inherited), applied to `inst`"""
        for meth in ('from_dataset', 'from_sequence'):
            d = defining(via, meth)
            if d is None or (d, meth) not in conv:
                continue
            if seen_per.get((d, meth, via), 0) >= ctx.n(3, 12) or \
                    sum(v for (dd, mm, _), v in seen_per.items() if (dd, mm) == (d, meth)) >= ctx.n(8, 60):
                continue
            seen_per[(d, meth, via)] = seen_per.get((d, meth, via), 0) + 1
            _check_converter(ctx, via, meth, conv[(d, meth)], inst if arg is None else arg, origin, obs, defining=d)

    for case, obj, blob in built:
        if blob is not None:
            # SOP-level converters on the file that was written (plain pydicom objects all the way down)
            plain = pydicom.dcmread(io.BytesIO(blob))
            through(obj, type(obj), case['subject'], arg=plain)
            if 'PixelData' in obj or 'FloatPixelData' in obj or 'DoubleFloatPixelData' in obj:
                through(obj, hd.Image, case['subject'], arg=plain)
            if 'RedPaletteColorLookupTableDescriptor' in obj:
                _check_extractors(ctx, plain, case['subject'], obs)
        acc = []
        _harvest(obj, acc)
        for inst in acc:
            if inst is obj:
                continue
            through(inst, type(inst), case['subject'])
    done = {(d, m) for (d, m, _) in seen_per}
    seen_per = {k: 1 for k in done}
    missing = sorted(f'{c.__module__.replace("highdicom.", "")}.{c.__qualname__}.{m}' for (c, m) in conv if (c, m) not in seen_per)
    ctx.note(f'converters exercised: {len(seen_per)} of {len(conv)}; not reached by any generated object: {missing}')
    ctx.hist('converters', 'exercised', len(seen_per))
    ctx.hist('converters', 'not-reached', len(missing))
    _seg_plane_helper(ctx, obs)
    _compare_alias_model(ctx, obs)
    logging.disable(logging.NOTSET)


def _seg_plane_helper(ctx, obs):
    """L2: the real `Segmentation._get_segment_pixel_array` on planes of every dtype / rank / segmentation type: does the
    result share memory with the argument, was the argument altered (the model predicts what is possible)."""
    import highdicom as hd
    from highdicom.seg import SegmentationTypeValues as ST
    f = getattr(hd.seg.Segmentation, '_get_segment_pixel_array', None)
    if f is None:
        ctx.note('L2 helper Segmentation._get_segment_pixel_array not found; skipped')
        return
    for i in range(ctx.n(200, 3000)):
        r = ctx.rng('plane', i)
        nr = ctx.np_rng('plane', i)
        dt = r.choice(['uint8', 'uint8', 'uint16', 'float32', 'float64', 'bool'])
        nseg = r.choice([1, 1, 2, 3])
        stacked = r.random() < 0.5
        styp = r.choice([ST.BINARY, ST.FRACTIONAL, ST.FRACTIONAL, ST.LABELMAP])
        if dt.startswith('float'):
            styp = ST.FRACTIONAL
        shape = (r.randint(1, 4), r.randint(1, 4)) + ((nseg,) if stacked else ())
        if dt.startswith('float'):
            a = (nr.integers(0, 5, size=shape) / 4.0).astype(dt)
        elif stacked:
            a = (nr.random(shape) < 0.5).astype(dt)
        else:
            a = nr.integers(0, nseg + 1, size=shape).astype(dt)
        out_dt = np.uint8 if styp != ST.LABELMAP else r.choice([np.uint8, np.uint16])
        mfv = r.choice([255, 255, 1, 100])
        seg_no = r.randint(1, nseg)
        before = a.copy()
        try:
            res = f(a, segment_number=seg_no, described_segment_numbers=np.arange(1, nseg + 1), segmentation_type=styp,
                    max_fractional_value=mfv, dtype=out_dt)
        except Exception as e:  # noqa: BLE001
            ctx.hist('plane_helper', 'refused:' + type(e).__name__)
            continue
        changed = not np.array_equal(before, a, equal_nan=True) if a.dtype.kind == 'f' else not np.array_equal(before, a)
        shares = bool(np.shares_memory(res, a))
        case = {'helper': '_get_segment_pixel_array', 'dtype': dt, 'stacked': stacked, 'nseg': nseg, 'type': styp.value,
                'mfv': mfv, 'out': np.dtype(out_dt).name, 'idx': i, 'layer': 'L2'}
        ctx.case(nontrivial_key=('plane', dt, stacked, nseg > 1, styp.value, mfv, np.dtype(out_dt).name),
                 plane_helper=f'{dt}/{"4d" if stacked else "3d"}/{styp.value}', plane_shares=shares)
        if changed:
            ctx.fail(case, 'the plane handed to _get_segment_pixel_array (a view of the caller\'s pixel_array) was altered',
                     site='seg/_get_segment_pixel_array')
        obs.append(('Segmentation._get_segment_pixel_array', None, res is a, changed, dict(case, shares=shares)))


def _compare_alias_model(ctx, obs):
    """observed (same object? argument altered?) must be among the behaviours the extracted program allows"""
    keys = sorted({(n, c) for n, c, *_ in obs}, key=repr)
    reqs = [('alias', {'name': n, **({'copy': c} if c is not None else {})}) for n, c in keys]
    ans = ctx.model(reqs)
    if ans is None:
        return
    pred = {}
    for k, a in zip(keys, ans):
        pred[k] = a.get('ok')
    unknown = set()
    for name, copy, same, altered, case in obs:
        es = pred.get((name, copy))
        if not es:
            unknown.add(name)
            continue
        layer = case.get('layer', 'L0')
        for e in es:
            if same and not e['same']:
                ctx.disagree(layer, case, 'returned the object it was given', e, 'alias model: same object not predicted')
            if not same and not (e['fresh'] or e['part']):
                ctx.disagree(layer, case, 'returned a different object', e, 'alias model: different object not predicted')
            if altered and not e['writes0']:
                ctx.disagree(layer, case, 'argument altered', e, 'alias model: write to the argument not predicted')
            if case.get('shares') and not (e['same'] or e['part']):
                ctx.disagree(layer, case, 'result shares memory with the argument', e, 'alias model: aliasing not predicted')
    if unknown:
        ctx.note(f'converters without an extracted program (inherited or renamed): {sorted(unknown)}')
    ctx.hist('alias_model', 'observations', len(obs))
    ctx.hist('alias_model', 'programs_compared', len([k for k in keys if pred.get(k)]))


def run(ctx):
    _extractor_corpus(ctx)
    _strings_and_uids(ctx)
    _objects(ctx)


def replay(ctx, case):
    """Re-run one stored case on the implementation; returns failure detail or None."""
    sub = type(ctx)(ctx.prop, ctx.tier, ctx.seed, 1, ctx.driver)
    sub.model_available = False
    if 'guard' in case:
        from highdicom import valuerep
        vrs = {'_check_code_string': 'CS', '_check_short_string': 'SH', '_check_long_string': 'LO',
               '_check_short_text': 'ST', '_check_long_text': 'LT'}
        f = getattr(valuerep, case['guard'])
        try:
            f(case['s'])
            if case['guard'] in vrs and not _vr_valid(vrs[case['guard']], case['s']):
                return [{'case': case, 'detail': f"accepted a value that is not a valid {vrs[case['guard']]}"}]
        except ValueError:
            return None
        return None
    if 'charset_witness' in case:
        msg = _charset_witness(case['charset_witness'])
        return [{'case': case, 'detail': msg}] if msg else None
    if 'subject' in case and 'idx' in case:
        _run_subject(sub, case['idx'])
        return sub.failures[:3] or None
    if 'converter' in case or 'helper' in case:
        # converter cases are found on objects harvested from the generated subjects: re-run that part and keep the
        # failures of the same converter / copy flag / argument kind
        _objects(sub)
        keep = [f for f in sub.failures if isinstance(f['case'], dict)
                and all(f['case'].get(k) == case.get(k) for k in ('converter', 'copy', 'typed_argument', 'helper'))]
        return keep[:3] or None
    if 'uuid_int' in case:
        import uuid
        import highdicom as hd
        n = int(case['uuid_int'])
        s = str(hd.UID.from_uuid(str(uuid.UUID(int=n))))
        if s != '2.25.' + str(n) or len(s) > 64 or not UID_RE.match(s):
            return [{'case': case, 'detail': f'from_uuid gave {s!r}'}]
        return None
    return None
