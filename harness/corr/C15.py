"""C15  SR documents carry their content intact with complete evidence.

Tie C: Model/SREvidence.lean (findContentItems, collectEvidence, createReferences, document constructors'
decision logic, get_evidence, KO document, from_segmentation reference builders) against the real classes on
the same generated (tree, evidence list, class, flags) / (segmentation, request) inputs.
Tie T: T15a (the two SCOORD3D guards of sr/sop.py and the verification guard of _SR.__init__), T15b (loop body and final
guard of collect_evidence as a decision over (already seen, referenced)), T15c-e (predicates of find_content_items, parsed root
attributes, enumerations), T15f / T15g (range guards, indices, loop body, merge and choices of the two from_segmentation builders)
and T15h (guards and recording tests of _SR.__init__): bridges proved in Proofs/SREvidenceTie.lean.
Round 2: Model/SRDocument.lean (constructSR: the constructors with every option; T15i), Model/SRTree.lean (arbitrary trees of
data sets through the conversion, the document data set and the parser; T15j, T15d), T15k (parse entry points, read-back
methods), T15l (key object selection document guards); streams `options` and `raw`.
Oracle (independent of the model): the evidence partition recomputed as Python set algebra from the
generator's *spec* of the tree (construction parameters) and the evidence list; the content tree compared by
canonical dataset form in memory and after write -> srread; segmentation references recomputed from the
frame table the generator kept.
"""
from __future__ import annotations

import copy
import io
import itertools

PROP = 'C15'
TARGETS = ['T15a', 'T15b', 'T15c', 'T15d', 'T15e', 'T15f', 'T15g', 'T15h', 'T15i', 'T15j', 'T15k', 'T15l']
LEAN_MODULES = ['HdVerif.Props.C15']
MODEL_MODULES = ['HdVerif.Model.SREvidence', 'HdVerif.Model.SRDocument', 'HdVerif.Model.SRTree']
NAMESPACE = 'HdVerif.C15'
DRIVER = 'Drivers/C15.lean'
RULE = ('one case = one (content tree, evidence list, document class, flags) construction (+ write/srread) or one '
        '(segmentation, segment/frame request) reference construction or one find_content_items query; non-trivial = '
        'accepted document with >= 1 referenced and >= 1 unreferenced supplied instance, or accepted segmentation '
        'reference; distinct by (class, record flag, #studies, #series, #referenced, #other, depth, duplicates) resp. '
        '(builder, request kind, #frames named, source layout); every coded name / CODE value / NUM unit / qualifier of a generated tree '
        'is drawn in one of 7 stored forms (plain, scheme version, long code value, URN code value, long / URN + version, context '
        'group attributes; histograms code_form, coded_*); a name query without a coding scheme version matches the code in any '
        'version, a query with a version only that version')
ASSUMPTIONS = [
    'deepcopy and pydicom file write/read reproduce a content item data set attribute for attribute (checked per case '
    'by the canonical-form comparison of the oracle; not modelled)',
    'dict/set iteration order = insertion order (CPython >= 3.7); the model groups in first-occurrence order',
    'per-item value validation (C13) is outside this model: generated items are valid',
    'a root container without a ContentSequence attribute is refused with AttributeError (modelled quirk; oracle neutral)',
    'institutional_department_name without institution_name is dropped silently (behaviour of the code, modelled by constructSR via '
    'Gen.srInstitutionStored; the oracle only demands that no department is recorded when none was given and that it is the one '
    'given when both are)',
    'raw stream: the value of an attribute is opaque to the model (a digest); data sets are plain pydicom objects, as a third '
    "party's reader hands them over (a highdicom ContentSequence cannot even be deep-copied once an item lost its concept name); "
    'foreign attributes (optional standard ones, nested inside value sequences, context group attributes, private elements) are '
    'planted on 60 % of the trees; private elements only below the root (on the root they become attributes of the document)',
    'an item of value type IMAGE / COMPOSITE / SCOORD / SCOORD3D / TCOORD / WAVEFORM may lack its concept name (type 1C): the '
    'document then carries the name (260753009, SCT, Source) the parsers store, and searches treat the item as carrying it',
]
MODELLED_NOT_VERIFIED = ['pydicom Dataset deepcopy / equality', 'pydicom dcmwrite / dcmread', 'SOPClass.__init__ attribute checks',
                         'ContentItem._from_dataset_derived (C13)']

SR_CLASSES = ['EnhancedSR', 'ComprehensiveSR', 'Comprehensive3DSR']


# ------------------------------------------------------------------ helpers
def canon(ds):
    """Canonical nested form of a data set: sorted (tag, VR, value) with sequences recursed."""
    out = []
    for elem in sorted(ds, key=lambda e: int(e.tag)):
        if elem.VR == 'SQ':
            val = [canon(i) for i in (elem.value or [])]
        else:
            v = elem.value
            if isinstance(v, (list, tuple)) or type(v).__name__ == 'MultiValue':
                val = [str(x) for x in v]
            elif isinstance(v, bytes):
                val = v.hex()
            else:
                val = str(v)
        out.append((int(elem.tag), val))
    return out


def _err_kind(e):
    return {'IndexError': 'index', 'ValueError': 'value', 'TypeError': 'type', 'RuntimeError': 'runtime',
            'KeyError': 'key', 'AttributeError': 'attribute'}.get(type(e).__name__, 'other')


def _call(fn, *a, **k):
    try:
        return ('ok', fn(*a, **k))
    except Exception as e:  # noqa: BLE001
        return ('err', _err_kind(e), f'{type(e).__name__}: {e}'[:200])


def flatten_seq(seq):
    """Evidence sequence (pydicom) -> nested plain structure [(study, [(series, [(cls, inst)])])]"""
    out = []
    for st in seq:
        ser = []
        for se in st.ReferencedSeriesSequence:
            ser.append((str(se.SeriesInstanceUID),
                        [(str(i.ReferencedSOPClassUID), str(i.ReferencedSOPInstanceUID)) for i in se.ReferencedSOPSequence]))
        out.append((str(st.StudyInstanceUID), ser))
    return out


def rows_of(nested):
    return [(st, se, inst, cls) for st, ser in nested for se, ins in ser for cls, inst in ins]


def spec_to_model(spec, versionless=False):
    """versionless: names as (value, designator) only - what a name query WITHOUT a coding scheme version is compared with
    (it matches the code in any version; the model compares names as opaque strings)"""
    return {'id': spec['id'], 'vt': spec['vt'], 'name': '|'.join(spec['name'][:2] if versionless else spec['name']), 'rel': spec['rel'],
            'ref': list(spec['ref']) if spec['ref'] else None, 'has_seq': spec['has_seq'],
            'children': [spec_to_model(c, versionless) for c in spec['children']]}


def evd_to_model(evd):
    return [{'study': str(e.StudyInstanceUID), 'series': str(e.SeriesInstanceUID), 'inst': str(e.SOPInstanceUID),
             'cls': str(e.SOPClassUID)} for e in evd]


def nested_to_json(nested):
    return [[st, [[se, [[c, i] for c, i in ins]] for se, ins in ser]] for st, ser in nested]


# ------------------------------------------------------------------ documents
def _doc_case(ctx, idx):
    """Generate one document construction case (pure function of seed, idx)."""
    from gen import srdocs
    r = ctx.rng('doc', idx)
    pool = srdocs.instance_pool(r)
    cls = r.choice(SR_CLASSES)
    scoord3d = r.random() < 0.4
    foreign = r.choice([0.0, 0.0, 0.0, 0.15])
    depth = r.choice([0, 1, 2, 2, 3, 3, 4, 5])
    allow_empty_root = r.random() < 0.04
    root, spec = srdocs.content_tree(r, pool, depth=depth, scoord3d=scoord3d, foreign=foreign,
                                     allow_empty_root=allow_empty_root,
                                     scoord3d_weight=r.choice([1, 1, 2]), code_rng=ctx.rng('codes', idx))
    root_kind = r.choice(['container'] * 30 + ['related', 'text'])
    if root_kind == 'related':
        # a root item that claims a relationship with a parent
        root.RelationshipType = 'CONTAINS'
        spec['rel'] = 'CONTAINS'
    elif root_kind == 'text':
        import highdicom as hd
        from pydicom.sr.codedict import codes
        root = hd.sr.TextContentItem(name=codes.DCM.Finding, value='not a container')
        spec = {'id': 1, 'vt': 'TEXT', 'name': ('121071', 'DCM'), 'rel': None, 'ref': None, 'has_seq': False, 'children': []}
    malformed = None
    if root_kind == 'container' and r.random() < 0.08:
        # a raw data set below the root that is no content item: relationship type removed / value type outside the enumeration
        # (at any depth, also below non-container items)
        pairs_ = []

        def collect(item, sp):
            for ch, cs in zip(item.ContentSequence if sp['has_seq'] else [], sp['children']):
                pairs_.append((ch, cs))
                collect(ch, cs)
        collect(root, spec)
        if pairs_:
            ch, cs = r.choice(pairs_)
            if r.random() < 0.5:
                del ch.RelationshipType
                cs['rel'] = None
                malformed = 'descendant-without-relationship'
            else:
                ch.ValueType = 'BOGUS'
                cs['vt'] = 'BOGUS'
                malformed = 'unknown-value-type'
    refs = srdocs.referenced(spec)
    evidence, mode = srdocs.evidence_list(r, pool, refs)
    if r.random() < 0.03:
        evidence, mode = [], 'empty'
    flags = {
        'record_evidence': r.random() < 0.6,
        'is_complete': r.random() < 0.5,
        'is_final': r.random() < 0.5,
        'is_verified': r.random() < 0.35,
        'observer': ('Smith^John' if r.random() < 0.85 else None),
        'organization': ('Org' if r.random() < 0.85 else None),
    }
    prev = None
    if r.random() < 0.3:
        prev = []
        base = srdocs.uid(r, 'prev')
        for k in range(r.randint(1, 3)):
            prev.append(srdocs.evidence_dataset(f'{base}.{r.randint(1, 2)}', f'{base}.9.{r.randint(1, 2)}', f'{base}.9.9.{k}',
                                                '1.2.840.10008.5.1.4.1.1.88.33', modality='SR', image=False))
    as_seq = r.choice([0] * 14 + [1] * 5 + [2])   # 0 data set, 1 sequence of one, 2 sequence of two
    return {'idx': idx, 'pool': pool, 'cls': cls, 'root': root, 'spec': spec, 'refs': refs, 'evidence': evidence,
            'mode': mode, 'flags': flags, 'prev': prev, 'as_seq': as_seq, 'depth': depth, 'root_kind': root_kind,
            'malformed': malformed, 'options': _draw_options(ctx.rng('options', idx))}


# every optional argument of the document constructors that is not one of the `flags` (JSON-serialisable description; the
# objects are built in `_option_kwargs`).  Drawn from a PRNG stream of its own: trees and evidence lists are unchanged.
DEFAULT_OPTIONS = {'institution': None, 'department': None, 'procedure_codes': None, 'requested': None, 'observer_form': 'str',
                   'manufacturer': 'verif', 'transfer_syntax': 'explicit'}
PROCEDURE_CODES = [('P5-09051', 'SRT', 'Magnetic resonance imaging guided biopsy'), ('77477000', 'SCT', 'CT'),
                   ('PROC-3', '99VERIF', 'third procedure')]


def _draw_options(r):
    return {'institution': r.choice([None, None, 'Verif Hospital']), 'department': r.choice([None, None, 'Radiology']),
            'procedure_codes': r.choice([None, None, 0, 1, 2, 3]), 'requested': r.choice([None, None, None, 1, 2]),
            'observer_form': r.choice(['str', 'str', 'PersonName']), 'manufacturer': r.choice(['verif', 'verif', None]),
            'transfer_syntax': r.choice(['explicit', 'explicit', 'implicit'])}


def _option_kwargs(o):
    """keyword arguments of the constructor for an options description"""
    import pydicom
    from pydicom.sr.coding import Code
    import highdicom as hd
    kw = {'manufacturer': o['manufacturer'], 'institution_name': o['institution'], 'institutional_department_name': o['department']}
    if o['procedure_codes'] is not None:
        # Code and CodedConcept alternate (both are accepted spellings)
        kw['performed_procedure_codes'] = [
            (Code(*PROCEDURE_CODES[k]) if k % 2 == 0 else hd.sr.CodedConcept(*PROCEDURE_CODES[k]))
            for k in range(o['procedure_codes'])]
    if o['requested'] is not None:
        items = []
        for k in range(o['requested']):
            it = pydicom.Dataset()
            it.StudyInstanceUID = f'1.2.826.0.1.3680043.8.498.77.{k + 1}'
            it.AccessionNumber = f'ACC{k}'
            it.RequestedProcedureID = f'RP{k}'
            it.RequestedProcedureDescription = f'procedure {k}'
            it.RequestedProcedureCodeSequence = []
            it.PlacerOrderNumberImagingServiceRequest = ''
            it.FillerOrderNumberImagingServiceRequest = ''
            it.ReferencedStudySequence = []
            items.append(it)
        kw['requested_procedures'] = items
    kw['transfer_syntax_uid'] = {'explicit': '1.2.840.10008.1.2.1', 'implicit': '1.2.840.10008.1.2',
                                 'jpeg': '1.2.840.10008.1.2.4.50'}[o['transfer_syntax']]
    return kw


def _check_options(ctx, case, ds, c, where):
    """every option of the constructor shows in the data set exactly as given and nowhere else (read through pydicom only):
    flags, verifying observer, institution, performed procedure codes, requested procedures"""
    f = c['flags']
    o = c.get('options') or DEFAULT_OPTIONS
    probs = []
    if ds.VerificationFlag != ('VERIFIED' if f['is_verified'] else 'UNVERIFIED'):
        probs.append('VerificationFlag does not reflect is_verified')
    if f['is_verified']:
        vs = ds.get('VerifyingObserverSequence', [])
        if len(vs) != 1 or str(vs[0].VerifyingObserverName) != f['observer'] or vs[0].VerifyingOrganization != f['organization']:
            probs.append('verifying observer details not recorded as given: ' +
                         repr([(str(v.get('VerifyingObserverName')), v.get('VerifyingOrganization')) for v in vs]))
        elif 'VerificationDateTime' not in vs[0] or 'VerifyingObserverIdentificationCodeSequence' not in vs[0]:
            probs.append('verifying observer item lacks VerificationDateTime / identification code sequence')
    elif 'VerifyingObserverSequence' in ds:
        probs.append('verifying observer recorded for an unverified document')
    if ds.CompletionFlag != ('COMPLETE' if f['is_complete'] else 'PARTIAL'):
        probs.append('CompletionFlag does not reflect is_complete')
    if ds.PreliminaryFlag != ('FINAL' if f['is_final'] else 'PRELIMINARY'):
        probs.append('PreliminaryFlag does not reflect is_final')
    if o['institution'] is not None:
        if ds.get('InstitutionName') != o['institution']:
            probs.append(f'InstitutionName {ds.get("InstitutionName")!r} is not the institution given')
        if o['department'] is not None and ds.get('InstitutionalDepartmentName') != o['department']:
            probs.append('InstitutionalDepartmentName is not the department given')
    elif 'InstitutionName' in ds:
        probs.append('InstitutionName recorded though none given')
    if o['department'] is None and 'InstitutionalDepartmentName' in ds:
        probs.append('InstitutionalDepartmentName recorded though none given')
    got = [(str(x.CodeValue), str(x.CodingSchemeDesignator), str(x.CodeMeaning)) for x in ds.get('PerformedProcedureCodeSequence', [])]
    want = [PROCEDURE_CODES[k] for k in range(o['procedure_codes'] or 0)]
    if got != want or 'PerformedProcedureCodeSequence' not in ds:
        probs.append(f'performed procedure codes {got} are not the codes given {want}')
    if o['requested'] is not None:
        given = _option_kwargs(o)['requested_procedures']
        if [canon(x) for x in ds.get('ReferencedRequestSequence', [])] != [canon(x) for x in given]:
            probs.append('ReferencedRequestSequence is not the requested procedures given')
    elif 'ReferencedRequestSequence' in ds:
        probs.append('requested procedures recorded though none given')
    if o['manufacturer'] is not None and ds.get('Manufacturer') != o['manufacturer']:
        probs.append('Manufacturer is not the manufacturer given')
    if probs:
        ctx.fail(case, {'what': f'options of the constructor are not reflected in {where}', 'problems': probs[:4],
                        'flags': f, 'options': o}, site='sr.flags')


def _placement_cases(ctx):
    """Systematic placements: ONE special item (a reference without evidence, a COMPOSITE reference with evidence, a
    SCOORD3D item) at depth 1..4 below a chain of containers, directly or below a SCOORD / NUM item, for every class:
    'at any depth' enumerated instead of sampled."""
    import highdicom as hd
    import numpy as np
    from pydicom.sr.codedict import codes
    from gen import srdocs
    sr = hd.sr
    out = []
    idx = 0
    for depth in (1, 2, 3, 4):
        for parent in ('container', 'scoord', 'num'):
            for special in ('foreign-image', 'composite', 'scoord3d'):
                for cls in SR_CLASSES:
                    r = ctx.rng('placement', idx)
                    pool = srdocs.instance_pool(r, max_studies=2)
                    ids = srdocs._Ids()

                    def cspec(vt, rel, ref=None):
                        return {'id': ids.next(), 'vt': vt, 'name': ('121071', 'DCM'), 'rel': rel, 'ref': ref, 'has_seq': False,
                                'children': []}
                    name = sr.CodedConcept(value='121071', scheme_designator='DCM', meaning='Finding')
                    root = sr.ContainerContentItem(name=name)
                    rspec = cspec('CONTAINER', None)
                    rspec['attrs'] = ['ValueType', 'ConceptNameCodeSequence', 'ContinuityOfContent']
                    cur, curspec = root, rspec
                    for _ in range(depth - 1):
                        nxt = sr.ContainerContentItem(name=name, relationship_type='CONTAINS')
                        ns = cspec('CONTAINER', 'CONTAINS')
                        cur.ContentSequence = sr.ContentSequence([nxt])
                        curspec['has_seq'] = True
                        curspec['children'] = [ns]
                        cur, curspec = nxt, ns
                    if parent == 'scoord':
                        p_ = sr.ScoordContentItem(name=name, graphic_type='POINT', graphic_data=np.array([[1.0, 1.0]]),
                                                  relationship_type='CONTAINS')
                        ps = cspec('SCOORD', 'CONTAINS')
                    elif parent == 'num':
                        p_ = sr.NumContentItem(name=name, value=1.5, unit=codes.UCUM.Millimeter, relationship_type='CONTAINS')
                        ps = cspec('NUM', 'CONTAINS')
                    else:
                        p_ = None
                    if p_ is not None:
                        cur.ContentSequence = sr.ContentSequence([p_])
                        curspec['has_seq'] = True
                        curspec['children'] = [ps]
                        cur, curspec = p_, ps
                    rel = 'CONTAINS' if parent == 'container' else 'INFERRED FROM' if parent == 'num' else 'SELECTED FROM'
                    if special == 'foreign-image':
                        ref = (srdocs.CLASSES['CT'], srdocs.uid(r, 'foreign'))
                        it = sr.ImageContentItem(name=name, referenced_sop_class_uid=ref[0], referenced_sop_instance_uid=ref[1],
                                                 relationship_type=rel)
                        ss = cspec('IMAGE', rel, ref)
                    elif special == 'composite':
                        p0 = pool[0]
                        ref = (p0['cls'], p0['inst'])
                        it = sr.CompositeContentItem(name=name, referenced_sop_class_uid=ref[0], referenced_sop_instance_uid=ref[1],
                                                     relationship_type=rel)
                        ss = cspec('COMPOSITE', rel, ref)
                    else:
                        it = sr.Scoord3DContentItem(name=name, graphic_type='POINT', graphic_data=np.array([[1.0, 2.0, 3.0]]),
                                                    frame_of_reference_uid=srdocs.uid(r, 'for'), relationship_type=rel)
                        ss = cspec('SCOORD3D', rel)
                    cur.ContentSequence = sr.ContentSequence([it])
                    curspec['has_seq'] = True
                    curspec['children'] = [ss]
                    out.append({'idx': 100000 + idx, 'pool': pool, 'cls': cls, 'root': root, 'spec': rspec,
                                'refs': srdocs.referenced(rspec), 'evidence': [p['ds'] for p in pool], 'mode': 'all',
                                'flags': {'record_evidence': True, 'is_complete': False, 'is_final': False, 'is_verified': False,
                                          'observer': None, 'organization': None},
                                'prev': None, 'as_seq': 0, 'depth': depth, 'root_kind': 'container',
                                'placement': (depth, parent, special)})
                    idx += 1
    return out


def _coded_cases(ctx):
    """Systematic code forms: every coded name of the document, and below a chain of containers (depth 1..4), directly or below
    a NUM / CODE item, one CODE item (coded value) and one NUM item (coded unit and qualifier) in ONE of the non-plain
    CODE_FORMS (scheme version, long code value, URN code value, both, context group attributes); document classes in turn."""
    import highdicom as hd
    from gen import srdocs
    sr = hd.sr
    out = []
    idx = 0
    for depth in (1, 2, 3, 4):
        for parent in ('container', 'num', 'code'):
            for form in srdocs.CODE_FORMS[1:]:
                cr = ctx.rng('coded', idx)
                pool = srdocs.instance_pool(cr, max_studies=2)
                ids = srdocs._Ids()

                def mk(base, role, rec, f=form):
                    c_, stored, f_ = srdocs.coded(cr, base, form=f)
                    rec.append((role, f_, stored))
                    return c_, stored

                def named(vt, rel):
                    rec = []
                    c_, stored = mk(('121071', 'DCM', 'Finding'), 'name', rec)
                    nm = (stored.get('CodeValue') or stored.get('LongCodeValue') or stored.get('URNCodeValue'),
                          stored['CodingSchemeDesignator']) + ((stored['CodingSchemeVersion'],) if 'CodingSchemeVersion' in stored else ())
                    return c_, {'id': ids.next(), 'vt': vt, 'name': nm, 'rel': rel, 'ref': None, 'has_seq': False, 'children': [],
                                'codes': rec}

                def under(item, spec_, kids):
                    item.ContentSequence = sr.ContentSequence([k for k, _ in kids])
                    spec_['has_seq'] = True
                    spec_['children'] = [ks for _, ks in kids]
                nm_, rspec = named('CONTAINER', None)
                root = sr.ContainerContentItem(name=nm_)
                rspec['attrs'] = ['ValueType', 'ConceptNameCodeSequence', 'ContinuityOfContent']
                cur, curspec = root, rspec
                for _ in range(depth - 1):
                    nm_, ns = named('CONTAINER', 'CONTAINS')
                    nxt = sr.ContainerContentItem(name=nm_, relationship_type='CONTAINS')
                    under(cur, curspec, [(nxt, ns)])
                    cur, curspec = nxt, ns
                if parent != 'container':
                    nm_, ps = named('NUM' if parent == 'num' else 'CODE', 'CONTAINS')
                    if parent == 'num':
                        u_, _ = mk(('mm', 'UCUM', 'millimeter'), 'unit', ps['codes'], f='plain')
                        p_ = sr.NumContentItem(name=nm_, value=1.5, unit=u_, relationship_type='CONTAINS')
                    else:
                        v_, _ = mk(('10200004', 'SCT', 'Liver'), 'value', ps['codes'], f='plain')
                        p_ = sr.CodeContentItem(name=nm_, value=v_, relationship_type='CONTAINS')
                    under(cur, curspec, [(p_, ps)])
                    cur, curspec = p_, ps
                rel = 'CONTAINS' if parent == 'container' else 'HAS PROPERTIES'
                nm_, cs = named('CODE', rel)
                v_, _ = mk(('64033007', 'SCT', 'Kidney'), 'value', cs['codes'])
                code_item = sr.CodeContentItem(name=nm_, value=v_, relationship_type=rel)
                nm_, nsp = named('NUM', rel)
                u_, _ = mk(('cm', 'UCUM', 'centimeter'), 'unit', nsp['codes'])
                q_, _ = mk(('114006', 'DCM', 'Measurement failure'), 'qualifier', nsp['codes'])
                num_item = sr.NumContentItem(name=nm_, value=-2.25, unit=u_, qualifier=q_, relationship_type=rel)
                under(cur, curspec, [(code_item, cs), (num_item, nsp)])
                out.append({'idx': 200000 + idx, 'pool': pool, 'cls': SR_CLASSES[idx % 3], 'root': root, 'spec': rspec,
                            'refs': [], 'evidence': [p['ds'] for p in pool], 'mode': 'all',
                            'flags': {'record_evidence': True, 'is_complete': False, 'is_final': False, 'is_verified': False,
                                      'observer': None, 'organization': None},
                            'prev': None, 'as_seq': 0, 'depth': depth, 'root_kind': 'container',
                            'coded': (depth, parent, form)})
                idx += 1
    return out


def _option_cases(ctx):
    """Systematic options: the full product is_verified x observer {none, str, PersonName} x organization x institution x
    department x is_complete x is_final x performed procedure codes {none, [], 2 codes} on a small fixed tree (a container with
    a TEXT and an IMAGE item), for every document class (quick tier: the classes in turn).  'Verification details are demanded
    when a document is marked verified' whatever else is passed; every option shows in the data set as given."""
    import highdicom as hd
    from gen import srdocs
    sr = hd.sr
    out = []
    idx = 0
    dims = itertools.product((False, True), (None, 'str', 'PersonName'), (None, 'Org'), (None, 'Verif Hospital'),
                             (None, 'Radiology'), (False, True), (False, True), (None, 0, 2))
    for verified, obs, org, inst, dept, complete, final, codes_ in dims:
        for k, cls in enumerate(SR_CLASSES):
            if ctx.tier == 'quick' and not ctx.search_mode and idx % 3 != k:
                continue
            r = ctx.rng('optcase', idx * 3 + k)
            pool = srdocs.instance_pool(r, max_studies=1)
            ids = srdocs._Ids()
            name = sr.CodedConcept(value='121071', scheme_designator='DCM', meaning='Finding')

            def cspec(vt, rel, ref=None):
                return {'id': ids.next(), 'vt': vt, 'name': ('121071', 'DCM'), 'rel': rel, 'ref': ref, 'has_seq': False, 'children': []}
            root = sr.ContainerContentItem(name=name)
            rspec = cspec('CONTAINER', None)
            rspec['attrs'] = ['ValueType', 'ConceptNameCodeSequence', 'ContinuityOfContent']
            p0 = pool[0]
            kids = [(sr.TextContentItem(name=name, value='t', relationship_type='CONTAINS'), cspec('TEXT', 'CONTAINS')),
                    (sr.ImageContentItem(name=name, referenced_sop_class_uid=p0['cls'], referenced_sop_instance_uid=p0['inst'],
                                         relationship_type='CONTAINS'), cspec('IMAGE', 'CONTAINS', (p0['cls'], p0['inst'])))]
            root.ContentSequence = sr.ContentSequence([a for a, _ in kids])
            rspec['has_seq'] = True
            rspec['children'] = [b for _, b in kids]
            out.append({'idx': 300000 + idx * 3 + k, 'pool': pool, 'cls': cls, 'root': root, 'spec': rspec,
                        'refs': srdocs.referenced(rspec), 'evidence': [p['ds'] for p in pool], 'mode': 'all',
                        'flags': {'record_evidence': True, 'is_complete': complete, 'is_final': final, 'is_verified': verified,
                                  'observer': None if obs is None else 'Smith^John', 'organization': org},
                        'options': dict(DEFAULT_OPTIONS, institution=inst, department=dept, procedure_codes=codes_,
                                        observer_form=obs or 'str', requested=(1 if idx % 5 == 0 else None),
                                        transfer_syntax=('implicit' if idx % 7 == 0 else 'explicit')),
                        'prev': None, 'as_seq': 0, 'depth': 1, 'root_kind': 'container', 'light': idx % 8 != 0,
                        'option_case': (verified, obs, org, inst, dept, complete, final, codes_)})
        idx += 1
    return out


def _expected(c):
    """Oracle over construction parameters: reasons the constructor must refuse, and the expected partition."""
    from gen import srdocs
    spec = c['spec']
    reasons = []
    if not c['evidence']:
        reasons.append('no-evidence')
    if c['flags']['is_verified'] and (c['flags']['observer'] is None or c['flags']['organization'] is None):
        reasons.append('verified-without-details')
    if c['as_seq'] == 2:
        reasons.append('two-roots')
    if c['root_kind'] != 'container':
        reasons.append('root-' + c['root_kind'])
    if c.get('malformed'):
        reasons.append(c['malformed'])
    first = {}
    for e in c['evidence']:
        first.setdefault(str(e.SOPInstanceUID), (str(e.StudyInstanceUID), str(e.SeriesInstanceUID),
                                                 str(e.SOPInstanceUID), str(e.SOPClassUID)))
    ref_uids = {i for _, i in c['refs']}
    if not ref_uids <= set(first):
        reasons.append('reference-without-evidence')
    if c['cls'] != 'Comprehensive3DSR' and any(s['vt'] == 'SCOORD3D' for s in srdocs.descendants(spec)):
        reasons.append('scoord3d')
    neutral = not spec['has_seq']            # root without ContentSequence: documented AttributeError of the search
    current = {first[u] for u in ref_uids if u in first}
    other = {row for u, row in first.items() if u not in ref_uids}
    return reasons, neutral, current, other


def _build(c):
    import highdicom as hd
    from pydicom.sequence import Sequence
    K = getattr(hd.sr, c['cls'])
    content = c['root']
    if c['as_seq'] == 1:
        content = Sequence([c['root']])
    elif c['as_seq'] == 2:
        content = Sequence([c['root'], copy.deepcopy(c['root'])])
    f = c['flags']
    o = c.get('options') or DEFAULT_OPTIONS
    observer = f['observer']
    if observer is not None and o['observer_form'] == 'PersonName':
        from pydicom.valuerep import PersonName
        observer = PersonName(observer)
    return K(evidence=c['evidence'], content=content, series_instance_uid='1.2.826.0.1.3680043.8.498.1',
             series_number=1, sop_instance_uid='1.2.826.0.1.3680043.8.498.1.1', instance_number=1,
             is_complete=f['is_complete'], is_final=f['is_final'], is_verified=f['is_verified'],
             verifying_observer_name=observer, verifying_organization=f['organization'],
             previous_versions=c['prev'], record_evidence=f['record_evidence'], **_option_kwargs(o))


def _check_partition(ctx, case, site, cur_nested, oth_nested, current, other, record):
    """The set-algebra statement of the property on the evidence sequences actually present."""
    ok = True
    cur_rows, oth_rows = rows_of(cur_nested), rows_of(oth_nested)
    for nm, nested in (('current', cur_nested), ('other', oth_nested)):
        studies = [st for st, _ in nested]
        if len(set(studies)) != len(studies):
            ctx.fail(case, f'{nm} evidence lists a study more than once: {studies}', site=site)
            ok = False
        for st, ser in nested:
            sers = [se for se, _ in ser]
            if len(set(sers)) != len(sers):
                ctx.fail(case, f'{nm} evidence lists a series more than once under study {st}', site=site)
                ok = False
            if not ser or any(not ins for _, ins in ser):
                ctx.fail(case, f'{nm} evidence has an empty study/series item', site=site)
                ok = False
    if sorted(cur_rows) != sorted(current):
        ctx.fail(case, {'what': 'current-procedure evidence is not exactly the referenced supplied instances, once each, '
                                'under their own study/series',
                        'got': sorted(cur_rows), 'want': sorted(current)}, site=site)
        ok = False
    want_other = sorted(other) if record else []
    if sorted(oth_rows) != want_other:
        ctx.fail(case, {'what': 'other evidence is not exactly the remaining supplied instances (iff recording)',
                        'got': sorted(oth_rows), 'want': want_other, 'record': record}, site=site)
        ok = False
    return ok


def _walk_real(item, spec, out, path='0'):
    """parallel walk of the real tree and the spec; collects mismatches of vt/name/rel/ref/children and id()->spec id"""
    probs = []
    out[id(item)] = spec['id']
    vt = str(getattr(item, 'ValueType', None))
    if vt != spec['vt']:
        probs.append(f'{path}: value type {vt} != {spec["vt"]}')
    try:
        nm = item.ConceptNameCodeSequence[0]
        got_nm = tuple(str(nm[k].value) for k in ('CodeValue', 'LongCodeValue', 'URNCodeValue') if k in nm) + \
            (str(nm.CodingSchemeDesignator),) + ((str(nm.CodingSchemeVersion),) if 'CodingSchemeVersion' in nm else ())
        if got_nm != tuple(spec['name']):
            probs.append(f'{path}: name {got_nm} != {tuple(spec["name"])}')
    except Exception as e:  # noqa: BLE001
        probs.append(f'{path}: name unreadable {e}')
    rel = item.get('RelationshipType', None)
    if (None if rel is None else str(rel)) != spec['rel']:
        probs.append(f'{path}: relationship {rel} != {spec["rel"]}')
    if spec['ref'] is not None:
        try:
            s = item.ReferencedSOPSequence[0]
            if (str(s.ReferencedSOPClassUID), str(s.ReferencedSOPInstanceUID)) != tuple(spec['ref']):
                probs.append(f'{path}: reference')
        except Exception as e:  # noqa: BLE001
            probs.append(f'{path}: reference unreadable {e}')
    has = 'ContentSequence' in item
    if has != spec['has_seq']:
        probs.append(f'{path}: ContentSequence presence {has} != {spec["has_seq"]}')
    kids = list(item.ContentSequence) if has else []
    if len(kids) != len(spec['children']):
        probs.append(f'{path}: {len(kids)} children != {len(spec["children"])}')
    else:
        for k, (ch, cs) in enumerate(zip(kids, spec['children'])):
            probs += _walk_real(ch, cs, out, f'{path}.{k}')
    return probs


_CODE_AT = {'name': lambda it: it.ConceptNameCodeSequence, 'value': lambda it: it.ConceptCodeSequence,
            'unit': lambda it: it.MeasuredValueSequence[0].MeasurementUnitsCodeSequence,
            'qualifier': lambda it: it.NumericValueQualifierCodeSequence}


def _walk_codes(item, spec, path='0'):
    """Attribute by attribute: every code sequence item the generator constructed (coded name, CODE value, NUM unit, NUM
    qualifier; spec['codes'] = the construction parameters) must be stored with exactly those attributes: code value in the
    attribute it was given in (CodeValue / LongCodeValue / URNCodeValue), designator, meaning, scheme version, context group
    attributes - nothing lost, nothing added.  Read through pydicom only.  Returns the list of differences."""
    probs = []
    for role, form, stored in spec.get('codes', ()):
        try:
            seq = _CODE_AT[role](item)
            got = [{e.keyword: str(e.value) for e in x} for x in seq]
        except Exception as e:  # noqa: BLE001
            probs.append(f'{path}: coded {role} ({form}) unreadable: {type(e).__name__}: {e}'[:160])
            continue
        if got != [stored]:
            lost = sorted(set(stored) - set(got[0])) if len(got) == 1 else None
            probs.append({'item': path, 'value_type': spec['vt'], 'role': role, 'form': form, 'lost': lost, 'stored': got, 'given': stored})
    kids = list(item.ContentSequence) if 'ContentSequence' in item else []
    if len(kids) == len(spec['children']):
        for k, (ch, cs) in enumerate(zip(kids, spec['children'])):
            probs += _walk_codes(ch, cs, f'{path}.{k}')
    return probs


_ROOT_KW = ('ValueType', 'ConceptNameCodeSequence', 'ContinuityOfContent', 'ContentTemplateSequence', 'ContentSequence',
            'ObservationDateTime', 'ObservationUID')


def _root_part(ds):
    """the content-tree attributes of a document data set as a data set of their own (pydicom only)"""
    import pydicom
    out = pydicom.Dataset()
    for kw in _ROOT_KW:
        if kw in ds:
            out[kw] = ds[kw]
    return out


def _check_doc(ctx, c, reqs, pending):
    import highdicom as hd
    import pydicom
    from gen import srdocs
    spec = c['spec']
    case = {'stream': 'doc', 'seed': ctx.seed, 'idx': c['idx'], 'cls': c['cls'], 'mode': c['mode'], 'flags': c['flags'], 'as_seq': c['as_seq']}
    reasons, neutral, current, other = _expected(c)
    before = canon(c['root'])
    gp = _walk_codes(c['root'], spec)
    if gp:
        ctx.fail(case, {'what': 'a content item does not store the code it was constructed with, attribute for attribute',
                        'differences': gp[:4]}, site='sr.item/codes')
    res = _call(_build, c)
    ok = res[0] == 'ok'
    n_ref, n_oth = len(current), len(other)
    nontriv = None
    if ok and n_ref and n_oth:
        nontriv = (c['cls'], c['flags']['record_evidence'], len({r[0] for r in current | other}),
                   len({r[1] for r in current | other}), n_ref, n_oth, c['depth'], 'dup' in c['mode'])
    ctx.case(sample=case if c['idx'] % 41 == 0 else None, nontrivial_key=nontriv, cls=c['cls'], evidence_mode=c['mode'],
             outcome=('ok' if ok else res[2].split(':')[0]), refusal=('+'.join(reasons) or ('neutral' if neutral else 'none')),
             depth=c['depth'], n_items=min(sum(1 for _ in srdocs.walk(spec)), 40), n_referenced=min(n_ref, 12),
             n_other=min(n_oth, 12), record=c['flags']['record_evidence'], verified=c['flags']['is_verified'],
             studies=len({p['study'] for p in c['pool']}), as_seq=c['as_seq'], root=c['root_kind'])
    o_ = c.get('options') or DEFAULT_OPTIONS
    for k_, v_ in (('opt_institution', f'{o_["institution"] is not None}/{o_["department"] is not None}'),
                   ('opt_procedure_codes', o_['procedure_codes']), ('opt_requested', o_['requested']),
                   ('opt_observer', o_['observer_form'] if c['flags']['observer'] is not None else 'none'),
                   ('opt_transfer_syntax', o_['transfer_syntax']), ('opt_manufacturer', o_['manufacturer'] is not None)):
        ctx.hist(k_, v_)
    if ok:
        def forms(sp, d):
            for role, form, _ in sp.get('codes', ()):
                if form != 'plain':
                    ctx.hist('coded_' + role, f'{form}@depth{min(d, 5)}')
                ctx.hist('code_form', form)
            for ch in sp['children']:
                forms(ch, d + 1)
        forms(spec, 0)
    # ---- model request (L0: ok-vs-error, evidence sequences, get_evidence)
    f = c['flags']
    o = c.get('options') or DEFAULT_OPTIONS
    reqs.append(('constructSR', {'cls': c['cls'], 'tree': spec_to_model(spec), 'evidence': evd_to_model(c['evidence']),
                                 'record': f['record_evidence'], 'verified': f['is_verified'],
                                 'n_roots': {0: 1, 1: 1, 2: 2}[c['as_seq']],
                                 'previous': evd_to_model(c['prev']) if c['prev'] is not None else None,
                                 'options': {'is_complete': f['is_complete'], 'is_final': f['is_final'], 'observer': f['observer'],
                                             'organization': f['organization'], 'institution': o['institution'],
                                             'department': o['department'],
                                             'procedure_codes': None if o['procedure_codes'] is None else
                                             ['|'.join(PROCEDURE_CODES[k]) for k in range(o['procedure_codes'])],
                                             'requested': None if o['requested'] is None else [f'RP{k}' for k in range(o['requested'])],
                                             'transfer_syntax': _option_kwargs(o)['transfer_syntax_uid']}}))
    # ---- oracle: refusal
    if reasons:
        if ok:
            ctx.fail(case, f'document accepted although it must be refused: {reasons}', site='sr.ctor/refusal')
        pending.append((case, ('err', res[1] if not ok else None) if not ok else ('ok', None), 'doc-refused'))
        if ok:
            pending[-1] = (case, _impl_doc(res[1]), 'doc')
        return
    if not ok:
        if not neutral:
            ctx.fail(case, f'valid document refused: {res[2]}', site='sr.ctor/accept')
        pending.append((case, ('err', res[1]), 'doc'))
        return
    doc = res[1]
    impl_doc = _impl_doc(doc)
    pending.append((case, impl_doc, 'doc'))
    # ---- oracle: content unchanged
    if canon(c['root']) != before:
        ctx.fail(case, 'the content tree handed in was modified by the constructor', site='sr.ctor/input-mutated')
    # every coded name / value / unit / qualifier, attribute by attribute, against the construction parameters
    for where, tree_ in (('.content', doc.content[0] if len(doc.content) == 1 else None), ('the document data set', doc)):
        cp = _walk_codes(tree_, spec) if tree_ is not None else []
        if cp:
            ctx.fail(case, {'what': f'a code in {where} right after construction is not the code given (attributes of the code '
                                    'sequence item lost or changed)', 'differences': cp[:4]},
                     site='sr.content/codes' if where == '.content' else 'sr.dataset/codes')
    if len(doc.content) != 1 or canon(doc.content[0]) != before:
        ctx.fail(case, 'document .content differs from the tree it was given', site='sr.content')
    root_ds = _root_part(doc)
    if canon(root_ds) != before:
        ctx.fail(case, 'root content attributes of the document data set differ from the tree it was given', site='sr.dataset')
    # the document owns its tree: no item of its data set is an item of the caller's tree, the data set's items ARE the
    # items of .content, and editing the caller's tree afterwards changes neither
    def items_below(ds_):
        out_ = []
        for x in ds_.get('ContentSequence', []):
            out_.append(x)
            out_ += items_below(x)
        return out_
    given_items = {id(x) for x in items_below(c['root'])}
    doc_items = items_below(doc)
    if any(id(x) in given_items for x in doc_items):
        ctx.fail(case, "the document's data set holds (aliases) content items of the tree it was given", site='sr.ctor/aliasing')
    if [id(x) for x in doc_items] != [id(x) for x in items_below(doc.content[0])]:
        ctx.fail(case, "the items of the document's data set are not the items of .content (two diverging trees)", site='sr.ctor/aliasing')
    victims = items_below(c['root'])
    if victims:
        v = victims[ctx.rng('alias', c['idx']).randrange(len(victims))]
        v.ObservationUID = '1.2.826.0.1.3680043.8.498.666'      # edit the caller's tree after construction
        if canon(root_ds) != before or canon(doc.content[0]) != before:
            ctx.fail(case, "editing the caller's tree after construction changed the document", site='sr.ctor/aliasing')
        bio_a = io.BytesIO()
        doc.save_as(bio_a)
        import pydicom as _pd
        wa = _pd.dcmread(io.BytesIO(bio_a.getvalue()))
        ra = _pd.Dataset()
        for kw in ('ValueType', 'ConceptNameCodeSequence', 'ContinuityOfContent', 'ContentTemplateSequence', 'ContentSequence',
                   'ObservationDateTime', 'ObservationUID'):
            if kw in wa:
                ra[kw] = wa[kw]
        if canon(ra) != before:
            ctx.fail(case, "editing the caller's tree after construction changed the written file", site='sr.ctor/aliasing')
    ids = {}
    probs = _walk_real(doc.content[0], spec, ids)
    impl_doc[1]['content_ids'] = list(ids.values())       # document order of .content, compared with the model's subtree
    if probs:
        ctx.fail(case, {'what': '.content does not have the constructed structure', 'problems': probs[:5]}, site='sr.content')
    # ---- oracle: evidence partition on the data set (L1 observables, read through pydicom only)
    cur_nested = flatten_seq(doc.get('CurrentRequestedProcedureEvidenceSequence', []))
    oth_nested = flatten_seq(doc.get('PertinentOtherEvidenceSequence', []))
    _check_partition(ctx, case, 'collect_evidence', cur_nested, oth_nested, current, other, f['record_evidence'])
    if 'CurrentRequestedProcedureEvidenceSequence' in doc and not cur_nested:
        ctx.fail(case, 'empty CurrentRequestedProcedureEvidenceSequence written', site='collect_evidence')
    if 'PertinentOtherEvidenceSequence' in doc and not oth_nested:
        ctx.fail(case, 'empty PertinentOtherEvidenceSequence written', site='collect_evidence')
    # ---- oracle: read-back API
    ge = [tuple(map(str, t)) for t in doc.get_evidence()]
    gc = [tuple(map(str, t)) for t in doc.get_evidence(current_procedure_only=True)]
    want_all = current | (other if f['record_evidence'] else set())
    if sorted(ge) != sorted(want_all) or len(ge) != len(set(ge)):
        ctx.fail(case, {'what': 'get_evidence() is not the supplied instances once each', 'got': sorted(ge), 'want': sorted(want_all)},
                 site='get_evidence')
    if sorted(gc) != sorted(current):
        ctx.fail(case, {'what': 'get_evidence(current_procedure_only=True) is not the referenced instances', 'got': sorted(gc),
                        'want': sorted(current)}, site='get_evidence')
    # several calls on ONE document: the same question again, and after the other question, gets the same answer; reading
    # leaves nothing behind on the object
    keys0 = set(vars(doc))
    again = ([tuple(map(str, t)) for t in doc.get_evidence(current_procedure_only=True)], [tuple(map(str, t)) for t in doc.get_evidence()],
             [tuple(map(str, t)) for t in doc.get_evidence()], [tuple(map(str, t)) for t in doc.get_evidence(current_procedure_only=True)])
    if again != (gc, ge, ge, gc):
        ctx.fail(case, {'what': 'get_evidence() answers differently when asked again / after get_evidence(current_procedure_only=True)',
                        'first': [len(ge), len(gc)], 'again': [len(x) for x in again]}, site='get_evidence/repeat')
    if set(vars(doc)) != keys0:
        ctx.fail(case, {'what': 'reading the evidence left state behind on the document object',
                        'new_attributes': sorted(set(vars(doc)) - keys0)}, site='get_evidence/repeat')
    gs = [tuple(map(str, t)) for t in doc.get_evidence_series()]
    if sorted(gs) != sorted({(a, b) for a, b, _, _ in want_all}) or len(gs) != len(set(gs)):
        ctx.fail(case, 'get_evidence_series() is not the set of supplied (study, series), once each', site='get_evidence_series')
    gsc = [tuple(map(str, t)) for t in doc.get_evidence_series(current_procedure_only=True)]
    if sorted(gsc) != sorted({(a, b) for a, b, _, _ in current}):
        ctx.fail(case, 'get_evidence_series(current_procedure_only=True) wrong', site='get_evidence_series')
    # ---- flags / verification / every other option / predecessors
    _check_options(ctx, case, doc, c, 'the document')
    if c['prev'] is not None:
        got = sorted(rows_of(flatten_seq(doc.get('PredecessorDocumentsSequence', []))))
        want = sorted((str(p.StudyInstanceUID), str(p.SeriesInstanceUID), str(p.SOPInstanceUID), str(p.SOPClassUID))
                      for p in c['prev'])
        if got != want:
            ctx.fail(case, {'what': 'predecessor documents not listed under their study/series', 'got': got, 'want': want},
                     site='sr.predecessors')
    elif 'PredecessorDocumentsSequence' in doc:
        ctx.fail(case, 'predecessors recorded though none given', site='sr.predecessors')
    if c.get('light'):
        # options stream: the tree is a fixed small one; searching / writing / parsing are exercised on every 8th case
        return
    # ---- find_content_items on the real tree vs model (ids), a few random queries
    r = ctx.rng('find', c['idx'])
    for q in range(3):
        vt = r.choice([None, 'IMAGE', 'COMPOSITE', 'SCOORD3D', 'CONTAINER', 'TEXT', 'NUM'])
        rel = r.choice([None, None, 'CONTAINS', 'SELECTED FROM', 'HAS OBS CONTEXT'])
        nm = r.choice([None, None] + [s['name'] for s in srdocs.descendants(spec)][:6])
        rec = r.random() < 0.7
        if nm is not None:
            # the query names the version of the item's name / no version although the item's name has one / a version the
            # item's name does not have
            fr_ = ctx.rng('findver', c['idx'] * 3 + q)
            u = fr_.random()
            if fr_.random() < 0.5:
                vt = rel = None                      # the name alone decides
            if len(nm) > 2 and u < 0.35:
                nm = tuple(nm[:2])
            elif u > 0.85:
                nm = tuple(nm[:2]) + ('1999',)
        name_arg = None
        if nm is not None:
            name_arg = hd.sr.CodedConcept(value=nm[0], scheme_designator=nm[1], meaning='x',
                                          scheme_version=nm[2] if len(nm) > 2 else None)
        fr = _call(hd.sr.utils.find_content_items, doc.content[0], name=name_arg, value_type=vt, relationship_type=rel,
                   recursive=rec)
        impl = ('ok', [ids.get(id(x), -1) for x in fr[1]]) if fr[0] == 'ok' else ('err', fr[1])
        # oracle for the search itself: declarative filter over the spec in document order
        cands = list(srdocs.descendants(spec)) if rec else list(spec['children'])
        # a name matches when value and designator agree and, if the query names a coding scheme version, the version too
        want = [s['id'] for s in cands if (vt is None or s['vt'] == vt) and (rel is None or s['rel'] == rel)
                and (nm is None or (tuple(s['name'][:2]) == tuple(nm[:2]) and (len(nm) == 2 or tuple(s['name'][2:]) == tuple(nm[2:]))))]
        fcase = dict(case, query={'vt': vt, 'rel': rel, 'name': nm, 'recursive': rec})
        ctx.case(find_vt=vt, find_recursive=rec, find_name=('none' if nm is None else 'versioned' if len(nm) > 2 else 'unversioned') +
                 ('' if nm is None else '/hit' if want else '/miss'))
        if impl != ('ok', want):
            ctx.fail(fcase, {'what': 'find_content_items result is not the matching items in document order', 'got': impl, 'want': want},
                     site='find_content_items')
        reqs.append(('find', {'tree': spec_to_model(spec, versionless=nm is not None and len(nm) == 2), 'vt': vt, 'rel': rel,
                              'name': '|'.join(nm) if nm else None,
                              'recursive': rec}))
        pending.append((fcase, impl, 'find'))
    # ---- written and re-read
    bio = io.BytesIO()
    w = _call(doc.save_as, bio)
    if w[0] != 'ok':
        ctx.fail(case, f'document cannot be written: {w[2]}', site='sr.write')
        return
    blob = bio.getvalue()
    # the written bytes, read with pydicom alone (no highdicom parsing in between)
    written = pydicom.dcmread(io.BytesIO(blob))
    ctx.case(path='written-bytes')
    _check_options(ctx, case, written, c, 'the written file')
    # (the caller's tree was edited above, after construction; `before` is the tree as given)
    if canon(_root_part(written)) != before:
        ctx.fail(case, 'the content tree in the written file differs from the tree the document was given', site='sr.write/content')
    cp = _walk_codes(written, spec)
    if cp:
        ctx.fail(case, {'what': 'a code in the written file is not the code given (attributes of the code sequence item lost or '
                                'changed)', 'differences': cp[:4]}, site='sr.write/codes')
    rd = _call(hd.sr.srread, io.BytesIO(blob))
    ctx.case(path='srread')
    if rd[0] != 'ok':
        ctx.fail(case, f'written document cannot be parsed: {rd[2]}', site='srread')
        return
    doc2 = rd[1]
    if type(doc2).__name__ != c['cls']:
        ctx.fail(case, f'srread returned {type(doc2).__name__}', site='srread')
    if len(doc2.content) != 1 or canon(doc2.content[0]) != before:
        ctx.fail(case, 'parsed .content differs from the tree the document was given', site='srread/content')
    probs = _walk_real(doc2.content[0], spec, {})
    if probs:
        ctx.fail(case, {'what': 'parsed .content does not have the constructed structure', 'problems': probs[:5]}, site='srread/content')
    for where, tree_ in (('srread(...).content', doc2.content[0] if len(doc2.content) == 1 else None), ('the data set srread returns', doc2)):
        cp = _walk_codes(tree_, spec) if tree_ is not None else []
        if cp:
            ctx.fail(case, {'what': f'a code in {where} is not the code given (attributes of the code sequence item lost or changed)',
                            'differences': cp[:4]}, site='srread/codes')
    # attribute level: what the parsed root item carries vs what the given root item carried (model: parseRoot . writeRoot)
    ROOT_KW = ('ValueType', 'ConceptNameCodeSequence', 'ContinuityOfContent', 'ContentSequence', 'ContentTemplateSequence',
               'ObservationDateTime', 'ObservationUID')
    present = list(spec.get('attrs', [])) + (['ContentSequence'] if spec['has_seq'] else [])
    got_kw = sorted(k for k in ROOT_KW if k in doc2.content[0])
    if got_kw != sorted(present):
        ctx.fail(case, {'what': 'parsed root item does not carry the attributes of the given root item', 'got': got_kw,
                        'want': sorted(present)}, site='srread/root-attributes')
    reqs.append(('parseRoot', {'present': present}))
    pending.append((dict(case, what='root attributes'), ('ok', got_kw), 'root'))
    ge2 = [tuple(map(str, t)) for t in doc2.get_evidence()]
    if ge2 != ge:
        ctx.fail(case, 'get_evidence() differs after write/read', site='srread/evidence')
    _check_partition(ctx, case, 'srread/evidence', flatten_seq(doc2.get('CurrentRequestedProcedureEvidenceSequence', [])),
                     flatten_seq(doc2.get('PertinentOtherEvidenceSequence', [])), current, other, f['record_evidence'])
    # ---- every class's from_dataset: the class that wrote the document accepts it, the other two refuse it
    for other in SR_CLASSES:
        if other == c['cls'] or (ctx.tier == 'quick' and not ctx.search_mode and c['idx'] % 3 != 0):
            continue
        fo = _call(getattr(hd.sr, other).from_dataset, pydicom.dcmread(io.BytesIO(blob)))
        ctx.case(path='from_dataset(other class)', parse_class=f'{c["cls"]} as {other}', parse_outcome=('accepted' if fo[0] == 'ok' else fo[2].split(':')[0]))
        if fo[0] == 'ok':
            ctx.fail(dict(case, parsed_as=other), f'{other}.from_dataset accepted a {c["cls"]} document (returned a {type(fo[1]).__name__})',
                     site='from_dataset/class')
    # ---- from_dataset(copy=True) must leave the parsed-from data set alone and expose an equal tree
    raw = pydicom.dcmread(io.BytesIO(blob))
    raw_before = canon(raw)
    types_before = [type(x).__name__ for x in raw.ContentSequence]
    K = getattr(hd.sr, c['cls'])
    fd = _call(K.from_dataset, raw, copy=True)
    ctx.case(path='from_dataset(copy)')
    if fd[0] != 'ok':
        ctx.fail(case, f'from_dataset(copy=True) refused a written document: {fd[2]}', site='from_dataset')
    else:
        d3 = fd[1]
        if canon(d3.content[0]) != before:
            ctx.fail(case, 'from_dataset(copy=True).content differs from the tree', site='from_dataset/content')
        cp = _walk_codes(d3.content[0], spec) + _walk_codes(d3, spec)
        if cp:
            ctx.fail(case, {'what': 'a code in from_dataset(copy=True) (.content / data set) is not the code given', 'differences': cp[:4]},
                     site='from_dataset/codes')
        if canon(raw) != raw_before or [type(x).__name__ for x in raw.ContentSequence] != types_before:
            ctx.fail(case, {'what': 'from_dataset(copy=True) altered the data set it was given (content items converted in place)',
                            'types_before': types_before[:4], 'types_after': [type(x).__name__ for x in raw.ContentSequence][:4]},
                     site='from_dataset/copy-aliasing')
        else:
            # the copy must own its content: editing the parsed tree must not reach the original
            try:
                shared = any(a is b for a, b in zip(d3.content[0].ContentSequence, raw.ContentSequence))
            except Exception:  # noqa: BLE001
                shared = False
            if shared:
                ctx.fail(case, 'from_dataset(copy=True).content shares content items with the original data set',
                         site='from_dataset/copy-aliasing')
            # and .content must be the tree of the returned object itself
            try:
                own = all(a is b for a, b in zip(d3.content[0].ContentSequence, d3.ContentSequence))
            except Exception:  # noqa: BLE001
                own = True
            if not own:
                ctx.fail(case, 'from_dataset(copy=True).content is not the content of the returned document',
                         site='from_dataset/copy-aliasing')


def _impl_doc(doc):
    cur = flatten_seq(doc.get('CurrentRequestedProcedureEvidenceSequence', []))
    oth = flatten_seq(doc.get('PertinentOtherEvidenceSequence', []))
    pre = flatten_seq(doc.get('PredecessorDocumentsSequence', [])) if 'PredecessorDocumentsSequence' in doc else None
    return ('ok', {'current': nested_to_json(cur), 'other': nested_to_json(oth),
                   'has_current': 'CurrentRequestedProcedureEvidenceSequence' in doc,
                   'has_other': 'PertinentOtherEvidenceSequence' in doc,
                   'predecessors': nested_to_json(pre) if pre is not None else None,
                   'get_evidence': [list(map(str, t)) for t in doc.get_evidence()],
                   'get_evidence_current': [list(map(str, t)) for t in doc.get_evidence(current_procedure_only=True)],
                   'get_evidence_series': [list(map(str, t)) for t in doc.get_evidence_series()],
                   'verification': str(doc.VerificationFlag), 'completion': str(doc.CompletionFlag),
                   'preliminary': str(doc.PreliminaryFlag),
                   'observers': [[str(v.get('VerifyingObserverName')), str(v.get('VerifyingOrganization'))]
                                 for v in doc.get('VerifyingObserverSequence', [])],
                   'institution': (str(doc.InstitutionName) if 'InstitutionName' in doc else None),
                   'department': (str(doc.InstitutionalDepartmentName) if 'InstitutionalDepartmentName' in doc else None),
                   'procedure_codes': ['|'.join((str(x.CodeValue), str(x.CodingSchemeDesignator), str(x.CodeMeaning)))
                                       for x in doc.get('PerformedProcedureCodeSequence', [])],
                   'requested': ([str(x.get('RequestedProcedureID')) for x in doc.ReferencedRequestSequence]
                                 if 'ReferencedRequestSequence' in doc else None)})


# ------------------------------------------------------------------ raw trees (model: Model/SRTree.lean)
# what the standard requires of a content item of each value type, as far as a data set can be checked for it without looking
# at the values (PS3.3 C.17.3 / C.18): the harness's own table, not read from the code
REQUIRED_ATTRS = {'CODE': ['ConceptCodeSequence'], 'COMPOSITE': ['ReferencedSOPSequence'], 'CONTAINER': ['ContinuityOfContent'],
                  'DATE': ['Date'], 'DATETIME': ['DateTime'], 'IMAGE': ['ReferencedSOPSequence'], 'NUM': ['MeasuredValueSequence'],
                  'PNAME': ['PersonName'], 'SCOORD': ['GraphicType', 'GraphicData'], 'SCOORD3D': ['GraphicType', 'GraphicData'],
                  'TCOORD': ['TemporalRangeType'], 'TIME': ['Time'], 'TEXT': ['TextValue'], 'UIDREF': ['UID'],
                  'WAVEFORM': ['ReferencedSOPSequence']}
NAME_OPTIONAL = ('COMPOSITE', 'IMAGE', 'SCOORD', 'SCOORD3D', 'TCOORD', 'WAVEFORM')
RAW_FAULTS = ['none', 'none', 'drop-required', 'drop-name', 'drop-name', 'drop-relationship', 'bogus-value-type', 'drop-value-type',
              'root-relationship', 'drop-required+drop-name']


def _attr_digest(elem):
    """opaque canonical value of one attribute for the model; a concept name as value|scheme|meaning (the model knows the
    default name in that form)"""
    import hashlib
    if elem.keyword == 'ConceptNameCodeSequence' and len(elem.value) == 1:
        x = elem.value[0]
        v = next((str(x[k].value) for k in ('CodeValue', 'LongCodeValue', 'URNCodeValue') if k in x), '?')
        extra = sorted(e.keyword for e in x if e.keyword not in ('CodeValue', 'LongCodeValue', 'URNCodeValue', 'CodingSchemeDesignator', 'CodeMeaning'))
        base = f'{v}|{x.get("CodingSchemeDesignator")}|{x.get("CodeMeaning")}'
        return base if not extra else base + '|' + hashlib.md5(repr(canon(x)).encode()).hexdigest()[:8]
    if elem.keyword in ('ValueType', 'RelationshipType', 'ContinuityOfContent'):
        return str(elem.value)
    import pydicom
    one = pydicom.Dataset()
    one[elem.tag] = elem
    return hashlib.md5(repr(canon(one)).encode()).hexdigest()[:12]


def _plain(ds):
    """the same data set as plain pydicom objects (Dataset / Sequence), as a third party's reader would hand it over"""
    import pydicom
    from pydicom.dataelem import DataElement
    out = pydicom.Dataset()
    for e in ds:
        if e.VR == 'SQ':
            out[e.tag] = DataElement(e.tag, 'SQ', pydicom.Sequence([_plain(x) for x in (e.value or [])]))
        else:
            out[e.tag] = copy.deepcopy(e)
    return out


def _node_json(ds):
    return {'attrs': [[e.keyword or str(e.tag), _attr_digest(e)] for e in ds if e.keyword != 'ContentSequence'],
            'has_seq': 'ContentSequence' in ds,
            'children': [_node_json(x) for x in ds.ContentSequence] if 'ContentSequence' in ds else []}


def _flat_items(ds):
    out = [sorted([e.keyword or str(e.tag), _attr_digest(e)] for e in ds if e.keyword != 'ContentSequence')]
    for x in (ds.ContentSequence if 'ContentSequence' in ds else []):
        out += _flat_items(x)
    return out


def _first_fault(ds, is_root=True):
    """independent statement of what makes a tree of data sets unacceptable as SR content: the first offending data set in
    document order, or None"""
    vt = ds.get('ValueType')
    if vt is None:
        return 'no-value-type'
    if str(vt) not in REQUIRED_ATTRS:
        return 'unknown-value-type'
    if not is_root and 'RelationshipType' not in ds:
        return 'no-relationship'
    if any(k not in ds for k in REQUIRED_ATTRS[str(vt)]):
        return 'required-attribute-missing'
    if 'ConceptNameCodeSequence' not in ds and str(vt) not in NAME_OPTIONAL:
        return 'no-concept-name'
    for x in (ds.ContentSequence if 'ContentSequence' in ds else []):
        f = _first_fault(x, False)
        if f:
            return f
    return None


def _raw_case(ctx, idx):
    """a valid constructed tree, then 0-2 faults planted on data sets at random depth (the items stay the constructors'
    objects: the document constructor takes any data set)"""
    from gen import srdocs
    r = ctx.rng('raw', idx)
    pool = srdocs.instance_pool(r, max_studies=2)
    depth = r.choice([1, 2, 2, 3, 3, 4])
    root, spec = srdocs.content_tree(r, pool, depth=depth, scoord3d=r.random() < 0.4, foreign=0.0, code_rng=ctx.rng('rawcodes', idx))
    root = _plain(root)
    nodes = []

    def collect(item, d):
        nodes.append((item, d))
        for ch in (item.ContentSequence if 'ContentSequence' in item else []):
            collect(ch, d + 1)
    collect(root, 0)
    # FOREIGN attributes: what no highdicom constructor writes but a data set may carry - optional standard attributes of the
    # content item, attributes nested inside value sequences, private elements, context group attributes in a name.  The
    # document must carry them like everything else.  (Private elements only below the root: on the root they become
    # indistinguishable from the document's own attributes once written.)
    fr = ctx.rng('rawforeign', idx)
    foreign = []
    if fr.random() < 0.6:
        import pydicom
        from pydicom.dataelem import DataElement
        for _ in range(fr.randint(1, 4)):
            n, d = fr.choice(nodes)
            vt_ = str(n.get('ValueType'))
            kind = fr.choice(['observation', 'private', 'nested-num', 'nested-ref', 'name-context', 'template'])
            if kind == 'observation':
                n.ObservationDateTime = '20200101120000'
                n.ObservationUID = f'1.2.826.0.1.3680043.8.498.55.{idx}.{len(foreign)}'
            elif kind == 'private' and d > 0:
                n.add_new(0x00990010, 'LO', 'VERIF PRIVATE')
                n.add_new(0x00991001, 'LO', f'private value {idx}')
                n.add_new(0x00991002, 'DS', '1.25')
            elif kind == 'nested-num' and vt_ == 'NUM' and 'MeasuredValueSequence' in n:
                mv = n.MeasuredValueSequence[0]
                mv.RationalNumeratorValue = 5
                mv.RationalDenominatorValue = 4
            elif kind == 'nested-ref' and vt_ in ('IMAGE', 'COMPOSITE') and 'ReferencedSOPSequence' in n:
                rs = n.ReferencedSOPSequence[0]
                ps = pydicom.Dataset()
                ps.ReferencedSOPClassUID = '1.2.840.10008.5.1.4.1.1.11.1'
                ps.ReferencedSOPInstanceUID = f'1.2.826.0.1.3680043.8.498.56.{idx}'
                rs[0x00081199] = DataElement(0x00081199, 'SQ', pydicom.Sequence([ps]))    # nested ReferencedSOPSequence
                if vt_ == 'IMAGE' and 'ReferencedFrameNumber' not in rs:
                    rs.ReferencedFrameNumber = [1, 3]
            elif kind == 'name-context' and 'ConceptNameCodeSequence' in n:
                nm = n.ConceptNameCodeSequence[0]
                nm.ContextIdentifier = '7021'
                nm.MappingResource = 'DCMR'
                nm.ContextGroupVersion = '20200101'
            elif kind == 'template' and vt_ == 'CONTAINER' and 'ContentTemplateSequence' not in n:
                tp = pydicom.Dataset()
                tp.MappingResource = 'DCMR'
                tp.TemplateIdentifier = '9999'
                n.ContentTemplateSequence = [tp]
            else:
                continue
            foreign.append((kind, d, vt_))
    fault = RAW_FAULTS[idx % len(RAW_FAULTS)] if idx < 4 * len(RAW_FAULTS) else r.choice(RAW_FAULTS)
    planted = []
    for f in fault.split('+'):
        below = [(n, d) for n, d in nodes if d > 0]
        if f == 'none' or (not below and f != 'root-relationship'):
            continue
        if f == 'root-relationship':
            root.RelationshipType = 'CONTAINS'
            planted.append((f, 0, 'CONTAINER'))
            continue
        if f == 'drop-name':
            # half of the time on an item that may lack a name (accepted, default name), else on any item
            opt = [(n, d) for n, d in below if str(n.ValueType) in NAME_OPTIONAL]
            n, d = r.choice(opt) if (opt and r.random() < 0.6) else r.choice(nodes)
            if 'ConceptNameCodeSequence' in n:
                del n.ConceptNameCodeSequence
        elif f == 'drop-required':
            n, d = r.choice(nodes)
            kws = [k for k in REQUIRED_ATTRS.get(str(n.get('ValueType')), []) if k in n]
            if kws:
                delattr(n, r.choice(kws))
        elif f == 'drop-relationship':
            n, d = r.choice(below)
            if 'RelationshipType' in n:
                del n.RelationshipType
        elif f == 'bogus-value-type':
            n, d = r.choice(nodes)
            n.ValueType = r.choice(['BOGUS', 'container', 'NUMERIC'])
        elif f == 'drop-value-type':
            n, d = r.choice(nodes)
            del n.ValueType
        planted.append((f, d, str(n.get('ValueType'))))
    return {'idx': idx, 'pool': pool, 'root': root, 'fault': fault, 'planted': planted, 'depth': depth, 'foreign': foreign}


def _check_raw(ctx, c, reqs, pending):
    import highdicom as hd
    import pydicom
    root = c['root']
    case = {'stream': 'raw', 'seed': ctx.seed, 'idx': c['idx'], 'fault': c['fault'], 'planted': c['planted']}
    why = _first_fault(root)
    if why is None and 'RelationshipType' in root:
        why = 'root-with-relationship'
    given = copy.deepcopy(root)
    before = canon(root)
    node = _node_json(root)
    own = [['SOPClassUID', 'x'], ['SOPInstanceUID', 'x'], ['Modality', 'x'], ['CompletionFlag', 'x'], ['VerificationFlag', 'x']]
    reqs.append(('convertTree', {'tree': node, 'own': own}))

    def build():
        return hd.sr.Comprehensive3DSR(evidence=[p['ds'] for p in c['pool']], content=root,
                                       series_instance_uid='1.2.826.0.1.3680043.8.498.1', series_number=1,
                                       sop_instance_uid='1.2.826.0.1.3680043.8.498.1.1', instance_number=1, manufacturer='verif')
    res = _call(build)
    ok = res[0] == 'ok'
    ctx.case(sample=case if c['idx'] % 97 == 0 else None, path='raw-tree', raw_fault=c['fault'], raw_expected=why or 'accept',
             raw_outcome=('ok' if ok else res[2].split(':')[0]),
             nontrivial_key=('raw', c['fault'], tuple(c['planted']), ok))
    for f, d, vt in c['planted']:
        ctx.hist('raw_planted', f'{f}@depth{min(d, 4)}/{vt}')
    for f, d, vt in c.get('foreign', []):
        ctx.hist('raw_foreign', f'{f}@depth{min(d, 4)}/{vt}')
    if not c.get('foreign'):
        ctx.hist('raw_foreign', 'none')
    if canon(root) != before:
        ctx.fail(case, 'the content tree handed in was modified by the constructor', site='sr.ctor/input-mutated')
    if why:
        if ok:
            ctx.fail(case, f'document built from a tree with an unacceptable data set: {why}', site='sr.ctor/refusal')
        pending.append((case, ('ok', None) if ok else ('err', res[1]), 'raw'))
        return
    if not ok:
        ctx.fail(case, f'document of acceptable data sets refused: {res[2]}', site='sr.ctor/accept')
        pending.append((case, ('err', res[1]), 'raw'))
        return
    doc = res[1]
    # ---- oracle: evidence (every IMAGE / COMPOSITE data set at any depth, named or not) and the search on the GIVEN tree
    def refs_of(ds_):
        out_ = []
        for x in (ds_.ContentSequence if 'ContentSequence' in ds_ else []):
            if str(x.ValueType) in ('IMAGE', 'COMPOSITE'):
                out_.append(str(x.ReferencedSOPSequence[0].ReferencedSOPInstanceUID))
            out_ += refs_of(x)
        return out_
    ref_uids = set(refs_of(given))
    first = {}
    for p_ in c['pool']:
        first.setdefault(p_['inst'], (p_['study'], p_['series'], p_['inst'], p_['cls']))
    _check_partition(ctx, case, 'collect_evidence', flatten_seq(doc.get('CurrentRequestedProcedureEvidenceSequence', [])),
                     flatten_seq(doc.get('PertinentOtherEvidenceSequence', [])), {first[u] for u in ref_uids if u in first},
                     {row for u, row in first.items() if u not in ref_uids}, True)

    def all_items(ds_):
        out_ = []
        for x in (ds_.ContentSequence if 'ContentSequence' in ds_ else []):
            out_.append(x)
            out_ += all_items(x)
        return out_
    items_given = all_items(root)
    src = hd.sr.CodedConcept(value='260753009', scheme_designator='SCT', meaning='Source')
    for q_name, q_vt in ((None, 'IMAGE'), (src, None), (None, None)):
        fr = _call(hd.sr.utils.find_content_items, root, name=q_name, value_type=q_vt, recursive=True)

        def nm(x):
            if 'ConceptNameCodeSequence' not in x:
                return ('260753009', 'SCT')      # the name the parsers give an item without one
            y = x.ConceptNameCodeSequence[0]
            return (next((str(y[k].value) for k in ('CodeValue', 'LongCodeValue', 'URNCodeValue') if k in y), None), str(y.CodingSchemeDesignator))
        want_ = [id(x) for x in items_given if (q_vt is None or str(x.ValueType) == q_vt) and (q_name is None or nm(x) == ('260753009', 'SCT'))]
        ctx.case(path='raw-tree/find', find_nameless=('name' if q_name is not None else 'vt' if q_vt else 'all'))
        if fr[0] != 'ok' or [id(x) for x in fr[1]] != want_:
            ctx.fail(dict(case, query={'name': 'Source' if q_name is not None else None, 'vt': q_vt}),
                     {'what': 'find_content_items on the given tree is not the matching items in document order (an item without '
                              'concept name carries the name the parsers give it)',
                      'got': fr[2] if fr[0] != 'ok' else len(fr[1]), 'want': len(want_)}, site='find_content_items')
    # ---- oracle: the tree is the given tree; a data set without concept name (allowed for its value type) got the default name
    want = copy.deepcopy(given)

    def add_names(ds_):
        if 'ConceptNameCodeSequence' not in ds_:
            it = pydicom.Dataset()
            it.CodeValue, it.CodingSchemeDesignator, it.CodeMeaning = '260753009', 'SCT', 'Source'
            ds_.ConceptNameCodeSequence = [it]
        for x in (ds_.ContentSequence if 'ContentSequence' in ds_ else []):
            add_names(x)
    add_names(want)
    want_c = canon(want)
    observed = {'items': _flat_items(doc.content[0]) if len(doc.content) == 1 else None, 'parsed': None}
    if len(doc.content) != 1 or canon(doc.content[0]) != want_c:
        ctx.fail(case, 'document .content differs from the tree it was given (default concept names apart)', site='sr.content')
    if canon(_root_part(doc)) != want_c:
        ctx.fail(case, 'root content attributes of the document data set differ from the tree it was given', site='sr.dataset')
    bio = io.BytesIO()
    w = _call(doc.save_as, bio)
    if w[0] != 'ok':
        ctx.fail(case, f'document cannot be written: {w[2]}', site='sr.write')
    else:
        written = pydicom.dcmread(io.BytesIO(bio.getvalue()))
        if canon(_root_part(written)) != want_c:
            ctx.fail(case, 'the content tree in the written file differs from the tree the document was given', site='sr.write/content')
        for label, fn in (('srread', lambda: hd.sr.srread(io.BytesIO(bio.getvalue()))),
                          ('from_dataset', lambda: hd.sr.Comprehensive3DSR.from_dataset(pydicom.dcmread(io.BytesIO(bio.getvalue())), copy=True)),
                          ('from_dataset(copy=False)', lambda: hd.sr.Comprehensive3DSR.from_dataset(pydicom.dcmread(io.BytesIO(bio.getvalue())), copy=False))):
            rd = _call(fn)
            ctx.case(path='raw-tree/' + label)
            if rd[0] != 'ok':
                ctx.fail(case, f'{label} refused a written document: {rd[2]}', site=label)
                observed['parsed'] = ('err', rd[1])
                continue
            if len(rd[1].content) != 1 or canon(rd[1].content[0]) != want_c:
                ctx.fail(case, f'{label}(...).content differs from the tree the document was given', site=label + '/content')
            if label == 'srread':
                observed['parsed'] = ('ok', _flat_items(rd[1].content[0]))
    pending.append((case, ('ok', observed), 'raw'))


# ------------------------------------------------------------------ key object selection documents
def _ko_case(ctx, idx):
    from gen import srdocs
    r = ctx.rng('ko', idx)
    pool = srdocs.instance_pool(r, max_studies=2)
    multi = r.random() < 0.25
    first_study = pool[0]['study']
    cands = pool if multi else [p for p in pool if p['study'] == first_study]
    objs = r.sample(cands, r.randint(1, min(4, len(cands))))
    if r.random() < 0.3:
        objs.append(r.choice(objs))      # the same object selected twice
    refs = [(p['cls'], p['inst']) for p in objs]
    evidence, mode = srdocs.evidence_list(r, pool, refs)
    return {'idx': idx, 'pool': pool, 'objs': objs, 'refs': refs, 'evidence': evidence, 'mode': mode,
            'description': ('selected' if r.random() < 0.5 else None), 'person': r.random() < 0.3, 'device': r.random() < 0.3}


def _check_ko(ctx, c, reqs, pending):
    import highdicom as hd
    from pydicom.sr.codedict import codes
    case = {'stream': 'ko', 'seed': ctx.seed, 'idx': c['idx'], 'mode': c['mode'], 'n_objs': len(c['objs'])}
    first = {}
    for e in c['evidence']:
        first.setdefault(str(e.SOPInstanceUID), (str(e.StudyInstanceUID), str(e.SeriesInstanceUID), str(e.SOPInstanceUID),
                                                 str(e.SOPClassUID)))
    ref_uids = {i for _, i in c['refs']}
    reasons = []
    if not ref_uids <= set(first):
        reasons.append('reference-without-evidence')
    current = {first[u] for u in ref_uids if u in first}
    if len({row[0] for row in current}) > 1:
        reasons.append('several-studies')

    def build():
        person = device = None
        if c['person']:
            person = hd.sr.ObserverContext(observer_type=codes.DCM.Person,
                                           observer_identifying_attributes=hd.sr.PersonObserverIdentifyingAttributes(name='Doe^Jane'))
        if c['device']:
            device = hd.sr.ObserverContext(observer_type=codes.DCM.Device,
                                           observer_identifying_attributes=hd.sr.DeviceObserverIdentifyingAttributes(uid='1.2.826.0.1.3680043.8.498.3'))
        content = hd.ko.KeyObjectSelection(document_title=codes.DCM.Manifest, referenced_objects=[p['ds'] for p in c['objs']],
                                           description=c['description'], observer_person_context=person, observer_device_context=device)
        return content, hd.ko.KeyObjectSelectionDocument(
            evidence=c['evidence'], content=content, series_instance_uid='1.2.826.0.1.3680043.8.498.2', series_number=2,
            sop_instance_uid='1.2.826.0.1.3680043.8.498.2.1', instance_number=1, manufacturer='verif')
    res = _call(build)
    ok = res[0] == 'ok'
    ctx.case(nontrivial_key=('ko', len(current), len({r[1] for r in current}), 'dup' in c['mode']) if ok else None,
             path='ko', ko_outcome=('ok' if ok else res[2].split(':')[0]), ko_refusal='+'.join(reasons) or 'none',
             evidence_mode=c['mode'])
    reqs.append(('buildKO', {'refs': [list(x) for x in c['refs']], 'has_description': c['description'] is not None,
                             'evidence': evd_to_model(c['evidence'])}))
    if reasons:
        if ok:
            ctx.fail(case, f'key object document accepted although it must be refused: {reasons}', site='ko.ctor/refusal')
            pending.append((case, ('ok', None), 'ko'))
        else:
            pending.append((case, ('err', res[1]), 'ko'))
        return
    if not ok:
        ctx.fail(case, f'valid key object document refused: {res[2]}', site='ko.ctor/accept')
        pending.append((case, ('err', res[1]), 'ko'))
        return
    content, doc = res[1]
    cur_nested = flatten_seq(doc.get('CurrentRequestedProcedureEvidenceSequence', []))
    _check_partition(ctx, case, 'ko/evidence', cur_nested, [], current, set(), False)
    if 'PertinentOtherEvidenceSequence' in doc:
        ctx.fail(case, 'key object document lists other evidence', site='ko/evidence')
    if canon(doc.content[0]) != canon(content[0]):
        ctx.fail(case, 'key object document .content differs from the content given', site='ko.content')
    given_ids = {id(x) for x in content[0].ContentSequence}
    if any(id(x) in given_ids for x in doc.ContentSequence):
        ctx.fail(case, "the key object document's data set holds (aliases) content items of the content it was given", site='ko.ctor/aliasing')
    if [id(x) for x in doc.ContentSequence] != [id(x) for x in doc.content[0].ContentSequence]:
        ctx.fail(case, "the items of the key object document's data set are not the items of .content", site='ko.ctor/aliasing')
    got_refs = [(str(i.ReferencedSOPSequence[0].ReferencedSOPClassUID), str(i.ReferencedSOPSequence[0].ReferencedSOPInstanceUID))
                for i in doc.content.get_references()]
    if got_refs != [tuple(x) for x in c['refs']]:
        ctx.fail(case, {'what': 'get_references() is not the selected objects in order', 'got': got_refs, 'want': c['refs']},
                 site='ko.references')
    # filters of get_references over the selected objects (construction parameters)
    for vt in ('IMAGE', 'COMPOSITE'):
        want = [tuple(x) for x, p_ in zip(c['refs'], c['objs']) if ('IMAGE' if p_['image'] else 'COMPOSITE') == vt]
        got = [(str(i.ReferencedSOPSequence[0].ReferencedSOPClassUID), str(i.ReferencedSOPSequence[0].ReferencedSOPInstanceUID))
               for i in doc.content.get_references(value_type=vt)]
        if got != want:
            ctx.fail(case, {'what': f'get_references(value_type={vt}) is not the selected {vt} objects', 'got': got, 'want': want},
                     site='ko.references')
    cls0 = c['refs'][0][0]
    got = [str(i.ReferencedSOPSequence[0].ReferencedSOPInstanceUID) for i in doc.content.get_references(sop_class_uid=cls0)]
    if got != [i for cl, i in c['refs'] if cl == cls0]:
        ctx.fail(case, 'get_references(sop_class_uid=...) is not the selected objects of that class', site='ko.references')
    n_ctx = len(doc.content.get_observer_contexts())
    if n_ctx != int(c['person']) + int(c['device']):
        ctx.fail(case, f'{n_ctx} observer contexts reported, constructed with {int(c["person"]) + int(c["device"])}', site='ko.content')
    resolved = []
    for u in sorted(ref_uids):
        rr = _call(doc.resolve_reference, u)
        if rr[0] != 'ok' or tuple(map(str, rr[1])) != first[u][:3]:
            ctx.fail(case, f'resolve_reference({u}) = {rr[1:]} , want {first[u][:3]}', site='ko.resolve')
        resolved.append([u, list(map(str, rr[1]))] if rr[0] == 'ok' else [u, None])
    for u in [x for x in first if x not in ref_uids][:2] + ['1.2.3.4.5']:
        rr = _call(doc.resolve_reference, u)
        if rr[0] == 'ok':
            ctx.fail(case, f'resolve_reference of an unselected instance {u} answered {rr[1]}', site='ko.resolve')
    pending.append((case, ('ok', {'current': nested_to_json(cur_nested), 'resolved': resolved}), 'ko'))
    bio = io.BytesIO()
    doc.save_as(bio)
    import pydicom
    raw = pydicom.dcmread(io.BytesIO(bio.getvalue()))
    rd = _call(hd.ko.KeyObjectSelectionDocument.from_dataset, raw)
    ctx.case(path='ko/read')
    if rd[0] != 'ok':
        ctx.fail(case, f'written key object document cannot be parsed: {rd[2]}', site='ko.read')
        return
    d2 = rd[1]
    if canon(d2.content[0]) != canon(content[0]):
        ctx.fail(case, 'parsed key object content differs', site='ko.read')
    for u in sorted(ref_uids):
        rr = _call(d2.resolve_reference, u)
        if rr[0] != 'ok' or tuple(map(str, rr[1])) != first[u][:3]:
            ctx.fail(case, f'after read resolve_reference({u}) = {rr[1:]}', site='ko.read')


# ------------------------------------------------------------------ references built from a segmentation
SEG_CLS = '1.2.840.10008.5.1.4.1.1.66.4'


def _seg_case(ctx, idx):
    """A segmentation-like data set (exactly the attributes the builders read) + the frame table it was built from.
    A table row: {'segment': n, 'drv': None | [d, ...]} with d = None (derivation item without SourceImageSequence) or a
    list of source images (cls, inst, frame numbers | None = the whole instance)."""
    from gen import srdocs
    from pydicom.dataset import Dataset
    from pydicom.sequence import Sequence
    r = ctx.rng('seg', idx)
    base = srdocs.uid(r, 'seg')
    n_seg = r.randint(1, 3)
    layout = r.choice(['single-frame-sources', 'multiframe-source', 'tiled', 'no-derivation', 'mixed', 'two-sources',
                       'whole-and-frames', 'two-derivations', 'derivation-without-source'])
    tiled = layout == 'tiled'
    n_src = r.randint(1, 4)
    src_cls = '1.2.840.10008.5.1.4.1.1.2' if layout != 'tiled' else '1.2.840.10008.5.1.4.1.1.77.1.6'

    def mf():
        return [r.randint(1, 30)] if r.random() < 0.8 else sorted(r.sample(range(1, 30), 2))
    frames = []
    for s in range(1, n_seg + 1):
        if r.random() < 0.15 and n_seg > 1:
            continue                                        # a described segment without frames
        nf = r.randint(1, 4) if (tiled or layout != 'two-sources') else r.randint(1, 2)
        for k in range(nf):
            if layout == 'single-frame-sources':
                drv = [[(src_cls, f'{base}.7.{r.randint(1, n_src)}', None)]]
            elif layout in ('multiframe-source', 'tiled'):
                # frame numbers of the SOURCE deliberately differ from the segmentation's own frame numbers
                drv = [[(src_cls, f'{base}.7.1', mf())]]
            elif layout == 'no-derivation':
                drv = None
            elif layout == 'mixed':
                drv = None if r.random() < 0.4 else [[(src_cls, f'{base}.7.{r.randint(1, n_src)}', None)]]
            elif layout == 'two-sources':
                drv = [[(src_cls, f'{base}.7.1', None), (src_cls, f'{base}.7.2', None)]]
            elif layout == 'whole-and-frames':
                # one multi-frame source: some frames derive from listed frames of it, some from the instance as a whole
                drv = [[(src_cls, f'{base}.7.{r.randint(1, 2)}', None if r.random() < 0.35 else mf())]]
            elif layout == 'two-derivations':
                drv = [[(src_cls, f'{base}.7.1', mf())], [(src_cls, f'{base}.7.{r.randint(1, 2)}', mf())]] if r.random() < 0.6 \
                    else [[(src_cls, f'{base}.7.1', mf())]]
            else:
                drv = [None] if r.random() < 0.5 else [[(src_cls, f'{base}.7.1', mf())]]
            frames.append({'segment': s, 'drv': drv})
    if not frames:
        frames.append({'segment': 1, 'drv': None})
    if r.random() < 0.5:
        r.shuffle(frames)                                   # frames of a segment need not be contiguous
    ds = Dataset()
    ds.SOPClassUID = SEG_CLS if r.random() < 0.93 else '1.2.840.10008.5.1.4.1.1.2'
    ds.SOPInstanceUID = f'{base}.1'
    ds.NumberOfFrames = len(frames)
    if tiled:
        ds.TotalPixelMatrixRows = 64
        ds.TotalPixelMatrixColumns = 64
    pf = []
    for fr in frames:
        it = Dataset()
        si = Dataset()
        si.ReferencedSegmentNumber = fr['segment']
        it.SegmentIdentificationSequence = Sequence([si])
        if fr['drv'] is not None:
            ditems = []
            for d in fr['drv']:
                drv = Dataset()
                if d is not None:
                    srcs = []
                    for cls, inst, fn in d:
                        s_ = Dataset()
                        s_.ReferencedSOPClassUID = cls
                        s_.ReferencedSOPInstanceUID = inst
                        if fn is not None:
                            s_.ReferencedFrameNumber = fn if len(fn) > 1 else fn[0]
                        srcs.append(s_)
                    drv.SourceImageSequence = Sequence(srcs)
                ditems.append(drv)
            it.DerivationImageSequence = Sequence(ditems)
        pf.append(it)
    ds.PerFrameFunctionalGroupsSequence = Sequence(pf)
    refser = r.choice(['instances', 'instances', 'one-instance', 'series-only', 'absent'])
    ref_instances = None
    if refser != 'absent':
        rs = Dataset()
        rs.SeriesInstanceUID = f'{base}.7'
        if refser in ('instances', 'one-instance'):
            ref_instances = [(src_cls, f'{base}.7.{k}') for k in range(1, (n_src if refser == 'instances' else 1) + 1)]
            seq = []
            for cls, inst in ref_instances:
                x = Dataset()
                x.ReferencedSOPClassUID = cls
                x.ReferencedSOPInstanceUID = inst
                seq.append(x)
            rs.ReferencedInstanceSequence = Sequence(seq)
        ds.ReferencedSeriesSequence = Sequence([rs])
    return {'idx': idx, 'ds': ds, 'frames': frames, 'tiled': tiled, 'layout': layout, 'refser': refser,
            'ref_instances': ref_instances, 'series': f'{base}.7', 'n_seg': n_seg, 'is_seg': ds.SOPClassUID == SEG_CLS}


def _sources_of(row):
    """all source images of a table row (every derivation item, every source image)"""
    return [x for d in (row['drv'] or []) for x in (d or [])]


def derived_from(frames, named):
    """THE STATEMENT, over the frame table only: instance -> (class, 'whole' | set of frame numbers) the named segmentation
    frames were derived from; instances in order of first mention."""
    out = {}
    for f in named:
        for cls, inst, fn in _sources_of(frames[f - 1]):
            if inst not in out:
                out[inst] = [cls, set() if fn is not None else 'whole']
            if fn is None:
                out[inst][1] = 'whole'
            elif out[inst][1] != 'whole':
                out[inst][1] |= set(fn)
    return out


def _seg_model(c):
    return {'is_seg': c['is_seg'], 'cls': str(c['ds'].SOPClassUID), 'inst': str(c['ds'].SOPInstanceUID), 'tiled': c['tiled'],
            'frames': [{'segment': f['segment'],
                        'drv': None if f['drv'] is None else [None if d is None else [{'cls': a, 'inst': b, 'frames': fn} for a, b, fn in d]
                                                              for d in f['drv']]}
                       for f in c['frames']],
            'refser': c['refser'],
            'ref_instances': None if c['ref_instances'] is None else [list(x) for x in c['ref_instances']],
            'series': c['series']}


def _observe_ref(obj):
    """(segmentation ref, frames, segments, sources, series) of a ReferencedSegment / ReferencedSegmentationFrame"""
    it = obj[0]
    sop = it.ReferencedSOPSequence[0]

    def ints(ds_, kw):
        if kw not in ds_:
            return None
        v = ds_[kw].value
        return [int(x) for x in v] if ds_[kw].VM > 1 else [int(v)]
    srcs, series = [], None
    for x in list(obj)[1:]:
        if str(x.ValueType) == 'IMAGE':
            s = x.ReferencedSOPSequence[0]
            srcs.append([str(s.ReferencedSOPClassUID), str(s.ReferencedSOPInstanceUID), ints(s, 'ReferencedFrameNumber')])
        elif str(x.ValueType) == 'UIDREF':
            series = str(x.UID)
    return {'cls': str(sop.ReferencedSOPClassUID), 'inst': str(sop.ReferencedSOPInstanceUID),
            'frames': ints(sop, 'ReferencedFrameNumber'), 'segments': ints(sop, 'ReferencedSegmentNumber'),
            'sources': srcs, 'series': series}


def _check_seg(ctx, c, reqs, pending):
    import highdicom as hd
    r = ctx.rng('segreq', c['idx'])
    frames = c['frames']
    n = len(frames)
    segs = sorted({f['segment'] for f in frames})
    for q in range(4):
        builder = r.choice(['segment', 'frame'])
        seg = r.choice(segs + [c['n_seg'] + 1]) if r.random() < 0.9 else r.choice(segs)
        own = [i + 1 for i, f in enumerate(frames) if f['segment'] == seg]
        kind = r.choice(['by-segment', 'by-frames', 'by-frames', 'by-frames+segment'] if builder == 'frame'
                        else ['by-segment', 'by-segment', 'by-frames'])
        fnums = None
        if kind != 'by-segment':
            u = r.random()
            if u < 0.55 and own:
                fnums = r.sample(own, r.randint(1, len(own)))
                if c['layout'] in ('whole-and-frames', 'two-derivations') and r.random() < 0.6:
                    fnums = list(own)          # all frames of the segment: mentions of one instance with and without frame numbers meet
            elif u < 0.8:
                fnums = r.sample(range(1, n + 1), r.randint(1, min(n, 3)))       # possibly other segments' frames
            elif u < 0.9:
                fnums = [r.choice([0, n + 1, -1])]
            else:
                fnums = ([r.choice(own)] if own else [1]) + [r.choice([0, n + 1, n + 5])]   # valid first, invalid later
        single_int = builder == 'frame' and fnums is not None and len(fnums) == 1 and r.random() < 0.5
        case = {'stream': 'seg', 'seed': ctx.seed, 'idx': c['idx'], 'builder': builder, 'kind': kind, 'segment': seg, 'frames': fnums,
                'layout': c['layout'], 'refser': c['refser'], 'single_int': single_int}
        if builder == 'segment':
            res = _call(hd.sr.ReferencedSegment.from_segmentation, c['ds'], segment_number=seg, frame_numbers=fnums)
            reqs.append(('refSegment', {'seg': _seg_model(c), 'segment': seg, 'frames': fnums}))
        else:
            kw = {}
            if kind in ('by-segment', 'by-frames+segment'):
                kw['segment_number'] = seg
            if fnums is not None:
                kw['frame_number'] = fnums[0] if single_int else fnums
            res = _call(hd.sr.ReferencedSegmentationFrame.from_segmentation, c['ds'], **kw)
            reqs.append(('refSegFrame', {'seg': _seg_model(c), 'segment': kw.get('segment_number'), 'frames': fnums}))
        ok = res[0] == 'ok'
        obs = _observe_ref(res[1]) if ok else None
        pending.append((case, ('ok', obs) if ok else ('err', res[1]), 'seg'))
        ctx.case(sample=case if (c['idx'] % 37 == 0 and q == 0) else None,
                 nontrivial_key=(builder, kind, len(fnums or []), c['layout'], c['refser']) if ok else None,
                 path='from_segmentation/' + builder, seg_layout=c['layout'], seg_request=kind, seg_refser=c['refser'],
                 seg_outcome=('ok' if ok else res[2].split(':')[0]))
        # ---------------- oracle over the frame table
        site = f'from_segmentation/{builder}'
        bad_frames = fnums is not None and any(f < 1 or f > n for f in fnums)
        if not c['is_seg'] or bad_frames:
            if ok:
                ctx.fail(case, 'accepted a non-segmentation / a frame number outside the segmentation', site=site + '/refusal')
            continue
        named = fnums if fnums is not None else own
        if fnums is None and not own:
            if ok:
                ctx.fail(case, 'accepted a segment without frames', site=site + '/refusal')
            continue
        named_segments = {frames[f - 1]['segment'] for f in named}
        requested = seg if (builder == 'segment' or 'segment_number' in kw) else None
        if len(named_segments) > 1 or (requested is not None and named_segments != {requested}):
            if ok:
                ctx.fail(case, {'what': 'accepted frames that do not belong to the requested (single) segment',
                                'frame_segments': sorted(named_segments), 'requested': requested, 'observed': obs}, site=site + '/segment')
            continue
        if not ok:
            continue   # remaining refusals (ambiguous or missing source information) are the builder's documented right
        the_seg = next(iter(named_segments))
        if obs['cls'] != str(c['ds'].SOPClassUID) or obs['inst'] != str(c['ds'].SOPInstanceUID):
            ctx.fail(case, 'reference does not name the segmentation instance', site=site + '/target')
        if obs['segments'] != [the_seg]:
            ctx.fail(case, {'what': 'referenced segment number is not the segment of the named frames', 'got': obs['segments'],
                            'want': the_seg}, site=site + '/segment')
        if builder == 'frame' or fnums is not None:
            if obs['frames'] != list(named):
                ctx.fail(case, {'what': 'referenced frame numbers are not the frames named/owned', 'got': obs['frames'], 'want': named},
                         site=site + '/frames')
        if obs['frames'] is not None and any(frames[f - 1]['segment'] != the_seg for f in obs['frames'] if 1 <= f <= n):
            ctx.fail(case, 'a named segmentation frame does not belong to the referenced segment', site=site + '/frames')
        # sources: the instances and the frames of them that the named segmentation frames were derived from
        want_map = derived_from(frames, named)
        if want_map:
            got_map = {}
            for cls, inst, fn in obs['sources']:
                if inst in got_map:
                    ctx.fail(case, {'what': 'a source instance is named twice', 'got': obs['sources']}, site=site + '/sources')
                got_map[inst] = [cls, 'whole' if fn is None else set(fn)]
            if builder == 'segment':
                if list(got_map) != list(want_map) or got_map != want_map:
                    ctx.fail(case, {'what': 'source images are not the instances, each with the frames of it, that the named frames derive from '
                                            '(no frame numbers = derived from the instance as a whole)',
                                    'got': obs['sources'], 'want': {k: [v[0], v[1] if v[1] == 'whole' else sorted(v[1])] for k, v in want_map.items()},
                                    'segmentation_frames_named': list(named)}, site=site + '/sources')
            else:
                # one reference names one source image: the named frames must all derive from that one instance (refusal of
                # anything else is the builder's documented right and was handled above)
                if len(want_map) != 1 or got_map != want_map:
                    ctx.fail(case, {'what': 'source image / source frame numbers are not the ones the named segmentation frames derive from',
                                    'got': obs['sources'], 'want': {k: [v[0], v[1] if v[1] == 'whole' else sorted(v[1])] for k, v in want_map.items()},
                                    'segmentation_frames_named': list(named)}, site=site + '/source-frames')
        else:
            # fall back to the referenced series: instances listed there, or the series itself
            if c['ref_instances'] is not None:
                want = [[a, b, None] for a, b in c['ref_instances']]
                if obs['sources'] != want:
                    ctx.fail(case, {'what': 'fallback sources are not the instances of the referenced series', 'got': obs['sources'],
                                    'want': want}, site=site + '/sources')
            elif c['refser'] == 'series-only' and builder == 'segment':
                if obs['series'] != c['series'] or obs['sources']:
                    ctx.fail(case, 'fallback source series is not the referenced series', site=site + '/sources')


# ------------------------------------------------------------------ run
def _compare(ctx, pending, answers):
    for (case, impl, kind), ans in zip(pending, answers):
        if kind.endswith('-skip'):
            continue
        if 'proto_err' in ans:
            ctx.disagree('L0', case, impl, ans, 'model protocol error')
            continue
        model = ('ok', ans['ok']) if 'ok' in ans else ('err', ans['err'])
        if kind == 'raw' and impl[0] == 'ok' == model[0] and impl[1] is not None:
            # the tree the document holds, data set by data set in document order (attributes as a set), and the tree the
            # parser exposes for the written document
            m_items = [sorted(x) for x in model[1]['items']]
            if impl[1]['items'] != m_items:
                diff = [(a, b) for a, b in itertools.zip_longest(impl[1]['items'] or [], m_items) if a != b][:2]
                ctx.disagree('L1', case, {'n': len(impl[1]['items'] or []), 'first_differences': diff}, {'n': len(m_items)},
                             'raw: the tree the document holds vs convertRoot')
            mp = model[1]['parsed']
            ip = impl[1]['parsed']
            if ip is not None:
                if ('ok' in mp) != (ip[0] == 'ok'):
                    ctx.disagree('L0', case, ip[0], mp, 'raw: parsing the written document, ok-vs-error')
                elif ip[0] == 'ok' and ip[1] != [sorted(x) for x in mp['ok']['items']]:
                    diff = [(a, b) for a, b in itertools.zip_longest(ip[1], [sorted(x) for x in mp['ok']['items']]) if a != b][:2]
                    ctx.disagree('L1', case, {'first_differences': diff}, None, 'raw: the parsed tree vs parseDoc')
            continue
        if impl[0] != model[0]:
            ctx.disagree('L0', case, impl, model, f'{kind}: ok-vs-error')
        elif impl[0] == 'err' and impl[1] is not None and impl[1] != model[1]:
            # which exception class a refusal raises (recorded only: several reasons may hold at once and the property speaks of
            # refusal, not of its class)
            ctx.disagree('L2', dict(case, layer='L2') if isinstance(case, dict) else case, impl, model, f'{kind}: error kind')
        elif impl[0] == 'ok' and impl[1] is not None:
            a, b = impl[1], model[1]
            if kind == 'root':
                b = sorted(b)
            if isinstance(a, dict) and isinstance(b, dict):
                keys = sorted(set(a) & set(b))
                if 'resolved' in keys:
                    a = dict(a, resolved=sorted(a['resolved']))
                    b = dict(b, resolved=sorted(b['resolved']))
                diff = {k: {'impl': a[k], 'model': b[k]} for k in keys if a[k] != b[k]}
                if diff:
                    ctx.disagree('L1' if kind in ('doc', 'ko') else 'L0', case, diff, None, f'{kind}: value')
            elif a != b:
                ctx.disagree('L0', case, a, b, f'{kind}: value')


def run(ctx, stop_at_first_failure=False):
    import hd_env  # noqa: F401
    reqs, pending = [], []

    def found():
        return stop_at_first_failure and bool(ctx.failures)
    import glob
    import json
    import os
    for f in sorted(glob.glob(os.path.join(os.path.dirname(os.path.dirname(os.path.dirname(os.path.abspath(__file__)))),
                                           'corpus', 'C15', '*.json'))):
        case = json.load(open(f))
        _run_one(ctx, case, reqs, pending)
    for c in _placement_cases(ctx):
        if found():
            return
        _check_doc(ctx, c, reqs, pending)
        ctx.hist('placement', '/'.join(map(str, c['placement'])) + ('' if c['cls'] == 'Comprehensive3DSR' else '*'))
    ctx.exhaustive.append('placements: {reference without evidence, COMPOSITE with evidence, SCOORD3D} x depth 1..4 x parent '
                          '{container, SCOORD, NUM} x 3 document classes')
    for c in _coded_cases(ctx):
        if found():
            return
        _check_doc(ctx, c, reqs, pending)
        ctx.hist('coded_placement', '/'.join(map(str, c['coded'])))
    ctx.exhaustive.append('code forms: {scheme version, long code value, long + version, URN code value, URN + version, context group '
                          'attributes} on every coded name, on a CODE value and on a NUM unit and qualifier x depth 1..4 x parent '
                          '{container, NUM, CODE}')
    for c in _option_cases(ctx):
        if found():
            return
        _check_doc(ctx, c, reqs, pending)
        ctx.hist('option_case', f'verified={c["option_case"][0]}/observer={c["option_case"][1]}/organization={c["option_case"][2] is not None}'
                                f'/institution={c["option_case"][3] is not None}')
    ctx.exhaustive.append('options: is_verified x observer {none, str, PersonName} x organization x institution x department x '
                          'is_complete x is_final x performed procedure codes {none, [], 2} x 3 document classes'
                          + (' (quick tier: classes in turn)' if ctx.tier == 'quick' else ''))
    for idx in range(ctx.n(700, 6000)):
        if found():
            return
        _check_doc(ctx, _doc_case(ctx, idx), reqs, pending)
    for idx in range(ctx.n(160, 2500)):
        if found():
            return
        _check_raw(ctx, _raw_case(ctx, idx), reqs, pending)
    for idx in range(ctx.n(300, 2500)):
        if found():
            return
        _check_ko(ctx, _ko_case(ctx, idx), reqs, pending)
    for idx in range(ctx.n(450, 4000)):
        if found():
            return
        _check_seg(ctx, _seg_case(ctx, idx), reqs, pending)
    _real_segmentations(ctx)
    answers = ctx.model(reqs)
    if answers is None:
        return
    _compare(ctx, pending, answers)


def _real_segmentations(ctx):
    """A few references built from segmentations produced by highdicom itself (single-frame CT sources and an
    enhanced multi-frame source): oracle only."""
    import numpy as np
    import highdicom as hd
    from gen import sources
    for idx in range(ctx.n(4, 40)):
        r = ctx.rng('realseg', idx)
        multiframe = r.random() < 0.5
        n = r.randint(2, 4)
        try:
            if multiframe:
                src = [sources.enhanced_multiframe(n, 4, 5)]
            else:
                src = sources.ct_series(n, 4, 5)
            mask = np.zeros((n, 4, 5), dtype=np.uint8)
            present = sorted(r.sample(range(n), r.randint(1, n)))
            for z in present:
                mask[z, 1, 1] = 1
            seg = hd.seg.Segmentation(source_images=src, pixel_array=mask, segmentation_type='BINARY',
                                      segment_descriptions=[sources.seg_description(1)], series_instance_uid=hd.UID(),
                                      series_number=3, sop_instance_uid=hd.UID(), instance_number=1, manufacturer='v',
                                      manufacturer_model_name='v', software_versions='1', device_serial_number='1',
                                      omit_empty_frames=True)
        except Exception as e:  # noqa: BLE001
            ctx.note(f'real segmentation {idx} could not be built: {type(e).__name__}: {e}'[:200])
            continue
        nf = int(seg.NumberOfFrames)
        # what each frame was derived from, read from the data set through pydicom only
        table = []
        for it in seg.PerFrameFunctionalGroupsSequence:
            s = it.DerivationImageSequence[0].SourceImageSequence[0]
            fn = None
            if 'ReferencedFrameNumber' in s:
                v = s.ReferencedFrameNumber
                fn = [int(x) for x in v] if s['ReferencedFrameNumber'].VM > 1 else [int(v)]
            table.append({'segment': int(it.SegmentIdentificationSequence[0].ReferencedSegmentNumber),
                          'drv': [[(str(s.ReferencedSOPClassUID), str(s.ReferencedSOPInstanceUID), fn)]]})

        def as_map(obs):
            return {inst: [cls, 'whole' if fn is None else set(fn)] for cls, inst, fn in obs['sources']}
        for f in range(1, nf + 1):
            case = {'stream': 'realseg', 'seed': ctx.seed, 'idx': idx, 'frame': f, 'multiframe_source': multiframe}
            res = _call(hd.sr.ReferencedSegmentationFrame.from_segmentation, seg, frame_number=f)
            ctx.case(path='from_segmentation/real', nontrivial_key=('realseg', multiframe, nf, f))
            if res[0] != 'ok':
                ctx.fail(case, f'refused: {res[2]}', site='from_segmentation/frame/real')
                continue
            obs = _observe_ref(res[1])
            if obs['frames'] != [f] or obs['segments'] != [1]:
                ctx.fail(case, {'what': 'frame/segment named wrongly', 'obs': obs}, site='from_segmentation/frame/real')
            if as_map(obs) != derived_from(table, [f]):
                ctx.fail(case, {'what': 'source image/frames are not the ones this frame was derived from', 'got': obs['sources'],
                                'want': table[f - 1]['drv']}, site='from_segmentation/frame/source-frames')
        # by segment and by a subset of its frames: ReferencedSegment names every source (frame) the named frames derive from
        requests = [None] + [sorted(r.sample(range(1, nf + 1), r.randint(1, nf))) for _ in range(2)]
        for fnums in requests:
            case = {'stream': 'realseg', 'seed': ctx.seed, 'idx': idx, 'builder': 'segment', 'frames': fnums, 'multiframe_source': multiframe}
            res = _call(hd.sr.ReferencedSegment.from_segmentation, seg, segment_number=1, frame_numbers=fnums)
            ctx.case(path='from_segmentation/real-segment', nontrivial_key=('realseg-segment', multiframe, nf, tuple(fnums or ())))
            if res[0] != 'ok':
                ctx.fail(case, f'refused: {res[2]}', site='from_segmentation/segment/real')
                continue
            obs = _observe_ref(res[1])
            named = fnums if fnums is not None else list(range(1, nf + 1))
            want = derived_from(table, named)
            got = as_map(obs)
            if obs['frames'] != fnums or obs['segments'] != [1] or list(got) != list(want) or got != want:
                ctx.fail(case, {'what': 'reference does not name the frames given / the source instances with the source frames the named '
                                        'frames derive from', 'got': obs,
                                'want': {k: [v[0], v[1] if v[1] == 'whole' else sorted(v[1])] for k, v in want.items()}},
                         site='from_segmentation/segment/sources')


def _run_one(ctx, case, reqs, pending):
    s = case.get('stream')
    if s == 'doc' and case['idx'] >= 300000:
        # (the quick tier generates a third of the option cases: replay looks the case up in the full product)
        full = type(ctx)(ctx.prop, 'thorough', ctx.seed, 1, ctx.driver)
        for c in _option_cases(full):
            if c['idx'] == case['idx']:
                _check_doc(ctx, c, reqs, pending)
    elif s == 'doc' and case['idx'] >= 200000:
        for c in _coded_cases(ctx):
            if c['idx'] == case['idx']:
                _check_doc(ctx, c, reqs, pending)
    elif s == 'doc' and case['idx'] >= 100000:
        for c in _placement_cases(ctx):
            if c['idx'] == case['idx']:
                _check_doc(ctx, c, reqs, pending)
    elif s == 'doc':
        _check_doc(ctx, _doc_case(ctx, case['idx']), reqs, pending)
    elif s == 'raw':
        _check_raw(ctx, _raw_case(ctx, case['idx']), reqs, pending)
    elif s == 'ko':
        _check_ko(ctx, _ko_case(ctx, case['idx']), reqs, pending)
    elif s == 'seg':
        _check_seg(ctx, _seg_case(ctx, case['idx']), reqs, pending)


def search(ctx, broken):
    """failing-input search after a tie broke: the same streams (x10 where they are random), stopped at the first oracle failure -
    the search is for ONE failing input"""
    run(ctx, stop_at_first_failure=True)


def replay(ctx, case):
    sub = type(ctx)(ctx.prop, ctx.tier, case.get('seed', ctx.seed), 1, ctx.driver)
    if case.get('stream') == 'realseg':
        _real_segmentations(sub)
    else:
        _run_one(sub, case, [], [])
    return sub.failures[:3] or None
