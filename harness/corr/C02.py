"""C02  Segment selection, ordering, combining and relabelling are exact.

Tie T: T8 (`_get_unsigned_dtype`), T8b (output-value ceiling / default dtype head of
`_get_pixels_by_seg_frame`), T8c (LABELMAP need_remap / intermediate-dtype decision), T8d (BINARY/FRACTIONAL
intermediate dtype and refusals), T8e (the LABELMAP remapping table, cell by cell), T8f (per-number checks of
`get_pixels_by_source_frame`), T8h (effect summaries — rebinding vs in-place — of the three functions a read runs through).
Tie C: the read-side model (Model/SegRead.lean, Model/SegMeta.lean) is run on the *stored frames of the
real object as pydicom sees them* (segment number, source reference, dimension index values, decoded
pixels) and compared with what the five public read entry points return (L0); `_get_segment_remap_values`
and `_combine_segments` are L2.
Oracle (independent of the model): numpy recomputation of every read from the mask that was passed to the
constructor; search results recomputed from the description records the generator drew.
"""
from __future__ import annotations

import io
import itertools
from fractions import Fraction

import numpy as np

PROP = 'C02'
TARGETS = ['T8', 'T8b', 'T8c', 'T8d', 'T8e', 'T8f', 'T8g', 'T8h', 'T8j', 'T8k', 'T8m', 'T8n', 'T8p', 'T8q', 'T8r', 'T8s', 'T17p']
LEAN_MODULES = ['HdVerif.Props.C02']
MODEL_MODULES = ['HdVerif.Model.SegRead', 'HdVerif.Model.SegReadSpec', 'HdVerif.Model.SegReadState', 'HdVerif.Model.SegMeta', 'HdVerif.Model.Effects']
NAMESPACE = 'HdVerif.C02'
DRIVER = 'Drivers/C02.lean'
RULE = ('segmentation objects built with the real constructor from (source kind, type, segment numbers, mask, '
        'omit_empty_frames, tiling), about 45 % of them then edited the way a third party might have written them (non-contiguous '
        'numbers in BINARY/FRACTIONAL, frames permuted, spatial locations NO / absent / REORIENTED_ONLY / mixed, a frame with two '
        'sources, segment identification only in the shared groups) and opened through one of: in memory, from_dataset (copy or '
        'not, via the parent Image class), segread eager / lazy, pickle, deepcopy; every object gets a history of reads (pixel_array accessed at a random '
        'step, refused reads kept, earlier requests repeated; object snapshots compared after every step); '
        'an array returned earlier must not change later; '
        'one case = one read request (entry point, ordered segment '
        'subset — 7 % with a number repeated —, combine, relabel, skip_overlap_checks, rescale_fractional, dtype, requested planes '
        'incl. absent ones, assert_missing, ignore_spatial_locations True / False / left out) or one metadata query '
        '(get_segment_numbers, get_tracking_ids, get_segment_description, segmented_property_categories / types); non-trivial = accepted read whose result is neither all zero nor all '
        'equal, or a search with at least one match and one non-match; distinct by (type, entry, number of segments, '
        'subset shape, options, dtype, outcome)')
ASSUMPTIONS = [
    'stored frames represent the mask given to the constructor (that is property C01; here the model starts from the '
    'stored frames as decoded by pydicom, the oracle from the constructor input)',
    'numpy astype between integer dtypes wraps modulo 2^bits; integers below 2^24 are exact in float32/float64',
    'SQLite joins are modelled as list comprehensions; the order of rows inside one output frame is not fixed by the '
    'query and is shown not to matter (theorem combine_order_independent)',
    'float16 output dtype is not exercised (integers above 2048 are not exact there)',
    'third-party objects (dataset edited after construction, parsed again): non-contiguous segment numbers in BINARY / FRACTIONAL '
    'objects are drawn except for TILED_FULL, where the segment of a frame is implied by its position and the library takes '
    'the ordinal for the number (tried once: such an object reads as empty for its real numbers; the standard requires 1..n there)',
    'third-party label maps with PixelPaddingValue != 0 (stream ppv): an unrelabelled combined read keeps the object\'s own '
    'background value where no requested segment is (code: "sets unused segments to the background value") — the oracle takes that '
    'value for the 0 of the property statement there; relabelled and stacked reads must give 0; not drawn for tiled objects (comparing the stored padding of edge tiles would need the tile layout); the refinement theorem asks bg = 0',
    'a BINARY / FRACTIONAL object that does not use ReferencedSegmentNumber as a dimension index (Segment Identification only in '
    'the shared functional groups) cannot be read by segment at all: every read fails with KeyError / sqlite3.OperationalError; '
    'the model mirrors the refusal (segIndexed), the oracle is silent there (findings/C02.json: open, docs/C02.md)',
]
MODELLED_NOT_VERIFIED = ['numpy (astype, fancy indexing, eye, maximum, isin)',
                         'SQLite (joins as list comprehensions; a temporary table as a flag exists / does not exist; locking — a DROP '
                         'while a query on the table is still open — is not modelled)', 'pydicom dataset / pixel decoding',
                         'frame decoding and frame LUT construction (C01/C05)', 'tiled-region slice arithmetic (C04)',
                         'volume geometry (C03)']

DTYPES = [None, None, None, None, 'uint8', 'uint16', 'uint32', 'uint64', 'int8', 'int16', 'int32', 'int64', 'float32',
          'float64', 'bool']
# the documented defaults of the read options (identical in the docstrings of all five entry points)
EXTRA_UID = '1.2.826.0.1.3680043.8.498.777'     # an instance some objects LIST as referenced although no frame derives from it
DEFAULTS = {'combine': False, 'relabel': False, 'skip': False, 'rescale': True, 'assert_missing': False}
KWNAME = {'combine': 'combine_segments', 'relabel': 'relabel', 'skip': 'skip_overlap_checks', 'rescale': 'rescale_fractional',
          'assert_missing': 'assert_missing_frames_are_empty'}
DTYPE_MAX = {'uint8': 255, 'uint16': 65535, 'uint32': 2 ** 32 - 1, 'uint64': 2 ** 64 - 1, 'int8': 127, 'int16': 32767,
             'int32': 2 ** 31 - 1, 'int64': 2 ** 63 - 1, 'float32': 2 ** 127, 'float64': 2 ** 1023, 'bool': 1}


# ------------------------------------------------------------------------------------------ helpers
def _fetch(fn, *a, _keep=None, **k):
    try:
        return ('ok', fn(*a, **k))
    except Exception as e:  # noqa: BLE001
        if _keep is not None:
            # the caller holds on to the exception object (pytest.raises, errors.append(e), a REPL): its traceback keeps the
            # frames of the failed call — and whatever they still hold open — alive
            _keep.append(e)
        return ('err', type(e).__name__ + ': ' + str(e)[:160])


def _err_kind(msg):
    name = msg.split(':')[0]
    return {'IndexError': 'index', 'ValueError': 'value', 'TypeError': 'type', 'RuntimeError': 'runtime',
            'KeyError': 'key', 'AttributeError': 'attribute'}.get(name, 'other')


def _smallest_unsigned(v):
    return 'uint8' if v < 256 else ('uint16' if v < 65536 else 'uint32')


# (value, scheme designator, meaning, scheme version): private codes, same value under another scheme, same code with
# another meaning, retired SRT values next to their SCT aliases, and the same SCT code with scheme versions
CODE_POOL = [('T-1', '99VERIF', 'alpha', None), ('T-2', '99VERIF', 'beta', None), ('T-1', '99OTHER', 'alpha', None),
             ('T-3', '99VERIF', 'gamma', None), ('T-2', '99VERIF', 'beta renamed', None),
             ('T-D0050', 'SRT', 'Tissue', None), ('85756007', 'SCT', 'Tissue', None),
             ('85756007', 'SCT', 'Tissue', '2020'), ('85756007', 'SCT', 'Tissue', '2021'),
             ('T-B7000', 'SRT', 'x', None), ('111002', 'SCT', 'x', None), ('T-ZZZZZ', 'SRT', 'unmapped', None)]


def _srt_table():
    try:
        from pydicom.sr._snomed_dict import mapping
        return mapping['SRT']
    except Exception:  # noqa: BLE001
        return {}


def _code_key(c):
    """What two codes must share to be the same concept (independent statement of the rule the standard's retirement of
    SRT implies, using pydicom's SRT->SCT table as data): SRT values are replaced by their SCT value; value, scheme and
    scheme version must agree."""
    value, scheme, version = c[0], c[1], (c[3] if len(c) > 3 else None)
    if scheme == 'SRT' and value in _srt_table():
        value, scheme = _srt_table()[value], 'SCT'
    return (value, scheme, version)


LABEL_POOL = ['liver', 'Liver', 'tumor', 'tumor 2', 'kidney', 'x']
ALGO_POOL = ['MANUAL', 'SEMIAUTOMATIC', 'AUTOMATIC']
TRACK_POOL = ['trk-a', 'trk-b', 'trk-c']


def _descriptions(r, nums, uid_pool):
    """Random description records + the SegmentDescription objects built from them."""
    import highdicom as hd
    from pydicom.sr.coding import Code
    recs, descs = [], []
    for n in nums:
        cat = r.choice(CODE_POOL)
        typ = r.choice(CODE_POOL)
        algo = r.choice(ALGO_POOL)
        rec = {'number': int(n), 'label': r.choice(LABEL_POOL), 'category': cat, 'type': typ, 'algo': algo,
               'tracking_id': None, 'tracking_uid': None}
        kw = {}
        if r.random() < 0.6:
            rec['tracking_id'] = r.choice(TRACK_POOL)
            rec['tracking_uid'] = r.choice(uid_pool)
            kw = {'tracking_id': rec['tracking_id'], 'tracking_uid': rec['tracking_uid']}
        if algo != 'MANUAL':
            kw['algorithm_identification'] = hd.AlgorithmIdentificationSequence(
                name='algo', family=Code('123109', 'DCM', 'Manual Processing'), version='1')
        descs.append(hd.seg.SegmentDescription(
            segment_number=int(n), segment_label=rec['label'], segmented_property_category=Code(*cat),
            segmented_property_type=Code(*typ), algorithm_type=algo, **kw))
        recs.append(rec)
    return recs, descs


# ------------------------------------------------------------------------------------------ objects
def _draw_object(ctx, idx):
    """Pure function of (seed, idx): the parameters of one segmentation object."""
    r = ctx.rng('obj', idx)
    kind = r.choice(['series', 'series', 'multiframe', 'multiframe', 'single', 'tiled', 'tiled'])
    segtype = r.choice(['BINARY', 'BINARY', 'FRACTIONAL', 'FRACTIONAL', 'LABELMAP', 'LABELMAP', 'LABELMAP'])
    nseg = r.choice([1, 2, 2, 3, 3, 3, 4, 4, 5, 6])
    if segtype == 'LABELMAP':
        style = r.choice(['consecutive', 'sparse8', 'sparse16', 'sparse16', 'high16', 'edge'])
        if style == 'consecutive':
            nums = list(range(1, nseg + 1))
        elif style == 'sparse8':
            nums = sorted(r.sample(range(1, 256), nseg))
        elif style == 'sparse16':
            nums = sorted(r.sample(range(1, 701), nseg))
            if nums[-1] < 256:
                nums[-1] = r.randint(256, 700)
        elif style == 'high16':
            nums = sorted(r.sample(range(256, 66), nseg)) if False else sorted(r.sample(range(256, 65536), nseg))
        else:
            pool = [1, 2, 127, 128, 254, 255, 256, 257, 511, 512, 65534, 65535]
            nums = sorted(r.sample(pool, min(nseg, len(pool))))
    else:
        nums = list(range(1, nseg + 1))
    nseg = len(nums)
    if r.random() < 0.8:
        rows, cols = r.randint(1, 5), r.randint(1, 6)
    else:
        rows, cols = r.randint(1, 12), r.randint(1, 12)
    planes = {'series': r.choice([1, 2, 3, 3, 4, 5]), 'multiframe': r.choice([1, 2, 3, 4, 5, 6]), 'single': 1, 'tiled': 1}[kind]
    d = {'idx': idx, 'kind': kind, 'type': segtype, 'nums': nums, 'rows': rows, 'cols': cols, 'planes': planes,
         'omit': r.random() < 0.7, 'mfv': r.choice([1, 2, 100, 255, 255]) if segtype == 'FRACTIONAL' else None,
         'form': 'stack4d' if (segtype != 'LABELMAP' or r.random() < 0.3) else 'label3d',
         'via': r.choice(['memory', 'memory', 'memory', 'file', 'lazy']),
         'density': r.choice([0.15, 0.3, 0.5]), 'overlap': segtype != 'LABELMAP' and r.random() < 0.5,
         'frac_binary': r.random() < 0.4, 'empty_planes': r.random() < 0.5, 'order': None}
    d['extra_ref'] = r.random() < 0.3
    if segtype == 'FRACTIONAL' and d['mfv'] >= 100 and r.random() < 0.35:
        # a malformed object (not constructible): MaximumFractionalValue lowered after construction, so stored values exceed
        # it; the oracle is silent on it, model and implementation must still agree (refusals of the frame transform's
        # output range check, of the `max() > MaximumFractionalValue` guard, of the binarity test)
        d['patch_mfv'] = d['mfv'] // 2
    if kind in ('series', 'multiframe') and r.random() < 0.5:
        o = list(range(planes))
        r.shuffle(o)
        d['order'] = o
    if kind == 'tiled':
        tr, tc = r.randint(1, 4), r.randint(1, 5)
        d['tile'] = [tr, tc]
        d['rows'], d['cols'] = r.randint(tr, 3 * tr + 2), r.randint(tc, 3 * tc + 2)   # total pixel matrix size
        d['src_tile'] = [r.randint(1, 4), r.randint(1, 4)]
        d['tiled_full'] = r.random() < 0.4
        if d['tiled_full']:
            d['omit'] = False
    # ---- the object as a THIRD PARTY might have written it (own PRNG stream: the population above is unchanged): the dataset
    # is edited after construction and parsed again
    r3 = ctx.rng('third', idx)
    third = []
    tiled_full_maybe = bool(d.get('tiled_full'))
    if segtype != 'LABELMAP' and r3.random() < 0.3 and not d.get('tiled_full'):
        # non-contiguous segment numbers in a BINARY / FRACTIONAL object (the constructor insists on 1..n, the standard does not)
        third.append('renumber')
        d['build_nums'] = list(nums)
        d['nums'] = sorted(r3.sample(range(1, 300 if r3.random() < 0.8 else 60000), len(nums)))
    elif segtype != 'LABELMAP' and len(nums) == 1 and r3.random() < 0.12 and kind != 'tiled':
        third.append('shared_seg')     # Segment Identification only in the shared functional groups, not a dimension
    if segtype == 'LABELMAP' and kind != 'tiled' and r3.random() < 0.25:
        # a label map whose background is not 0: PixelPaddingValue = a number no segment has (the background item of the
        # SegmentSequence and the stored background pixels follow)
        free = [x for x in range(1, 120) if x not in d['nums']]
        third.append('ppv')
        d['ppv'] = r3.choice(free)
    if r3.random() < 0.25 and not tiled_full_maybe:
        third.append('permute')        # frames stored in another order
        d['perm_seed'] = r3.randrange(10 ** 6)
    if kind in ('series', 'multiframe', 'single'):
        x = r3.random()
        if x < 0.2:
            third.append(r3.choice(['loc_no', 'loc_absent', 'loc_one_no', 'loc_one_absent', 'loc_reoriented']))
        elif x < 0.25 and kind != 'single':
            third.append('multi_src')  # one frame derives from two source frames
    d['third'] = third
    if d['via'] in ('memory', 'file') and r3.random() < 0.35:
        d['via'] = r3.choice(['file_copy', 'segread', 'pickle', 'deepcopy', 'parent'])
    return d


def _draw_mask(ctx, d):
    """store[p, r, c, s] = integer that must be stored for segment s (0/1, or 0..mfv for FRACTIONAL)."""
    nr = ctx.np_rng('mask', d['idx'])
    P, R, C, S = d['planes'], d['rows'], d['cols'], len(d['nums'])
    if d['overlap']:
        store = (nr.random((P, R, C, S)) < d['density']).astype(np.int64)
    else:
        lab = nr.integers(0, S + 1, size=(P, R, C))
        keep = nr.random((P, R, C)) < min(0.9, d['density'] * 2)
        lab = lab * keep
        store = np.stack([(lab == s + 1) for s in range(S)], axis=-1).astype(np.int64)
    if d['type'] == 'FRACTIONAL':
        mfv = d['mfv']
        if not d['frac_binary']:
            store = store * nr.integers(1, mfv + 1, size=store.shape)
        else:
            store = store * mfv
    if d['empty_planes'] and P > 1:
        for p in range(P):
            if nr.random() < 0.35:
                store[p] = 0
        if nr.random() < 0.5:
            store[P - 1] = 0      # trailing plane empty: source frame numbers above the highest referenced one exist
    if nr.random() < 0.2 and S > 1:
        store[..., int(nr.integers(0, S))] = 0   # a described segment that is empty everywhere
    return store


def _constructor_input(d, store):
    if d['type'] == 'FRACTIONAL':
        return (store.astype(np.float64) / d['mfv'])
    if d['form'] == 'label3d':
        nums = np.array(d['nums'])
        lab = np.zeros(store.shape[:3], dtype=np.uint16 if max(d['nums']) > 255 else np.uint8)
        for s, n in enumerate(nums):
            lab[store[..., s] > 0] = n
        return lab
    return store.astype(np.uint8)


def _build(ctx, d):
    """Build the object with the real constructor.  Returns obj dict or None (generator failure is noted)."""
    import highdicom as hd
    import pydicom
    from gen.sources import (ct_series, enhanced_multiframe, single_image_no_for, slide_image)
    r = ctx.rng('desc', d['idx'])
    store = _draw_mask(ctx, d)
    uid_pool = ['1.2.826.0.1.3680043.8.498.%d' % (1000 + i) for i in range(3)]
    recs, descs = _descriptions(r, d.get('build_nums', d['nums']), uid_pool)
    for rec, n in zip(recs, d['nums']):
        rec['number'] = int(n)
    third = d.get('third') or []
    kind = d['kind']
    kw = {}
    if kind == 'series':
        src = ct_series(d['planes'], d['rows'], d['cols'], order=d['order'])
        # pixel_array plane p belongs to src[p] (the list order given to the constructor)
    elif kind == 'multiframe':
        src = [enhanced_multiframe(d['planes'], d['rows'], d['cols'], order=d['order'])]
    elif kind == 'single':
        src = [single_image_no_for(d['rows'], d['cols'])]
    else:
        ds, _ = slide_image(d['rows'], d['cols'], d['src_tile'][0], d['src_tile'][1])
        src = [ds]
        kw = {'tile_pixel_array': True, 'tile_size': tuple(d['tile'])}
        if d['tiled_full']:
            kw['dimension_organization_type'] = 'TILED_FULL'
    arr = _constructor_input(d, store)
    st, seg = _fetch(
        hd.seg.Segmentation, source_images=src, pixel_array=arr.copy(), segmentation_type=d['type'],
        segment_descriptions=descs, series_instance_uid=hd.UID(), series_number=2, sop_instance_uid=hd.UID(),
        instance_number=1, manufacturer='verif', manufacturer_model_name='verif', software_versions='1',
        device_serial_number='1', omit_empty_frames=d['omit'],
        **({'max_fractional_value': d['mfv']} if d['type'] == 'FRACTIONAL' else {}), **kw)
    if st == 'err':
        return {'d': d, 'error': seg, 'store': store}
    if d.get('patch_mfv'):
        seg.MaximumFractionalValue = d['patch_mfv']
    if d.get('extra_ref') and 'ReferencedSeriesSequence' in seg and len(seg.ReferencedSeriesSequence[0].ReferencedInstanceSequence):
        # the object lists one more referenced instance, from which no frame derives (legal: e.g. an image that was looked at)
        import copy as _copy
        extra = _copy.deepcopy(seg.ReferencedSeriesSequence[0].ReferencedInstanceSequence[0])
        extra.ReferencedSOPInstanceUID = EXTRA_UID
        seg.ReferencedSeriesSequence[0].ReferencedInstanceSequence.append(extra)
    if third:
        st3, why = _fetch(_third_party_edit, seg, d, third)
        if st3 == 'err':
            return {'d': d, 'error': 'third-party edit: ' + why, 'store': store}
    buf = io.BytesIO()
    seg.save_as(buf)
    blob = buf.getvalue()
    px = pydicom.dcmread(io.BytesIO(blob)).pixel_array       # pydicom's own decoding of the stored frames
    if px.ndim == 2:
        px = px[None]
    if 'ppv' in third:
        ds = pydicom.dcmread(io.BytesIO(blob))
        v = int(d['ppv'])
        ds.PixelPaddingValue = v
        for it in ds.SegmentSequence:
            if int(it.SegmentNumber) == 0:
                it.SegmentNumber = v
        px = px.copy()
        px[px == 0] = v
        data = px.astype(np.uint16 if int(ds.BitsAllocated) == 16 else np.uint8).tobytes()
        ds.PixelData = data + (b'\x00' if len(data) % 2 else b'')
        buf = io.BytesIO()
        ds.save_as(buf)
        blob = buf.getvalue()
    if 'permute' in third and px.shape[0] > 1:
        ds = pydicom.dcmread(io.BytesIO(blob))
        perm = list(range(px.shape[0]))
        __import__('random').Random(d.get('perm_seed', 0)).shuffle(perm)
        items = list(ds.PerFrameFunctionalGroupsSequence)
        ds.PerFrameFunctionalGroupsSequence = pydicom.Sequence([items[i] for i in perm])
        px = px[perm]
        if int(ds.BitsAllocated) == 1:
            from pydicom.pixels.utils import pack_bits
            data = pack_bits(px.reshape(-1).astype(np.uint8), pad=True)
        else:
            data = px.astype(np.uint16 if int(ds.BitsAllocated) == 16 else np.uint8).tobytes()
            if len(data) % 2:
                data += b'\x00'
        ds.PixelData = data
        buf = io.BytesIO()
        ds.save_as(buf)
        blob = buf.getvalue()
        px2 = pydicom.dcmread(io.BytesIO(blob)).pixel_array
        px2 = px2[None] if px2.ndim == 2 else px2
        if not np.array_equal(px2, px):
            return {'d': d, 'error': 'generator: permuted frames do not decode to the permuted planes', 'store': store}
    via = d['via']
    if via == 'memory' and (d.get('extra_ref') or third):
        via = 'file'          # (an edited object is parsed again so that the object's tables see the edit)
        d['via'] = via
    if via != 'memory':
        if via == 'file':
            st, seg2 = _fetch(lambda: hd.seg.Segmentation.from_dataset(pydicom.dcmread(io.BytesIO(blob)), copy=False))
        elif via == 'file_copy':
            st, seg2 = _fetch(lambda: hd.seg.Segmentation.from_dataset(pydicom.dcmread(io.BytesIO(blob)), copy=True))
        elif via == 'segread':
            st, seg2 = _fetch(hd.seg.segread, io.BytesIO(blob))
        elif via == 'parent':
            # parsed by the parent class first, then by Segmentation from that object
            st, seg2 = _fetch(lambda: hd.seg.Segmentation.from_dataset(
                hd.Image.from_dataset(pydicom.dcmread(io.BytesIO(blob))), copy=r.random() < 0.5))
        elif via == 'pickle':
            import pickle
            st, seg2 = _fetch(lambda: pickle.loads(pickle.dumps(
                hd.seg.Segmentation.from_dataset(pydicom.dcmread(io.BytesIO(blob)), copy=False))))
        elif via == 'deepcopy':
            import copy as _copy
            st, seg2 = _fetch(lambda: _copy.deepcopy(
                hd.seg.Segmentation.from_dataset(pydicom.dcmread(io.BytesIO(blob)), copy=False)))
        else:
            st, seg2 = _fetch(hd.seg.segread, io.BytesIO(blob), lazy_frame_retrieval=True)
        if st == 'err':
            return {'d': d, 'error': 'reopen: ' + seg2, 'store': store}
        seg = seg2
    facts = _indexing_facts(pydicom.dcmread(io.BytesIO(blob)))
    return {'d': d, 'seg': seg, 'store': store, 'src': src, 'recs': recs, 'px': px, 'facts': facts}


def _third_party_edit(seg, d, third):
    """Edit the constructed dataset in place the way another implementation might legally have written it."""
    import copy as _copy
    import pydicom
    pffg = seg.get('PerFrameFunctionalGroupsSequence') or []
    if 'renumber' in third:
        ren = {int(a): int(b) for a, b in zip(d['build_nums'], d['nums'])}
        for it in seg.SegmentSequence:
            it.SegmentNumber = ren[int(it.SegmentNumber)]
        for it in pffg:
            if 'SegmentIdentificationSequence' in it:
                sid = it.SegmentIdentificationSequence[0]
                sid.ReferencedSegmentNumber = ren[int(sid.ReferencedSegmentNumber)]
    if 'shared_seg' in third and len(pffg) and 'DimensionIndexSequence' in seg:
        ptrs = [int(i.DimensionIndexPointer) for i in seg.DimensionIndexSequence]
        if 0x0062000B in ptrs and len(ptrs) > 1:
            k = ptrs.index(0x0062000B)
            sis = _copy.deepcopy(pffg[0].SegmentIdentificationSequence)
            for it in pffg:
                del it.SegmentIdentificationSequence
                v = it.FrameContentSequence[0].DimensionIndexValues
                v = [int(v)] if isinstance(v, (int, np.integer)) else [int(x) for x in v]
                it.FrameContentSequence[0].DimensionIndexValues = v[:k] + v[k + 1:]
            seg.SharedFunctionalGroupsSequence[0].SegmentIdentificationSequence = sis
            seg.DimensionIndexSequence = pydicom.Sequence([x for i, x in enumerate(seg.DimensionIndexSequence) if i != k])
        else:
            third.remove('shared_seg')
    srcs = [s for it in pffg for dv in it.get('DerivationImageSequence', []) for s in dv.get('SourceImageSequence', [])]
    for kind_ in ('loc_no', 'loc_absent', 'loc_one_no', 'loc_one_absent', 'loc_reoriented'):
        if kind_ in third and srcs:
            todo = srcs if kind_ in ('loc_no', 'loc_absent', 'loc_reoriented') else [srcs[-1]]
            for s in todo:
                if kind_.endswith('absent'):
                    if 'SpatialLocationsPreserved' in s:
                        del s.SpatialLocationsPreserved
                elif kind_ == 'loc_reoriented':
                    s.SpatialLocationsPreserved = 'REORIENTED_ONLY'
                else:
                    s.SpatialLocationsPreserved = 'NO'
    if 'multi_src' in third:
        done = False
        for it in pffg:
            for dv in it.get('DerivationImageSequence', []):
                sis = dv.get('SourceImageSequence', [])
                if len(sis) == 1 and not done:
                    extra = _copy.deepcopy(sis[0])
                    if 'ReferencedFrameNumber' in extra:
                        extra.ReferencedFrameNumber = int(extra.ReferencedFrameNumber) + 1
                    else:
                        others = [str(x.ReferencedSOPInstanceUID) for x in srcs if str(x.ReferencedSOPInstanceUID) != str(extra.ReferencedSOPInstanceUID)]
                        if not others:
                            continue
                        extra.ReferencedSOPInstanceUID = others[0]
                    sis.append(extra)
                    done = True
        if not done:
            third.remove('multi_src')
    return None


def _indexing_facts(seg_ds):
    """What a third party reads off the object about indexing by source (pydicom view, independent of the library's tables):
    (spatial locations preserved: 'yes' / 'no' / 'unknown', every frame has exactly one source frame, TILED_FULL,
    ReferencedSegmentNumber is a dimension index)."""
    locs, single = [], True
    for it in seg_ds.get('PerFrameFunctionalGroupsSequence', []):
        inst, frs = [], []
        for dv in it.get('DerivationImageSequence', []):
            for s in dv.get('SourceImageSequence', []):
                locs.append(str(s.SpatialLocationsPreserved) if 'SpatialLocationsPreserved' in s else None)
                inst.append(str(s.ReferencedSOPInstanceUID))
                fr = s.get('ReferencedFrameNumber')
                if fr is None:
                    frs.append(None)
                elif isinstance(fr, (int, np.integer)):
                    frs.append(int(fr))
                else:
                    frs.extend(int(x) for x in fr)
        if len(set(inst)) != 1 or len(set(frs)) != 1:
            single = False
    if any(v == 'NO' for v in locs):
        loc = 'no'
    elif all(v == 'YES' for v in locs):
        loc = 'yes'
    else:
        loc = 'unknown'
    tiled_full = str(seg_ds.get('DimensionOrganizationType', '')) == 'TILED_FULL'
    ptrs = [int(i.DimensionIndexPointer) for i in seg_ds.get('DimensionIndexSequence', [])]
    return {'loc': loc if not tiled_full else 'unknown', 'single': single and not tiled_full, 'tiled_full': tiled_full,
            'seg_indexed': 0x0062000B in ptrs or tiled_full}


# ------------------------------------------------------------------------------------------ stored frames (L1 view)
def _stored_view(obj):
    """What a third party sees in the object through pydicom: per frame (segment number | None, source uid,
    source frame number | None, dimension index values without the segment index, tile position | None, pixels)."""
    seg = obj['seg']
    d = obj['d']
    n = int(seg.NumberOfFrames)
    ds = seg
    px = obj['px']
    ptrs = [int(it.DimensionIndexPointer) for it in ds.DimensionIndexSequence] if 'DimensionIndexSequence' in ds else []
    seg_ptr = 0x0062000B
    frames = []
    pffg = ds.get('PerFrameFunctionalGroupsSequence')
    for i in range(n):
        rec = {'i': i, 'seg': None, 'uid': None, 'frame': None, 'div': None, 'pos': None, 'pix': px[i]}
        if pffg is not None:
            it = pffg[i]
            if 'SegmentIdentificationSequence' in it:
                rec['seg'] = int(it.SegmentIdentificationSequence[0].ReferencedSegmentNumber)
            if 'DerivationImageSequence' in it and len(it.DerivationImageSequence) and \
                    'SourceImageSequence' in it.DerivationImageSequence[0]:
                s0 = it.DerivationImageSequence[0].SourceImageSequence[0]
                rec['uid'] = str(s0.ReferencedSOPInstanceUID)
                if 'ReferencedFrameNumber' in s0:
                    rec['frame'] = int(s0.ReferencedFrameNumber)
            if 'FrameContentSequence' in it and 'DimensionIndexValues' in it.FrameContentSequence[0]:
                v = it.FrameContentSequence[0].DimensionIndexValues
                v = [int(v)] if isinstance(v, (int, np.integer)) else [int(x) for x in v]
                rec['div'] = tuple(x for x, p in zip(v, ptrs) if p != seg_ptr)
            if 'PlanePositionSlideSequence' in it:
                pp = it.PlanePositionSlideSequence[0]
                rec['pos'] = (int(pp.RowPositionInTotalImagePixelMatrix), int(pp.ColumnPositionInTotalImagePixelMatrix))
        frames.append(rec)
    if d['kind'] == 'tiled' and d.get('tiled_full'):
        # TILED_FULL: positions are implied by frame order: segment-major, then row-major tiles
        tr, tc = d['tile']
        nth, ntw = -(-d['rows'] // tr), -(-d['cols'] // tc)
        for i, rec in enumerate(frames):
            s, t = divmod(i, nth * ntw)
            rec['seg'] = d['nums'][s] if d['type'] != 'LABELMAP' else None
            rec['pos'] = ((t // ntw) * tr + 1, (t % ntw) * tc + 1)
    return frames


# ------------------------------------------------------------------------------------------ requests
def _subsets(ctx, d, r):
    nums = d['nums']
    n = len(nums)
    exhaustive_upto = 3 if ctx.tier == 'quick' else 4
    out = []
    if n <= exhaustive_upto and r.random() < (0.35 if ctx.tier == 'quick' else 0.6):
        for k in range(1, n + 1):
            for p in itertools.permutations(nums, k):
                out.append(list(p))
        return out, True
    out.append(list(nums))
    if n > 1:
        out.append(list(reversed(nums)))
        for leave in range(n):       # every "exactly one left out"
            out.append([x for i, x in enumerate(nums) if i != leave])
    for _ in range(6):
        k = r.randint(1, n)
        out.append(r.sample(nums, k))
    return out, False


def _requests(ctx, obj):
    d = obj['d']
    r = ctx.rng('req', d['idx'])
    subsets, exhaustive = _subsets(ctx, d, r)
    if exhaustive:
        ctx.hist('exhaustive_subset_objects', len(d['nums']))
    entries = {'series': ['instance', 'div', 'volume'], 'multiframe': ['frame', 'div', 'volume'],
               'single': ['instance'], 'tiled': ['tpm', 'tpm', 'volume', 'div']}[d['kind']]
    P = d['planes']
    reqs = []
    for segs in subsets:
        for rep in range(2):
            entry = r.choice(entries)
            combine = r.random() < 0.6
            rq = {'entry': entry, 'segs': segs, 'combine': combine, 'relabel': combine and r.random() < 0.5 or (not combine and r.random() < 0.15),
                  'skip': r.random() < 0.4, 'rescale': r.random() < 0.7, 'dtype': r.choice(DTYPES),
                  'assert_missing': r.random() < 0.4, 'planes': None, 'segs_none': False}
            if segs == d['nums'] and r.random() < 0.3:
                rq['segs_none'] = True
            # every accepted spelling of the segment numbers: list / tuple / ndarray / lists of numpy integers
            rq['spelling'] = r.choice(['list', 'list', 'list', 'tuple', 'ndarray', 'npint', 'npuint16'])
            if entry in ('instance', 'frame', 'div'):
                k = r.randint(1, min(P + 1, 4))
                planes = [r.randrange(P) for _ in range(k)] if r.random() < 0.2 else r.sample(range(P), min(k, P))
                if r.random() < 0.25:
                    planes.insert(r.randint(0, len(planes)), 'absent')
                if entry == 'frame' and r.random() < 0.15:
                    planes.insert(r.randint(0, len(planes)), 'beyond')
                if entry == 'frame' and r.random() < 0.15:
                    rq['wrong_uid'] = True
                if entry == 'frame' and d.get('extra_ref') and r.random() < 0.25:
                    rq['listed_uid'] = True
                if entry == 'instance' and d.get('extra_ref') and d['kind'] != 'multiframe' and r.random() < 0.3:
                    planes.insert(r.randint(0, len(planes)), 'listed')
                rq['planes'] = planes
            if entry == 'volume' and d['kind'] != 'tiled' and r.random() < 0.3:
                R, C = d['rows'], d['cols']
                r0 = r.randint(1, R)
                c0 = r.randint(1, C)
                rq['vrange'] = [r0, r.randint(r0 + 1, R + 1), c0, r.randint(c0 + 1, C + 1)]
            if entry == 'tpm' and r.random() < 0.5:
                # a sub-region of the total pixel matrix (1-based, end exclusive)
                R, C = d['rows'], d['cols']
                r0 = r.randint(1, R)
                c0 = r.randint(1, C)
                rq['region'] = [r0, r.randint(r0 + 1, R + 1), c0, r.randint(c0 + 1, C + 1)]
            reqs.append(rq)
    # boundary requests every object gets: the largest number alone and all numbers, combined, default dtype
    # (decides uint8/uint16 at 255/256), and the raw FRACTIONAL values into small dtypes
    first_entry = entries[0]
    base = {'entry': first_entry, 'combine': True, 'relabel': False, 'skip': True, 'rescale': True, 'dtype': None,
            'assert_missing': True, 'planes': list(range(min(P, 2))) if first_entry != 'tpm' else None, 'segs_none': False}
    reqs.append(dict(base, segs=[max(d['nums'])]))
    reqs.append(dict(base, segs=list(d['nums'])))
    reqs.append(dict(base, segs=list(d['nums']), relabel=True))
    if d['type'] == 'FRACTIONAL':
        for dt in ('int8', 'bool', 'uint8', None):
            reqs.append(dict(base, segs=list(d['nums']), combine=False, rescale=False, dtype=dt))
    if len(d['nums']) > 1:
        # ascending prefixes (the request looks like 1..k although more is stored) and descending requests, each combined
        # with and without relabel and stacked, with the overlap check on
        nums = list(d['nums'])
        shapes = [nums[:-1], nums[:1], nums[::-1], [nums[-1], nums[0]]]
        for segs in shapes:
            for combine, relabel in ((True, True), (True, False), (False, False)):
                reqs.append(dict(base, segs=list(segs), combine=combine, relabel=relabel, skip=False,
                                 entry=r.choice(entries), planes=None))
        for q in reqs[-len(shapes) * 3:]:
            if q['entry'] in ('instance', 'frame', 'div'):
                q['planes'] = list(range(min(P, 3)))
                if r.random() < 0.3:
                    q['planes'].insert(r.randint(0, len(q['planes'])), 'absent')
                    q['assert_missing'] = r.random() < 0.5
    for q in reqs:
        # half of the options that have their default value are left out of the call
        q['omit'] = [k for k in DEFAULTS if q[k] == DEFAULTS[k] and r.random() < 0.5] + (['segs'] if r.random() < 0.5 else [])
    # ---- dimensions added later draw from their own stream (the requests above stay what they were)
    r2 = ctx.rng('req2', d['idx'])
    loc_edit = any(t.startswith('loc_') for t in (d.get('third') or []))
    for q in reqs:
        if q['entry'] in ('instance', 'frame'):
            # ignore_spatial_locations: True / False / left out
            x = r2.random()
            q['ignore'] = (x < 0.6) if loc_edit else (x < 0.15)
            q['ignore_explicit'] = q['ignore'] or r2.random() < 0.3
        if r2.random() < 0.07 and not q.get('segs_none'):
            # a segment number requested twice: must be refused whatever the other options are
            segs = list(q['segs'])
            segs.insert(r2.randint(0, len(segs)), r2.choice(segs))
            q['segs'] = segs
            q['repeat'] = True
    return reqs


# ------------------------------------------------------------------------------------------ oracle
def _value_ceiling(d, rq):
    if rq['combine']:
        return len(rq['segs']) if rq['relabel'] else max(rq['segs'])
    if d['type'] == 'FRACTIONAL' and not rq['rescale']:
        return d['mfv']
    return 1


def _expected(obj, rq, plane_masks):
    """plane_masks: list over requested output planes of store[p] (R, C, S) or None for an absent plane that must read
    empty.  Returns ('refuse', why) / ('either', why) / ('ok', array(int64 or Fraction-as-float64), rescaled?)."""
    d = obj['d']
    nums = d['nums']
    segs = rq['segs']
    if len(set(segs)) != len(segs):
        return ('refuse', 'a segment number is requested twice')
    if d.get('ppv') is not None and rq['combine'] and not rq['relabel'] and rq['dtype'] is not None \
            and d['ppv'] > DTYPE_MAX[rq['dtype']]:
        return ('either', 'the background value kept by an unrelabelled combined read does not fit the dtype')
    if 'shared_seg' in (d.get('third') or []):
        return ('either', 'ReferencedSegmentNumber is not a dimension index of this object (see ASSUMPTIONS)')
    cols = [nums.index(s) for s in segs]
    R, C = (d['rows'], d['cols'])
    stack = np.stack([m if m is not None else np.zeros((R, C, len(nums)), dtype=np.int64) for m in plane_masks])
    sel = stack[..., cols]                                   # (K, R, C, len(segs))
    frac = d['type'] == 'FRACTIONAL'
    rescaled = frac and rq['rescale'] and not rq['combine']
    if d.get('patch_mfv'):
        return ('either', 'malformed object: stored values exceed the patched MaximumFractionalValue')
    if frac and rq['combine'] and not rq['rescale']:
        return ('refuse', 'combining a FRACTIONAL segmentation needs rescale_fractional (documented refusal)')
    if rescaled and rq['dtype'] is not None and not rq['dtype'].startswith('float'):
        return ('refuse', 'rescaled fractional output needs a float dtype')
    ceiling = _value_ceiling(d, rq)
    if rq['dtype'] is not None and ceiling > DTYPE_MAX[rq['dtype']]:
        return ('refuse', f'largest output value {ceiling} exceeds {rq["dtype"]}')
    if rq['combine']:
        if frac:
            # only frames that are actually read decide; a frame that is not 0/mfv-valued cannot be combined
            if np.any((sel != 0) & (sel != d['mfv'])):
                return ('refuse', 'non-binary fractional values cannot be combined')
        cover = sel > 0
        if not rq['skip'] and np.any(cover.sum(axis=-1) > 1):
            return ('refuse', 'requested segments overlap')
        vals = np.array([(k + 1) if rq['relabel'] else s for k, s in enumerate(segs)], dtype=np.int64)
        out = (cover * vals).max(axis=-1)
        return ('ok', out, False)
    if rescaled:
        return ('ok', sel, True)
    if not frac:
        sel = (sel > 0).astype(np.int64)
    return ('ok', sel, False)


def _compare(res, exp, rescaled, d, rq):
    """None if equal, else a short description."""
    a = np.asarray(res)
    if a.shape != exp.shape:
        return f'shape {a.shape} != {exp.shape}'
    if rescaled:
        if a.dtype.kind != 'f':
            return f'rescaled output has dtype {a.dtype}'
        err = np.abs(a.astype(np.float64) * d['mfv'] - exp)
        if np.any(err > 1e-3):
            i = np.unravel_index(np.argmax(err), err.shape)
            return f'value at {tuple(int(x) for x in i)}: got {float(a[i])} want {int(exp[i])}/{d["mfv"]}'
        return None
    if a.dtype.kind == 'f':
        if np.any(a != np.round(a)):
            return 'non-integral values in an unrescaled result'
    ai = a.astype(np.int64)
    if not np.array_equal(ai, exp):
        bad = np.argwhere(ai != exp)
        i = tuple(int(x) for x in bad[0])
        return f'{len(bad)} pixels differ, first at {i}: got {int(ai[i])} want {int(exp[i])}'
    return None


def _want_dtype(d, rq, rescaled):
    if rq['dtype'] is not None:
        return rq['dtype']
    if rescaled:
        return 'float32'
    return _smallest_unsigned(_value_ceiling(d, rq) if not (d['type'] == 'FRACTIONAL' and not rq['combine']) else 1)


def _plane_lookup(obj, frames):
    """Maps for the stack entry points, from the stored metadata (pydicom view) and the source list."""
    d = obj['d']
    src = obj['src']
    info = {}
    if d['kind'] in ('series', 'single'):
        info['uid_of_plane'] = [str(s.SOPInstanceUID) for s in src]
    if d['kind'] == 'multiframe':
        info['uid'] = str(src[0].SOPInstanceUID)
        refd = [f['frame'] for f in frames if f['frame'] is not None]
        info['max_ref'] = max(refd) if refd else None
    # dimension index tuple per plane (only planes that have a stored frame have one)
    div = {}
    for f in frames:
        p = None
        if d['kind'] in ('series', 'single') and f['uid'] is not None:
            p = info['uid_of_plane'].index(f['uid']) if f['uid'] in info['uid_of_plane'] else None
        elif d['kind'] == 'multiframe' and f['frame'] is not None:
            p = f['frame'] - 1
        elif d['kind'] == 'tiled':
            p = f['pos']
        if p is not None and f['div'] is not None:
            if p in div and div[p] != f['div']:
                info['div_conflict'] = True
            div[p] = f['div']
    info['div_of_plane'] = div
    return info


def _run_read(ctx, obj, rq, frames, info):
    """Execute one request on the implementation, evaluate the oracle.  Returns (impl outcome, keys for the model)."""
    seg = obj['seg']
    d = obj['d']
    store = obj['store']
    spell = {'list': list, 'tuple': tuple, 'ndarray': np.array, 'npint': lambda v: [np.int64(x) for x in v],
             'npuint16': lambda v: [np.uint16(x) for x in v]}[rq.get('spelling', 'list')]
    kw = dict(segment_numbers=None if rq['segs_none'] else spell(list(rq['segs'])), combine_segments=rq['combine'],
              relabel=rq['relabel'], rescale_fractional=rq['rescale'], skip_overlap_checks=rq['skip'])
    if rq['dtype'] is not None:
        kw['dtype'] = np.dtype(rq['dtype'])
    am = {'assert_missing_frames_are_empty': rq['assert_missing']}
    # options whose requested value is the documented default are LEFT OUT of the call for rq['omit'] (the documented
    # defaults are the same for every entry point: DEFAULTS)
    for opt in rq.get('omit', []):
        if opt in DEFAULTS and rq[opt] == DEFAULTS[opt]:
            kw.pop(KWNAME[opt], None)
            am.pop(KWNAME[opt], None)
    if rq['segs_none'] and 'segs' in rq.get('omit', []):
        kw.pop('segment_numbers', None)
    entry = rq['entry']
    if entry in ('instance', 'frame') and rq.get('ignore_explicit'):
        am['ignore_spatial_locations'] = bool(rq.get('ignore'))
    facts = obj.get('facts') or {'loc': 'yes', 'single': True, 'tiled_full': False}
    # indexing by source is refused when the object does not say that spatial locations are preserved (unless the caller opts
    # out), when a frame has several sources, and for TILED_FULL
    must_refuse_indexing = entry in ('instance', 'frame') and (
        facts['tiled_full'] or not facts['single'] or (facts['loc'] != 'yes' and not rq.get('ignore')))
    plane_masks = None
    must_refuse_missing = False
    post = lambda a: a   # noqa: E731
    model_keys = None
    crop = None
    if entry == 'instance':
        uids, plane_masks = [], []
        for p in rq['planes']:
            if p == 'absent':
                uids.append('1.2.3.4.5.6.7.8.9')
                plane_masks.append(None)
                must_refuse_missing = must_refuse_missing or not rq['assert_missing']
            elif p == 'listed':
                # listed among the referenced instances, no frame: known to the object, reads empty without assertion
                uids.append(EXTRA_UID)
                plane_masks.append(None)
            else:
                uids.append(info['uid_of_plane'][p])
                plane_masks.append(store[p])
        call = lambda: seg.get_pixels_by_source_instance(uids, **am, **kw)  # noqa: E731
        model_keys = uids
    elif entry == 'frame':
        nums, plane_masks = [], []
        for p in rq['planes']:
            if p in ('absent', 'beyond'):
                f = d['planes'] + (1 if p == 'absent' else 3)
                nums.append(f)
                plane_masks.append(None)
                must_refuse_missing = must_refuse_missing or not rq['assert_missing']
            else:
                f = p + 1
                nums.append(f)
                plane_masks.append(store[p])
                if info['max_ref'] is None or f > info['max_ref']:
                    # not referenced and above every referenced frame: existence cannot be known to the object
                    must_refuse_missing = must_refuse_missing or not rq['assert_missing']
        use_uid = info['uid']
        if rq.get('listed_uid'):
            # listed among the referenced instances but not the source of any frame: by source frame that is not enough
            use_uid = EXTRA_UID
            plane_masks = [None] * len(plane_masks)
            must_refuse_missing = must_refuse_missing or not rq['assert_missing']
        elif rq.get('wrong_uid'):
            # an instance the object does not reference: refused unless asserted, and then every frame reads empty
            use_uid = '1.2.3.4.5.6.7'
            plane_masks = [None] * len(plane_masks)
            must_refuse_missing = must_refuse_missing or not rq['assert_missing']
        call = lambda: seg.get_pixels_by_source_frame(use_uid, nums, **am, **kw)  # noqa: E731
        model_keys = nums
    elif entry == 'div':
        ptrs = seg.get_default_dimension_index_pointers()
        if len(ptrs) == 0 or info.get('div_conflict'):
            return None
        vals, plane_masks = [], []
        known = set(info['div_of_plane'].values())
        if d['kind'] == 'tiled':
            # one request per tile position; compare tile by tile
            tr, tc = d['tile']
            pos = sorted(info['div_of_plane'])
            r = ctx.rng('divtiles', d['idx'] * 1000 + len(rq['segs']))
            pos = r.sample(pos, min(len(pos), 3)) if pos else []
            if not pos:
                return None
            for (pr, pc) in pos:
                vals.append(list(info['div_of_plane'][(pr, pc)]))
                tile = np.zeros((tr, tc, store.shape[-1]), dtype=np.int64)
                sub = store[0, pr - 1:pr - 1 + tr, pc - 1:pc - 1 + tc]
                tile[:sub.shape[0], :sub.shape[1]] = sub
                plane_masks.append(tile)
        else:
            for p in rq['planes']:
                if p == 'absent' or p not in info['div_of_plane']:
                    width = len(ptrs)
                    cand = tuple([99] * width)
                    vals.append(list(cand))
                    plane_masks.append(None if p == 'absent' else store[p])
                    must_refuse_missing = must_refuse_missing or not rq['assert_missing']
                else:
                    vals.append(list(info['div_of_plane'][p]))
                    plane_masks.append(store[p])
        call = lambda: seg.get_pixels_by_dimension_index_values(vals, **am, **kw)  # noqa: E731
        model_keys = [tuple(v) for v in vals]
    elif entry == 'tpm':
        if rq.get('region'):
            r0, r1, c0, c1 = rq['region']
            plane_masks = [store[0][r0 - 1:r1 - 1, c0 - 1:c1 - 1]]
            call = lambda: seg.get_total_pixel_matrix(row_start=r0, row_end=r1, column_start=c0, column_end=c1, **kw)  # noqa: E731
            model_keys = None      # region reads: oracle only (the slice arithmetic is C04's)
        else:
            plane_masks = [store[0]]
            call = lambda: seg.get_total_pixel_matrix(**kw)  # noqa: E731
            model_keys = 'tiles'
        post = lambda a: np.asarray(a)[None]  # noqa: E731
    elif entry == 'volume':
        if d['kind'] == 'tiled':
            plane_masks = [store[0]]
            call = lambda: seg.get_volume(**kw).array  # noqa: E731
            model_keys = 'tiles'
        else:
            # the volume spans the stored planes; expected order is by position along the normal, which for the
            # synthetic sources is the slice index i of the generator (order[] maps list position -> slice index)
            stored_planes = sorted({(f['frame'] - 1) if d['kind'] == 'multiframe' else info['uid_of_plane'].index(f['uid'])
                                    for f in frames if (f['frame'] if d['kind'] == 'multiframe' else f['uid']) is not None})
            if not stored_planes:
                return None
            order = d['order'] or list(range(d['planes']))
            slice_of_plane = {p: order[p] for p in range(d['planes'])}
            lo = min(slice_of_plane[p] for p in stored_planes)
            hi = max(slice_of_plane[p] for p in stored_planes)
            plane_of_slice = {v: k for k, v in slice_of_plane.items()}
            seq = [plane_of_slice[s] for s in range(lo, hi + 1)]
            plane_masks = [store[p] for p in seq]
            if rq.get('vrange'):
                r0, r1, c0, c1 = rq['vrange']
                # get_volume combines whole planes and crops afterwards: refusals (overlap, non-binary fractional
                # values) are decided on the whole planes, the values are the crop
                crop = (slice(None), slice(r0 - 1, r1 - 1), slice(c0 - 1, c1 - 1))
                call = lambda: seg.get_volume(row_start=r0, row_end=r1, column_start=c0, column_end=c1, **kw)  # noqa: E731
                model_keys = ('volume-cropped', seq)     # oracle only: the crop arithmetic is C03's
            else:
                call = lambda: seg.get_volume(**kw)  # noqa: E731
                model_keys = ('volume', seq)
    else:
        return None
    if d['kind'] == 'tiled' and entry == 'div':
        pass
    exp = _expected(obj, rq, plane_masks) if entry != 'div' or d['kind'] != 'tiled' else \
        _expected({'d': dict(d, rows=d['tile'][0], cols=d['tile'][1])}, rq, plane_masks)
    if crop is not None and exp[0] == 'ok':
        exp = ('ok', exp[1][crop], exp[2])
    st, val = _fetch(call, _keep=obj.get('kept'))
    if st == 'ok':
        val = post(val)
        if entry == 'volume' and d['kind'] != 'tiled':
            # which end of the stack is slice 0 is a matter of geometry (C03); it is read off the returned affine:
            # the generator puts slice i at origin + i * normal, so the component of the volume origin along the normal
            # says which generator slice comes first
            vol = val
            val = np.asarray(vol.array)
            seq = model_keys[1]
            if len(seq) > 1:
                order = d['order'] or list(range(d['planes']))
                o0 = float(np.asarray(vol.affine)[2, 3])     # generator stacks along +z
                first, last = order[seq[0]], order[seq[-1]]
                if abs(o0 - last) < abs(o0 - first):
                    model_keys = (model_keys[0], seq[::-1])
                    if exp[0] == 'ok':
                        exp = ('ok', exp[1][::-1], exp[2])
    case = {'obj': d, 'req': {k: v for k, v in rq.items()}}
    outcome = 'ok' if st == 'ok' else _err_kind(val)
    nontriv = None
    if st == 'ok':
        a = np.asarray(val)
        if a.size and a.min() != a.max():
            nontriv = (d['type'], entry, len(d['nums']), len(rq['segs']), rq['segs'] == sorted(rq['segs']), rq['combine'],
                       rq['relabel'], rq['skip'], rq['rescale'], rq['dtype'], max(d['nums']) > 255)
    ctx.case(sample=case if ctx.evaluations % 211 == 0 else None, nontrivial_key=nontriv, type=d['type'], entry=entry,
             kind=d['kind'], via=d['via'], nseg=len(d['nums']), subset_size=len(rq['segs']),
             options=f"c{int(rq['combine'])}r{int(rq['relabel'])}s{int(rq['skip'])}f{int(rq['rescale'])}",
             dtype=str(rq['dtype']), outcome=outcome,
             expect='refuse-indexing' if must_refuse_indexing else ('refuse-missing' if must_refuse_missing else exp[0]),
             third='+'.join(d.get('third') or []) or 'none', ignore_spatial=str(rq.get('ignore')) if 'ignore' in rq else 'n/a',
             repeated=bool(rq.get('repeat')), loc=facts['loc'],
             labels16=max(d['nums']) > 255, region=bool(rq.get('region') or rq.get('vrange')),
             spelling=rq.get('spelling', 'list'))
    site = f"{entry}/{d['type']}/{'combine' if rq['combine'] else 'stack'}"
    if st != 'ok' and val.split(':')[0] in ('IntegrityError', 'OperationalError', 'ProgrammingError', 'InterfaceError',
                                             'DatabaseError', 'InternalError', 'NotSupportedError') \
            and 'shared_seg' not in (d.get('third') or []):
        # a refusal has to come from the library, not from its database: an sqlite3 error means a request reached a query it
        # should have been stopped before (or a state left by an earlier read) — ok-vs-refused alone would count it as a refusal
        ctx.fail(case, 'refused with an internal database error: ' + val, site=site + '/internal-error')
    if must_refuse_indexing:
        if st == 'ok':
            ctx.fail(case, 'read by source accepted although the object does not state that spatial locations are preserved '
                           '(or a frame has several sources) and the caller did not opt out', site=site + '/indexing')
    elif must_refuse_missing:
        if st == 'ok':
            ctx.fail(case, 'a source frame unknown to the object read as empty without assert_missing_frames_are_empty',
                     site=site + '/missing')
    elif exp[0] == 'refuse':
        if st == 'ok':
            ctx.fail(case, 'request accepted although it must be refused: ' + exp[1], site=site + '/refusal')
    elif exp[0] == 'ok':
        if st != 'ok':
            ctx.fail(case, 'valid request refused: ' + val, site=site + '/accept')
        else:
            if d.get('ppv') is not None and rq['combine'] and not rq['relabel']:
                # an unrelabelled combined read of a label map keeps the object's own background value where no requested
                # segment is (ASSUMPTIONS); everywhere else the background is 0
                seen = np.where(np.asarray(val) == d['ppv'], 0, np.asarray(val)).astype(np.asarray(val).dtype)
            else:
                seen = val
            why = _compare(seen, exp[1], exp[2], d, rq)
            if why is not None:
                ctx.fail(case, why, site=site + '/value')
            else:
                want = _want_dtype(d, rq, exp[2])
                if str(np.asarray(val).dtype) != want:
                    ctx.fail(case, f'result dtype {np.asarray(val).dtype}, expected {want}', site=site + '/dtype')
    return (st, val, model_keys, rq)


# ------------------------------------------------------------------------------------------ metadata search
def _match(rec, flt):
    for k, v in flt.items():
        if k == 'segment_label' and rec['label'] != v:
            return False
        if k == 'segmented_property_category' and _code_key(rec['category']) != _code_key(v):
            return False
        if k == 'segmented_property_type' and _code_key(rec['type']) != _code_key(v):
            return False
        if k == 'algorithm_type' and rec['algo'] != v:
            return False
        if k == 'tracking_uid' and rec['tracking_uid'] != v:
            return False
        if k == 'tracking_id' and rec['tracking_id'] != v:
            return False
    return True


def _search(ctx, obj, reqs, pending):
    from pydicom.sr.coding import Code
    seg = obj['seg']
    d = obj['d']
    recs = obj['recs']
    r = ctx.rng('search', d['idx'])
    uid_pool = ['1.2.826.0.1.3680043.8.498.%d' % (1000 + i) for i in range(3)]
    keys = ['segment_label', 'segmented_property_category', 'segmented_property_type', 'algorithm_type', 'tracking_uid',
            'tracking_id']
    n = ctx.n(10, 40)
    # basic accessors
    st, val = _fetch(lambda: (list(seg.segment_numbers), int(seg.number_of_segments)))
    ctx.case(entry='segment_numbers')
    if st != 'ok' or val[0] != d['nums'] or val[1] != len(d['nums']):
        ctx.fail({'obj': d, 'search': 'segment_numbers'}, f'segment_numbers/number_of_segments = {val}, described {d["nums"]}',
                 site='search/segment_numbers')
    reqs.append(('segmentNumbersAll', {'descs': _descs_json(seg), 'ppv': _ppv(seg)}))
    pending.append(({'obj': d, 'search': 'segment_numbers'},
                    ('ok', {'numbers': [int(x) for x in val[0]], 'count': val[1]}) if st == 'ok' else ('err', _err_kind(val)), 'exact'))
    for rec in recs:
        st, val = _fetch(seg.get_segment_description, rec['number'])
        ok = st == 'ok' and val.segment_label == rec['label'] and val.tracking_id == rec['tracking_id'] and \
            int(val.segment_number) == rec['number']
        ctx.case(entry='get_segment_description')
        if not ok:
            ctx.fail({'obj': d, 'search': 'description', 'number': rec['number']}, f'description differs: {val}',
                     site='search/description')
        reqs.append(('segmentDescription', {'descs': _descs_json(seg), 'number': rec['number']}))
        pending.append(({'obj': d, 'search': 'description', 'number': rec['number']},
                        ('ok', {'number': int(val.segment_number), 'label': str(val.segment_label)}) if st == 'ok'
                        else ('err', _err_kind(val)), 'exact'))
    # a number no item carries is refused (IndexError); the background item of a label map is an item and is found
    present_numbers = {int(i.SegmentNumber) for i in seg.SegmentSequence}
    absent = max(d['nums']) + 1 + r.randrange(3)
    while absent in present_numbers:       # (the background item of a label map may carry any unused number)
        absent += 1
    for number in [absent] + ([int(seg.PixelPaddingValue)] if 'PixelPaddingValue' in seg and
                              any(int(i.SegmentNumber) == int(seg.PixelPaddingValue) for i in seg.SegmentSequence) else []):
        st, val = _fetch(seg.get_segment_description, number)
        ctx.case(entry='get_segment_description', outcome='ok' if st == 'ok' else _err_kind(val))
        if number == absent and st == 'ok':
            ctx.fail({'obj': d, 'search': 'description', 'number': number}, 'a description was returned for a number no segment has',
                     site='search/description')
        reqs.append(('segmentDescription', {'descs': _descs_json(seg), 'number': number}))
        pending.append(({'obj': d, 'search': 'description', 'number': number},
                        ('ok', {'number': int(val.segment_number), 'label': str(val.segment_label)}) if st == 'ok'
                        else ('err', _err_kind(val)), 'exact'))
    # segmented property categories / types: each concept once, by its first occurrence, in sequence order
    for attr, key in (('segmented_property_categories', 'category'), ('segmented_property_types', 'type')):
        st, val = _fetch(lambda: [[str(c.value), str(c.scheme_designator), (str(c.scheme_version) if c.scheme_version else None)]
                                  for c in getattr(seg, attr)])
        seen, want = set(), []
        for rec in recs:
            kk = _code_key(rec[key])
            if kk not in seen:
                seen.add(kk)
                want.append([rec[key][0], rec[key][1], rec[key][3]])
        ctx.case(entry=attr, outcome='ok' if st == 'ok' else _err_kind(val), distinct=min(len(want), 4))
        if st != 'ok' or val != want:
            ctx.fail({'obj': d, 'search': attr}, f'{attr} = {val}, first occurrences of the described concepts {want}',
                     site='search/' + attr)
        obj.setdefault('_codes', {})[key] = (st, val)
    cc = obj.get('_codes', {})
    if all(cc.get(k, ('err',))[0] == 'ok' for k in ('category', 'type')):
        reqs.append(('propertyCodes', {'descs': _descs_json(seg), 'ppv': _ppv(seg), 'srt': _srt_pairs(_descs_json(seg), {})}))
        pending.append(({'obj': d, 'search': 'property_codes'},
                        ('ok', {'categories': cc['category'][1], 'types': cc['type'][1]}), 'exact'))
    for bad in ('automatic', 'NONE'):
        st, val = _fetch(seg.get_segment_numbers, algorithm_type=bad)
        ctx.case(entry='get_segment_numbers', outcome='ok' if st == 'ok' else _err_kind(val), filters='bad-algo')
        if st == 'ok':
            ctx.fail({'obj': d, 'search': 'numbers', 'filters': {'algorithm_type': bad}},
                     'algorithm type outside the enumeration accepted', site='search/numbers')
        reqs.append(('segmentNumbers', {'descs': _descs_json(seg), 'filters': {'algorithm_type': bad}, 'ppv': _ppv(seg)}))
        pending.append(({'obj': d, 'search': 'numbers', 'filters': {'algorithm_type': bad}},
                        ('ok', [int(x) for x in val]) if st == 'ok' else ('err', _err_kind(val)), 'exact'))
    for j in range(n):
        ks = [k for k in keys if r.random() < 0.3]
        flt = {}
        for k in ks:
            if k == 'segment_label':
                flt[k] = r.choice(LABEL_POOL)
            elif k in ('segmented_property_category', 'segmented_property_type'):
                flt[k] = list(r.choice(CODE_POOL))
            elif k == 'algorithm_type':
                flt[k] = r.choice(ALGO_POOL)
            elif k == 'tracking_uid':
                flt[k] = r.choice(uid_pool)
            else:
                flt[k] = r.choice(TRACK_POOL)
        # bias towards filters taken from an existing description so that matches occur
        if recs and r.random() < 0.6:
            rec = r.choice(recs)
            for k in ks:
                v = {'segment_label': rec['label'], 'segmented_property_category': list(rec['category']),
                     'segmented_property_type': list(rec['type']), 'algorithm_type': rec['algo'],
                     'tracking_uid': rec['tracking_uid'], 'tracking_id': rec['tracking_id']}[k]
                if v is not None:
                    flt[k] = v
        kw = {}
        for k, v in flt.items():
            kw[k] = Code(*v) if k in ('segmented_property_category', 'segmented_property_type') else v
        want = [rec['number'] for rec in recs if _match(rec, flt)]
        st, val = _fetch(seg.get_segment_numbers, **kw)
        nontriv = ('search', tuple(sorted(flt)), len(want) > 0) if 0 < len(want) < len(recs) else None
        ctx.case(entry='get_segment_numbers', nontrivial_key=nontriv, filters=len(flt), outcome='ok' if st == 'ok' else _err_kind(val),
                 type=d['type'], matches=min(len(want), 3))
        case = {'obj': d, 'search': 'numbers', 'filters': flt}
        if st != 'ok':
            ctx.fail(case, 'search refused: ' + val, site='search/numbers')
        elif [int(x) for x in val] != want:
            ctx.fail(case, f'get_segment_numbers = {list(val)}, matching descriptions {want}', site='search/numbers')
        reqs.append(('segmentNumbers', {'descs': _descs_json(seg), 'filters': _filters_json(flt), 'ppv': _ppv(seg),
                                        'srt': _srt_pairs(_descs_json(seg), flt)}))
        pending.append((case, ('ok', [int(x) for x in val]) if st == 'ok' else ('err', _err_kind(val)), 'exact'))
        # tracking ids
        flt2 = {k: v for k, v in flt.items() if k in ('segmented_property_category', 'segmented_property_type', 'algorithm_type')}
        kw2 = {k: kw[k] for k in flt2}
        want2 = sorted({(rec['tracking_id'], rec['tracking_uid']) for rec in recs
                        if rec['tracking_id'] is not None and _match(rec, flt2)})
        st, val = _fetch(seg.get_tracking_ids, **kw2)
        ctx.case(entry='get_tracking_ids', filters=len(flt2), outcome='ok' if st == 'ok' else _err_kind(val))
        case = {'obj': d, 'search': 'tracking', 'filters': flt2}
        if st != 'ok':
            ctx.fail(case, 'tracking search refused: ' + val, site='search/tracking')
        else:
            got = sorted((str(a), str(b)) for a, b in val)
            if got != want2 or len(val) != len(set(val)):
                ctx.fail(case, f'get_tracking_ids = {got}, matching descriptions {want2}', site='search/tracking')
            reqs.append(('trackingIds', {'descs': _descs_json(seg), 'filters': _filters_json(flt2), 'ppv': _ppv(seg),
                                         'srt': _srt_pairs(_descs_json(seg), flt2)}))
            pending.append((case, ('ok', [list(x) for x in got]), 'sorted-pairs'))


def _ppv(seg):
    return int(seg.PixelPaddingValue) if 'PixelPaddingValue' in seg else None


def _code_json(c):
    return [str(c.CodeValue), str(c.CodingSchemeDesignator),
            str(c.CodingSchemeVersion) if 'CodingSchemeVersion' in c else None]


def _descs_json(seg):
    """SegmentSequence as pydicom sees it (background item of label maps included)."""
    out = []
    for it in seg.SegmentSequence:
        out.append({'number': int(it.SegmentNumber), 'label': str(it.SegmentLabel),
                    'category': _code_json(it.SegmentedPropertyCategoryCodeSequence[0]),
                    'type': _code_json(it.SegmentedPropertyTypeCodeSequence[0]),
                    'algo': str(it.SegmentAlgorithmType),
                    'tracking_id': str(it.TrackingID) if 'TrackingID' in it else None,
                    'tracking_uid': str(it.TrackingUID) if 'TrackingUID' in it else None})
    return out


def _filters_json(flt):
    return {k: ([v[0], v[1], v[3] if len(v) > 3 else None] if isinstance(v, (list, tuple)) else v) for k, v in flt.items()}


def _srt_pairs(descs, flt):
    """The entries of pydicom's SRT->SCT table for the SRT values occurring in this call (the model takes the table as a
    parameter)."""
    vals = {c[0] for dsc in descs for c in (dsc['category'], dsc['type']) if c[1] == 'SRT'}
    vals |= {v[0] for v in flt.values() if isinstance(v, (list, tuple)) and v[1] == 'SRT'}
    t = _srt_table()
    return [[v, t[v]] for v in sorted(vals) if v in t]


# ------------------------------------------------------------------------------------------ model requests
def _model_request(obj, rq, frames, info, model_keys):
    """Translate one read into a request for the Lean model: stored frames with integer stack keys."""
    d = obj['d']
    entry = rq['entry']
    tile = d['kind'] == 'tiled'
    R, C = (d['tile'] if tile else (d['rows'], d['cols']))
    keyid = {}

    def kid(k):
        if k not in keyid:
            keyid[k] = len(keyid) + 1
        return keyid[k]
    mframes = []
    fkey = {'instance': 'uid', 'frame': 'frame', 'div': 'div', 'tpm': 'pos', 'volume': 'pos' if tile else None}[entry]
    for f in frames:
        if entry == 'volume' and not tile:
            k = (f['frame'] - 1) if d['kind'] == 'multiframe' else info['uid_of_plane'].index(f['uid'])
        else:
            k = f[fkey]
        if entry == 'frame':
            key = int(k)
        else:
            key = kid(k)
        mframes.append({'key': key, 'seg': f['seg'] if f['seg'] is not None else 0,
                        'pix': [int(x) for x in np.asarray(f['pix']).reshape(-1)]})
    if model_keys == 'tiles':
        tr, tc = d['tile']
        nth, ntw = -(-d['rows'] // tr), -(-d['cols'] // tc)
        keys = [kid((i * tr + 1, j * tc + 1)) for i in range(nth) for j in range(ntw)]
        mode = 'all'
    elif isinstance(model_keys, tuple) and model_keys[0] == 'volume':
        keys = [kid(p) for p in model_keys[1]]
        mode = 'all'
    elif entry == 'frame':
        keys = [int(k) for k in model_keys]
        mode = 'frame'
    elif entry == 'instance':
        keys = [kid(k) for k in model_keys]
        mode = 'instance'
    else:
        keys = [kid(k) for k in model_keys]
        mode = 'div'
    # the instances the object references, as a third party reads them from ReferencedSeriesSequence
    ref_uids = [str(i.ReferencedSOPInstanceUID) for ser in obj['seg'].get('ReferencedSeriesSequence', [])
                for i in ser.get('ReferencedInstanceSequence', [])]
    if entry == 'instance':
        refs = [kid(u) for u in ref_uids]
        uid = 0
    elif entry == 'frame':
        refs = ([1] if info.get('uid') in ref_uids else []) + ([2] if EXTRA_UID in ref_uids else [])
        uid = 2 if rq.get('listed_uid') else (0 if rq.get('wrong_uid') else 1)
    else:
        refs, uid = [], 0
    # the instances frames derive from (pydicom view of DerivationImageSequence / SourceImageSequence)
    frame_srcs = ([1] if any(f['uid'] == info.get('uid') for f in frames) else []) if entry == 'frame' else []
    seg = obj['seg']
    args = {'type': d['type'], 'stored': [int(x) for x in d['nums']], 'bits': int(seg.BitsStored), 'mfv': int(seg.get('MaximumFractionalValue', 1)),
            'npix': R * C, 'frames': mframes, 'keys': keys, 'refs': refs, 'frame_srcs': frame_srcs, 'uid': uid, 'mode': mode,
            'bg': int(seg.get('PixelPaddingValue', 0)),
            'assert_missing': bool(rq['assert_missing']) if mode != 'all' else True,
            'segs': [int(x) for x in rq['segs']], 'combine': rq['combine'], 'relabel': rq['relabel'],
            'skip': rq['skip'], 'rescale': rq['rescale'], 'dtype': rq['dtype'] or 'none'}
    facts = obj.get('facts')
    if facts:
        args.update({'tiled_full': facts['tiled_full'], 'loc_preserved': facts['loc'], 'single_source': facts['single'],
                     'seg_indexed': facts['seg_indexed'], 'ignore_spatial': bool(rq.get('ignore'))})
    return ('read', args)


def _impl_for_model(obj, rq, st, val, model_keys):
    """Canonical form of the implementation's answer, comparable with the model's."""
    d = obj['d']
    if st != 'ok':
        return ('err', _err_kind(val))
    a = np.asarray(val)
    if model_keys == 'tiles':
        tr, tc = d['tile']
        nth, ntw = -(-d['rows'] // tr), -(-d['cols'] // tc)
        a = a[0]
        tiles = []
        for i in range(nth):
            for j in range(ntw):
                t = np.zeros((tr, tc) + a.shape[2:], dtype=a.dtype)
                sub = a[i * tr:(i + 1) * tr, j * tc:(j + 1) * tc]
                t[:sub.shape[0], :sub.shape[1]] = sub
                tiles.append(t)
        a = np.stack(tiles)
    K = a.shape[0]
    if rq['combine']:
        flat = a.reshape(K, -1)
    else:
        flat = a.reshape(K, -1, a.shape[-1])
    if a.dtype.kind == 'f':
        return ('ok', [[_num(x) for x in row] if rq['combine'] else [[_num(x) for x in px] for px in row] for row in flat.tolist()])
    return ('ok', flat.astype(np.int64).tolist())


def _num(x):
    fr = Fraction(float(x))
    return int(fr) if fr.denominator == 1 else fr


def _same(impl, model_ok):
    """Compare canonical implementation output with the model's JSON (ints or "p/q" strings)."""
    def conv(v):
        if isinstance(v, list):
            return [conv(x) for x in v]
        if isinstance(v, str):
            p, _, q = v.partition('/')
            return Fraction(int(p), int(q or 1))
        return v

    def eq(a, b):
        if isinstance(a, list) or isinstance(b, list):
            return isinstance(a, list) and isinstance(b, list) and len(a) == len(b) and all(eq(x, y) for x, y in zip(a, b))
        if isinstance(a, Fraction) or isinstance(b, Fraction):
            return abs(Fraction(a) - Fraction(b)) <= Fraction(1, 2 ** 20)
        return a == b
    return eq(impl, conv(model_ok))


# ------------------------------------------------------------------------------------------ L2 helpers
def _helpers(ctx, reqs, pending):
    import highdicom as hd
    Seg = hd.seg.Segmentation
    f = getattr(Seg, '_get_segment_remap_values', None)
    if f is None:
        ctx.note('L2 helper _get_segment_remap_values not found; skipped')
    else:
        r = ctx.rng('remap', 0)
        for i in range(ctx.n(40, 200)):
            nums = r.sample(range(1, 700), r.randint(1, 5))
            for combine in (False, True):
                for relabel in (False, True):
                    st, val = _fetch(f, None, nums, combine_segments=combine, relabel=relabel)
                    impl = ('ok', None if val is None else [int(x) for x in val]) if st == 'ok' else ('err', _err_kind(val))
                    reqs.append(('remapValues', {'segs': nums, 'combine': combine, 'relabel': relabel}))
                    pending.append(({'helper': '_get_segment_remap_values', 'segs': nums, 'combine': combine, 'relabel': relabel,
                                     'layer': 'L2'}, impl, 'exact'))
                    ctx.case(entry='helper/remap')
    g = getattr(hd.seg.sop, '_get_unsigned_dtype', None)
    if g is None:
        ctx.note('L2 helper _get_unsigned_dtype not found; skipped')
    else:
        grid = [0, 1, 2, 127, 128, 254, 255, 256, 257, 4095, 65534, 65535, 65536, 65537, 2 ** 31, 2 ** 32 - 1, 2 ** 32]
        for v in grid:
            st, val = _fetch(g, v)
            impl = ('ok', int(np.dtype(val).itemsize * 8)) if st == 'ok' else ('err', _err_kind(val))
            reqs.append(('unsignedDtype', {'v': v}))
            pending.append(({'helper': '_get_unsigned_dtype', 'v': v, 'layer': 'L2'}, impl, 'exact'))
            ctx.case(entry='helper/unsigned_dtype')
        ctx.exhaustive.append('_get_unsigned_dtype on the boundary grid ' + str(grid))
    h = getattr(hd.seg.sop, '_check_numpy_value_representation', None)
    if h is not None:
        for dt in DTYPE_MAX:
            for v in [0, 1, 2, 127, 128, 255, 256, 32767, 32768, 65535, 65536, 2 ** 31 - 1, 2 ** 31, 2 ** 32 - 1, 2 ** 32]:
                st, val = _fetch(h, v, np.dtype(dt))
                impl = ('ok', True) if st == 'ok' else ('err', _err_kind(val))
                reqs.append(('checkRepr', {'v': v, 'dtype': dt}))
                pending.append(({'helper': '_check_numpy_value_representation', 'v': v, 'dtype': dt, 'layer': 'L2'}, impl, 'okerr'))
                ctx.case(entry='helper/check_repr')
                # oracle: refused iff the value exceeds the dtype's maximum
                if (st == 'ok') != (v <= DTYPE_MAX[dt]):
                    ctx.fail({'helper': '_check_numpy_value_representation', 'v': v, 'dtype': dt},
                             f'capacity check says {st} for {v} in {dt}', site='helper/check_repr')
    c = getattr(Seg, '_combine_segments', None)
    if c is None:
        ctx.note('L2 helper _combine_segments not found; skipped')
    else:
        nr = ctx.np_rng('combine', 0)
        for i in range(ctx.n(30, 200)):
            S = int(nr.integers(1, 7))
            shape = (int(nr.integers(1, 3)), int(nr.integers(1, 4)), int(nr.integers(1, 4)), S)
            lab = nr.integers(0, S + 1, size=shape[:3])
            arr = np.stack([(lab == k + 1) for k in range(S)], axis=-1).astype(np.uint8)
            dt = np.uint8 if i % 2 == 0 else np.uint16
            st, val = _fetch(c, arr.copy(), dt)
            impl = ('ok', [int(x) for x in np.asarray(val).reshape(-1)]) if st == 'ok' else ('err', _err_kind(val))
            reqs.append(('combinePixels', {'pixels': arr.reshape(-1, S).tolist()}))
            pending.append(({'helper': '_combine_segments', 'shape': list(shape), 'index': i, 'layer': 'L2'}, impl, 'exact'))
            ctx.case(entry='helper/combine_segments')
            # oracle: the combined value is the 1-based channel of the set segment, 0 for background
            if st != 'ok' or not np.array_equal(np.asarray(val).astype(np.int64), lab):
                ctx.fail({'helper': '_combine_segments', 'shape': list(shape), 'index': i},
                         'stacked non-overlapping mask not combined into channel positions', site='helper/combine_segments')


# ------------------------------------------------------------------------------------------ run
def _tamper(ctx, obj):
    """Edit in place every list the object's accessors return; afterwards the accessors must still say what was described."""
    seg = obj['seg']
    d = obj['d']
    getters = {'segment_numbers': lambda: seg.segment_numbers, 'get_segment_numbers': lambda: seg.get_segment_numbers(),
               'get_tracking_ids': lambda: seg.get_tracking_ids(),
               'get_segment_numbers(label)': lambda: seg.get_segment_numbers(segment_label=obj['recs'][0]['label'])}
    for name, g in getters.items():
        st, v = _fetch(g)
        if st == 'ok' and isinstance(v, list):
            v.reverse()
            if v:
                v.pop()
            v.append(999)
            ctx.hist('history', 'returned list edited: ' + name)
    st, val = _fetch(lambda: (list(seg.segment_numbers), int(seg.number_of_segments), [int(x) for x in seg.get_segment_numbers()]))
    ctx.case(entry='independence')
    want = (list(d['nums']), len(d['nums']), list(d['nums']))
    if st != 'ok' or val != want:
        ctx.fail({'obj': d, 'history': True, 'req': {'step': 'tamper'}},
                 f'after a caller edited returned lists in place the object reports {val}, described {want}',
                 site='search/independence')


def _object_cases(ctx, d, reqs, pending):
    obj = _build(ctx, d)
    if 'error' in obj:
        ctx.case(entry='constructor', outcome='error', type=d['type'], kind=d['kind'])
        ctx.fail({'obj': d, 'constructor': True}, 'valid segmentation could not be built/reopened: ' + obj['error'],
                 site='constructor')
        return
    frames = _stored_view(obj)
    info = _plane_lookup(obj, frames)
    if d['type'] == 'LABELMAP' and d['form'] == 'stack4d' and d['kind'] != 'tiled' and d.get('ppv') is None:
        # L1: the stored label planes are the model's construction-time combination of the stacked input
        for f in frames:
            p = (f['frame'] - 1) if d['kind'] == 'multiframe' else (info['uid_of_plane'].index(f['uid']) if f['uid'] else None)
            if p is None:
                continue
            reqs.append(('labelPixels', {'nums': [int(x) for x in d['nums']],
                                         'pixels': obj['store'][p].reshape(-1, len(d['nums'])).tolist()}))
            pending.append(({'obj': d, 'stored_plane': p, 'layer': 'L1'},
                            ('ok', [int(x) for x in np.asarray(f['pix']).reshape(-1)]), 'exact'))
            ctx.case(entry='stored-labels')
    # ---- a history of reads on this one object: the decoded pixel array is looked at (and thereby cached on the object)
    # at some point, a few earlier requests are repeated at the end; after every step the object must be unchanged and a
    # repeated request must give the identical answer
    seg = obj['seg']
    reqlist = _requests(ctx, obj)
    r = ctx.rng('history', d['idx'])
    touch_at = r.choice([0, 0, r.randrange(len(reqlist) + 1), r.randrange(len(reqlist) + 1), None])
    rep = []
    comb = [i for i, q in enumerate(reqlist) if q['combine']]
    if comb:
        rep.append(r.choice(comb))
    rep += [r.randrange(len(reqlist)) for _ in range(3)]
    steps = [(i, q, None) for i, q in enumerate(reqlist)] + [(len(reqlist) + j, reqlist[i], i) for j, i in enumerate(rep)]
    # values the object hands out are the caller's: at one step everything list-valued that was returned so far is edited in
    # place (reversed, shortened, extended); the object must not notice.  Two reads with segment_numbers left to the object
    # close the history.
    tamper_at = r.randrange(len(reqlist) + 1)
    entry0 = reqlist[0]['entry']
    tail = {'entry': entry0, 'segs': list(d['nums']), 'relabel': False, 'skip': True, 'rescale': True, 'dtype': None,
            'assert_missing': True, 'planes': reqlist[0]['planes'], 'segs_none': True, 'omit': ['segs', 'relabel']}
    for c in (False, True):
        q = dict(tail, combine=c)
        if reqlist[0].get('region'):
            q['region'] = reqlist[0]['region']
        if reqlist[0].get('vrange'):
            q['vrange'] = reqlist[0]['vrange']
        steps.append((len(steps), q, None))
    # half of the objects are read by a caller that KEEPS the exceptions of refused reads for the rest of the history
    if ctx.rng('keep', d['idx']).random() < 0.5:
        obj['kept'] = []
        ctx.hist('history', 'exceptions of refused reads kept')
    snap = bytes(seg.PixelData) if d['via'] != 'lazy' and 'PixelData' in seg else None
    cache = None
    results = {}
    live = []
    for step, rq, repeat_of in steps:
        if touch_at is not None and step == touch_at and d['via'] != 'lazy':
            st0, pa = _fetch(lambda: np.array(seg.pixel_array, copy=True))
            if st0 == 'ok':
                cache = pa
                ctx.hist('history', 'pixel_array accessed before step %s' % ('0' if step == 0 else '>0'))
        if step == tamper_at:
            _tamper(ctx, obj)
        rq = dict(rq, step=step, touched=cache is not None, tampered=step >= tamper_at)
        res = _run_read(ctx, obj, rq, frames, info)
        # purity: reading must not modify the object
        changed = None
        if snap is not None and bytes(seg.PixelData) != snap:
            changed = 'PixelData changed'
        if cache is not None:
            st1, now = _fetch(lambda: np.asarray(seg.pixel_array))
            if st1 != 'ok' or now.shape != cache.shape or not np.array_equal(now, cache):
                changed = 'the decoded pixel array kept on the object changed'
        if changed:
            ctx.fail({'obj': d, 'req': rq, 'history': True}, 'a read modified the stored object: ' + changed,
                     site=f"{rq['entry']}/{d['type']}/purity")
            snap = bytes(seg.PixelData) if snap is not None else None
            cache = np.array(seg.pixel_array, copy=True) if cache is not None else None
        if res is None:
            continue
        st, val, model_keys, rq2 = res
        results[step] = (st, np.array(val, copy=True) if st == 'ok' else _err_kind(val))
        # arrays the object handed out are the caller's: a later read must not change an earlier result
        for (step0, ref, snap0) in live:
            if ref.shape != snap0.shape or not np.array_equal(ref, snap0):
                ctx.fail({'obj': d, 'req': rq2, 'history': True, 'earlier_step': step0},
                         'an array returned by an earlier read changed when the object was read again',
                         site=f"{rq['entry']}/{d['type']}/result-aliased")
                live = [x for x in live if x[0] != step0]
        if st == 'ok' and isinstance(val, np.ndarray):
            live.append((step, val, results[step][1]))
            live = live[-5:]
        if repeat_of is not None and repeat_of in results:
            a, b = results[repeat_of], results[step]
            same = a[0] == b[0] and (a[1] == b[1] if a[0] != 'ok' else
                                     (a[1].dtype == b[1].dtype and a[1].shape == b[1].shape and np.array_equal(a[1], b[1])))
            ctx.hist('history', 'repeated read')
            if not same:
                ctx.fail({'obj': d, 'req': rq2, 'history': True, 'repeat_of_step': repeat_of},
                         'the same request on the same object gave a different answer the second time',
                         site=f"{rq['entry']}/{d['type']}/repeat")
        if model_keys is None or (isinstance(model_keys, tuple) and model_keys[0] == 'volume-cropped'):
            continue
        reqs.append(_model_request(obj, rq2, frames, info, model_keys))
        pending.append(({'obj': d, 'req': rq2}, _impl_for_model(obj, rq2, st, val, model_keys), 'read'))
    _search(ctx, obj, reqs, pending)


def _model_parallel(ctx, reqs, procs):
    """The model driver on interleaved chunks of the requests, one driver process per chunk (a read of a label map with
    numbers near 65535 builds a 65537-cell table in the interpreter, ~80 ms; interleaving spreads those)."""
    if procs <= 1 or len(reqs) < 200 or not ctx.model_available or ctx.driver is None:
        return ctx.model(reqs)
    from concurrent.futures import ThreadPoolExecutor
    k = min(procs, 8)
    chunks = [reqs[i::k] for i in range(k)]
    try:
        with ThreadPoolExecutor(k) as ex:
            parts = list(ex.map(lambda c: ctx.driver.batch(c) if c else [], chunks))
    except Exception as e:  # noqa: BLE001
        ctx.model_available = False
        ctx.notes.append('model driver unavailable: ' + str(e)[-1500:])
        return None
    answers = [None] * len(reqs)
    for i, part in enumerate(parts):
        answers[i::k] = part
    return answers


def _shard(job):
    """One worker: the objects of one shard, each with its own counters (merged by the parent in index order)."""
    prop, tier, seed, search_mode, idxs = job
    import framework
    out = []
    for idx in idxs:
        sub = framework.Ctx(prop, tier, seed, 1, None)
        sub.search_mode = search_mode
        reqs, pending = [], []
        try:
            _object_cases(sub, _draw_object(sub, idx), reqs, pending)
        except Exception as e:  # noqa: BLE001
            import traceback
            sub.note(f'object {idx} crashed the harness: {type(e).__name__}: {e} ' + traceback.format_exc()[-600:])
            sub.fail({'obj': {'idx': idx}, 'crash': True}, f'harness crashed on object {idx}: {type(e).__name__}: {e}', site='harness')
        out.append({'idx': idx, 'evaluations': sub.evaluations, 'nontrivial': list(sub.nontrivial),
                    'hists': {k: dict(v) for k, v in sub.hists.items()}, 'samples': sub.samples, 'failures': sub.failures,
                    'notes': sub.notes, 'reqs': reqs, 'pending': pending})
    return out


def run(ctx):
    import glob
    import json
    import os
    reqs, pending = [], []
    corpus = sorted(glob.glob(os.path.join(os.path.dirname(os.path.dirname(os.path.dirname(os.path.abspath(__file__)))),
                                           'corpus', 'C02', '*.json')))
    for f in corpus:
        case = json.load(open(f))
        if 'obj' in case:
            _object_cases(ctx, case['obj'], reqs, pending)
    _helpers(ctx, reqs, pending)
    n = ctx.n(64, 900)
    if ctx.search_mode:
        n = min(n, 400 if ctx.tier == 'quick' else 2000)      # the failing-input search stays within minutes
    procs = int(os.environ.get('HDV_PROCS', '0') or 0) or min(8, os.cpu_count() or 1)
    if procs <= 1 or n < 16:
        for idx in range(n):
            _object_cases(ctx, _draw_object(ctx, idx), reqs, pending)
    else:
        # shard k takes the object indices = k mod procs; every case is a function of (seed, index) only, and the shards
        # are merged in index order, so the result does not depend on the number of processes
        import multiprocessing as mp
        jobs = [(ctx.prop, ctx.tier, ctx.seed, ctx.search_mode, list(range(k, n, procs))) for k in range(procs)]
        with mp.get_context('fork').Pool(procs) as pool:
            parts = pool.map(_shard, jobs)
        merged = sorted((item for part in parts for item in part), key=lambda x: x['idx'])
        for item in merged:
            ctx.evaluations += item['evaluations']
            ctx.nontrivial |= set(item['nontrivial'])
            for hk, hv in item['hists'].items():
                ctx.hists[hk].update(hv)
            for smp in item['samples']:
                if len(ctx.samples) < 6:
                    ctx.samples.append(smp)
            for fl in item['failures']:
                if len(ctx.failures) < 200:
                    ctx.failures.append(fl)
            for nt in item['notes']:
                ctx.note(nt)
            reqs.extend(item['reqs'])
            pending.extend(item['pending'])
    ex = ctx.hists.get('exhaustive_subset_objects')
    if ex:
        ctx.exhaustive.append('all non-empty ordered subsets of the segment numbers for objects with n segments: '
                              + ', '.join(f'n={k}: {v} objects' for k, v in sorted(ex.items())))
    answers = _model_parallel(ctx, reqs, procs)
    if answers is None:
        return
    for (case, impl, how), ans in zip(pending, answers):
        layer = case.get('layer', 'L0')
        if 'proto_err' in ans:
            ctx.disagree(layer, case, impl, ans, 'model protocol error')
            continue
        model = ('ok', ans['ok']) if 'ok' in ans else ('err', ans['err'])
        if impl[0] != model[0]:
            ctx.disagree(layer, case, impl, model, 'ok-vs-error')
        elif impl[0] == 'ok' and how != 'okerr':
            if how == 'read':
                same = _same(impl[1], model[1])
            elif how == 'sorted-pairs':
                same = sorted(map(list, impl[1])) == sorted(map(list, model[1]))
            else:
                same = impl[1] == model[1]
            if not same:
                ctx.disagree(layer, case, _short(impl), _short(model), 'value')


def _short(x):
    s = repr(x)
    return s if len(s) < 1500 else s[:1500] + '...'


def attribute(failure, open_findings):
    """Oracle failures that belong to an open finding.  C02-segment-number-not-a-dimension: a valid read of an object of the
    third-party stream `shared_seg` (ReferencedSegmentNumber not a dimension index) is refused.  (The oracle is silent on that
    stream at present — ASSUMPTIONS — so nothing is attributed in a normal run; this keeps the class apart should the oracle be
    made strict there.)"""
    case = failure.get('case') if isinstance(failure, dict) else None
    if not isinstance(case, dict):
        return None
    third = (case.get('obj') or {}).get('third') or []
    if 'shared_seg' in third and str(failure.get('site', '')).endswith('/accept'):
        for f in open_findings:
            if f.get('id') == 'C02-segment-number-not-a-dimension':
                return f['id']
    return None


def replay(ctx, case):
    """Re-run one stored case on the implementation; returns failure detail or None."""
    sub = type(ctx)(ctx.prop, ctx.tier, ctx.seed, 1, ctx.driver)
    if 'repro' in case:
        # witness of an open finding: a stand-alone script (exit 1 = the defect is still there)
        import os
        import subprocess
        root = os.path.dirname(os.path.dirname(os.path.dirname(os.path.abspath(__file__))))
        r = subprocess.run(['/venv/bin/python', os.path.join(root, case['repro'])], capture_output=True, text=True)
        return [{'detail': (r.stdout or r.stderr)[-300:]}] if r.returncode == 1 else None
    if 'obj' in case:
        d = case['obj']
        obj = _build(sub, d)
        if 'error' in obj:
            return [{'detail': obj['error']}]
        frames = _stored_view(obj)
        info = _plane_lookup(obj, frames)
        if 'req' in case:
            if not case.get('history') and not case['req'].get('touched'):
                _run_read(sub, obj, case['req'], frames, info)
            if not sub.failures:
                # the failure may depend on what was read from this object before: replay the object's whole history
                sub2 = type(ctx)(ctx.prop, ctx.tier, ctx.seed, 1, ctx.driver)
                _object_cases(sub2, d, [], [])
                want = case['req'].get('step')
                sub.failures = [f for f in sub2.failures if f['case'].get('req', {}).get('step') == want] or sub2.failures
        elif 'search' in case:
            _search(sub, obj, [], [])
            sub.failures = [f for f in sub.failures if f['case'].get('filters') == case.get('filters')
                            and f['case'].get('search') == case.get('search')] or sub.failures
        else:
            for rq in _requests(sub, obj):
                _run_read(sub, obj, rq, frames, info)
    elif 'helper' in case:
        _helpers(sub, [], [])
    return sub.failures[:3] or None


def shrink(ctx, failure):
    """Simplify a failing read: same object, smaller request (defaults for options, fewer planes, fewer segments), as
    long as the oracle still fails at the same kind of site.  Returns a failure record or None."""
    case = failure.get('case') or {}
    if 'obj' not in case or 'req' not in case or case.get('history') or case['req'].get('touched'):
        return None           # history-dependent failures are replayed with the whole history of the object
    sub = type(ctx)(ctx.prop, ctx.tier, ctx.seed, 1, ctx.driver)
    obj = _build(sub, case['obj'])
    if 'error' in obj:
        return None
    frames = _stored_view(obj)
    info = _plane_lookup(obj, frames)
    kind = (failure.get('site') or '').split('/')[-1]

    def fails(rq):
        probe = type(ctx)(ctx.prop, ctx.tier, ctx.seed, 1, ctx.driver)
        try:
            _run_read(probe, obj, rq, frames, info)
        except Exception:  # noqa: BLE001
            return None
        for f in probe.failures:
            if (f.get('site') or '').split('/')[-1] == kind:
                return f
        return None
    best_rq = dict(case['req'])
    best = fails(best_rq)
    if best is None:
        return None
    budget = 60
    changed = True
    while changed and budget > 0:
        changed = False
        cands = []
        for k, v in (('dtype', None), ('skip', False), ('assert_missing', False), ('rescale', True), ('segs_none', False),
                     ('region', None), ('vrange', None)):
            if best_rq.get(k) != v and k in best_rq:
                cands.append(dict(best_rq, **{k: v}))
        if best_rq.get('planes') and len(best_rq['planes']) > 1:
            for i in range(len(best_rq['planes'])):
                cands.append(dict(best_rq, planes=best_rq['planes'][:i] + best_rq['planes'][i + 1:]))
        if len(best_rq['segs']) > 1:
            for i in range(len(best_rq['segs'])):
                cands.append(dict(best_rq, segs=best_rq['segs'][:i] + best_rq['segs'][i + 1:]))
        for rq in cands:
            budget -= 1
            if budget <= 0:
                break
            f = fails(rq)
            if f is not None:
                best_rq, best, changed = rq, f, True
                break
    return best
