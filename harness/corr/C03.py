"""C03  Derived images sit where the user placed them in space.

Oracle (independent of the model, exact rational arithmetic on the library's float outputs):
  * positional: every plane of a volume read back lies at the stored position of exactly one input plane
    and carries that plane's pixels (or lies at no input plane and is empty); every non-empty input plane
    is found; in-plane vectors are those of the input; the result is right-handed;
  * the volume an image returns has the geometry the image reports (`get_volume_geometry`);
  * a sub-region equals the block of the full volume that the request means in Python-slice terms and its
    affine maps index 0 to the position of that block's first voxel; out-of-range requests are refused;
  * every pyramid level covers the same physical extent (rows*spacing, columns*spacing).
Tie T: T2 (`_standardize_slice_indices`), T3 (read-only, owned by C04), TC03pyr (pyramid level spacing and size),
TC03stack (`_get_stacked_volume_geometry`: geometry slice, frame filter/slot, number of slices), TC03segvol / TC03imgvol
(the slices `Segmentation.get_volume` / `Image.get_volume` take of geometry and pixel array in both branches).
Tie C: Model/SegGeom.lean (`storeStack`, `readStack`, `getVolumeStack`, `tiledVolume`) against the stored
attributes (L1, via pydicom) and the public read API (L0).
"""
from __future__ import annotations

import itertools
from fractions import Fraction as F

import numpy as np

PROP = 'C03'
TARGETS = ['T2', 'T3', 'TC03pyr', 'TC03stack', 'TC03segvol', 'TC03imgvol', 'TC03wireV', 'TC03wireI', 'TC03wireS', 'TC03single', 'TC03getitem', 'TC03volpos', 'TC03rot', 'TC03loop', 'TC03idxval', 'TC03dist',
           'T7b', 'T7g', 'TC10f']          # read-only: regenerated for C12 / C10, used by the tile bridge `tiles_use_the_source`
LEAN_MODULES = ['HdVerif.Props.C03']
MODEL_MODULES = ['HdVerif.Model.SegGeom', 'HdVerif.Model.SegFrameLoop']
NAMESPACE = 'HdVerif.C03'
DRIVER = 'Drivers/C03.lean'
RULE = ('streams: vol = Segmentation(pixel_array=Volume) with a random admissible affine (48 signed-permutation or oblique '
        'rational directions x dyadic spacings/positions x shapes 1..6), type, segment layout, omit_empty_frames, emptiness '
        'pattern; src = arrays aligned to a CT series / enhanced multi-frame image given in a random slice order; img = '
        'Image.get_volume of stacks and tiled slides; tiled = tiled segmentations (from arrays and from SLIDE volumes); '
        'sub = sub-volume requests (slice/row/column start/end, 1-based, 0-based, negative, out of range); pyr = pyramids '
        '(mask rank 2/3/4, factor lists, several pixel arrays); place = planes placed explicitly (plane_positions + plane_orientation '
        '+ pixel_measures with / without SpacingBetweenSlices, mostly not parallel to the sources, omission leaving non-adjacent '
        'planes); tiledpos = tiled segmentations placed by the user at the source origin or off it in exactly one coordinate; '
        'frames (inside vol / place / src / tiled / tiledpos) = every stored frame or tile: segment, position / offset, DimensionIndexValues '
        'in stored order, in memory and after a bytes round trip.  One case = one (object, read call).  Non-trivial = accepted '
        'read of an object with at least one non-empty plane, distinct by (stream, direction, handedness, shape, options, '
        'request).')
ASSUMPTIONS = [
    'decimal strings are exact for the generated values (dyadic rationals with <= 7 fractional digits); oblique directions '
    'are compared with tolerance 1e-6 (support only)',
    'spacing = norm of an affine column is modelled as the spacing factor of direction x spacing (real-number fact)',
    'tolerances of get_volume_positions (rtol 0.01, perpendicularity 1e-6) are modelled exactly over Q; the object streams '
    'draw exact multiples, the helper stream also near-multiples (within 0.4 % of a spacing, so that differences stay clear '
    'of the 1 % boundary where exact and floating-point arithmetic may disagree) with and without a hint',
    'pixel encoding / decoding of frames (C01) and segment selection (C02) are taken from the stored frames as decoded '
    'by the library itself; this property only places them',
    'planes of one object lie at pairwise different distances along the normal (coincident planes are refused by the '
    'constructor: theorem coincident_planes_refused; not drawn for segmentations, drawn for images as duplicate_position)',
    'thin slices are dyadic (1/16, 1/64, 1/1024) so that positions stay exact decimals of at most 16 characters',
    'caller-owned buffers (round 5): every affine / position / orientation / spacing array is overwritten in place right after '
    'the call that received it, pixel arrays once the segmentation exists; a Volume shares its pixel array with the caller by '
    'design (checked on the clean tree: vol.array is the array passed), so the pixel buffer of a Volume is not overwritten '
    'between hd.Volume(...) and Segmentation(...); buffers with a non-default memory layout (views, read-only) are not overwritten',
]
MODELLED_NOT_VERIFIED = ['numpy linear algebra (cross, dot, argsort, unique incl. return_index / axis=0, round)',
                         'compute_tile_positions_per_frame (tile grid order and arithmetic: pinned by C10 / C12, here compared per tile)', 'pydicom DS formatting',
                         'SQLite frame look-up table', 'pillow resize (pyramid pixel content is not part of this property)']

# ---------------------------------------------------------------------------------------------- numbers
SPACINGS = [F(1, 4), F(1, 2), F(3, 4), F(1), F(5, 4), F(3, 2), F(2), F(5, 2), F(3)]
THIN = [F(1, 16), F(1, 64), F(1, 1024)]          # thin slices (micro-CT, high-resolution MR): unusual but legal


def slice_spacing(r):
    """Spacing between planes: mostly everyday values, sometimes thin slices (dyadic, so that positions stay exact decimals
    of at most 16 characters for |coordinates| <= 100)."""
    return r.choice(THIN) if r.random() < 0.12 else r.choice(SPACINGS)


def _signed_perms():
    out = []
    for perm in itertools.permutations(range(3)):
        for signs in itertools.product((1, -1), repeat=3):
            m = [[F(0)] * 3 for _ in range(3)]
            for col, (row, sg) in enumerate(zip(perm, signs)):
                m[row][col] = F(sg)
            out.append(m)
    return out


SIGNED_PERMS = _signed_perms()          # 48 matrices, columns = directions d0 d1 d2
_ROT = [
    [[F(3, 5), F(-4, 5), F(0)], [F(4, 5), F(3, 5), F(0)], [F(0), F(0), F(1)]],
    [[F(1), F(0), F(0)], [F(0), F(5, 13), F(-12, 13)], [F(0), F(12, 13), F(5, 13)]],
    [[F(8, 17), F(0), F(15, 17)], [F(0), F(1), F(0)], [F(-15, 17), F(0), F(8, 17)]],
]


def _matmul(a, b):
    return [[sum(a[i][k] * b[k][j] for k in range(3)) for j in range(3)] for i in range(3)]


def _det(m):
    return (m[0][0] * (m[1][1] * m[2][2] - m[1][2] * m[2][1]) - m[0][1] * (m[1][0] * m[2][2] - m[1][2] * m[2][0])
            + m[0][2] * (m[1][0] * m[2][1] - m[1][1] * m[2][0]))


def _col(m, j):
    return [m[0][j], m[1][j], m[2][j]]


def rand_direction(r, oblique_p=0.15):
    """(3x3 matrix of Fractions with orthonormal columns d0 d1 d2, exact flag, label)."""
    k = r.randrange(48)
    m = SIGNED_PERMS[k]
    if r.random() < oblique_p:
        rot = _ROT[r.randrange(3)]
        if r.random() < 0.5:
            rot = _matmul(rot, _ROT[r.randrange(3)])
        return _matmul(rot, m), False, f'obl{k}'
    return m, True, f'sp{k}'


def rand_geom(r, oblique_p=0.15):
    d, exact, label = rand_direction(r, oblique_p)
    s = [slice_spacing(r), r.choice(SPACINGS), r.choice(SPACINGS)]
    p = [F(r.randint(-800, 800), 8) for _ in range(3)]
    return {'d': d, 's': s, 'p': p, 'exact': exact, 'label': label, 'h': int(_det(d))}


def affine_of(g):
    a = np.eye(4)
    for j in range(3):
        for i in range(3):
            a[i, j] = float(g['s'][j] * g['d'][i][j])
    for i in range(3):
        a[i, 3] = float(g['p'][i])
    return a


def fr(x):
    return F(float(x))


def rstr(x):
    x = F(x)
    return str(x.numerator) if x.denominator == 1 else f'{x.numerator}/{x.denominator}'


def frac_affine(a):
    return [[fr(a[i, j]) for j in range(4)] for i in range(4)]


def apply_aff(a, idx):
    return [a[i][0] * idx[0] + a[i][1] * idx[1] + a[i][2] * idx[2] + a[i][3] for i in range(3)]


def close(x, y, tol):
    return abs(x - y) <= tol * (1 + abs(y))


def vclose(x, y, tol):
    return all(close(a, b, tol) for a, b in zip(x, y))


# ---------------------------------------------------------------------------------------------- builders
def _seg_kw():
    import highdicom as hd
    return dict(series_instance_uid=hd.UID(), series_number=2, sop_instance_uid=hd.UID(), instance_number=1,
                manufacturer='m', manufacturer_model_name='mm', software_versions='1', device_serial_number='1')


def _late_first_executor():
    """A valid concurrent.futures.Executor whose futures COMPLETE in the reverse of the submission order unless somebody
    asks for a result earlier: a future is finished on demand by `result()` (so gathering by position costs no waiting)
    and otherwise by a timer, last submitted first, once no submission has arrived for 30 ms (so gathering in completion
    order sees the reverse order)."""
    import threading
    from concurrent.futures import Executor, Future

    class LazyFuture(Future):
        def result(self, timeout=None):
            self._owner._complete(self)
            return super().result(timeout)

    class LateFirst(Executor):
        def __init__(self):
            self.items, self.lock, self.timer = [], threading.RLock(), None

        def submit(self, fn, /, *a, **k):
            f = LazyFuture()
            f._owner, f._job = self, (fn, a, k)
            with self.lock:
                self.items.append(f)
                if self.timer is not None:
                    self.timer.cancel()
                self.timer = threading.Timer(0.03, self._drain)
                self.timer.daemon = True
                self.timer.start()
            return f

        def _complete(self, f):
            with self.lock:
                if f.done():
                    return
                fn, a, k = f._job
                try:
                    f.set_result(fn(*a, **k))
                except BaseException as e:  # noqa: BLE001
                    f.set_exception(e)

        def _drain(self):
            with self.lock:
                items = list(self.items)
            for f in reversed(items):
                self._complete(f)

        def shutdown(self, wait=True, *, cancel_futures=False):
            self._drain()
    return LateFirst()


_THREAD1 = None


def encoding_variant(ctx, stream, idx, seg_type, frame_pixels):
    """Guide 3a / round 4: how the frames are encoded is no part of the placement.  Transfer syntax (native or, where the
    type allows it, RLE / JPEG-LS lossless) x workers (0, an Executor finishing later calls first, a one-thread pool, in
    the thorough tier sometimes a process pool of 2)."""
    r = ctx.rng(stream + 'enc', idx)
    ts, workers = 'native', 0
    if seg_type in ('LABELMAP', 'FRACTIONAL') and r.random() < 0.45:
        ts = r.choice(['RLELossless', 'RLELossless', 'JPEGLSLossless'])
        if ts == 'JPEGLSLossless' and frame_pixels < 24:
            ts = 'RLELossless'              # the pyjpegls plugin cannot encode frames of a few pixels (its output buffer is too small)
        workers = r.choice([0, 'late-first', 'late-first', 'late-first', 'thread1'] + ([2] if ctx.tier == 'thorough' and r.random() < 0.1 else []))
    elif r.random() < 0.08:
        workers = 'late-first'              # no effect for native syntaxes (a warning)
    return ts, workers


def encoding_kw(ts, workers):
    import pydicom.uid as U
    global _THREAD1
    kw = {}
    if ts != 'native':
        kw['transfer_syntax_uid'] = getattr(U, ts)
    if workers == 'late-first':
        kw['workers'] = _late_first_executor()
    elif workers == 'thread1':
        if _THREAD1 is None:
            from concurrent.futures import ThreadPoolExecutor
            _THREAD1 = ThreadPoolExecutor(1)
        kw['workers'] = _THREAD1
    elif workers:
        kw['workers'] = workers
    return kw


def _fetch(fn, *a, **k):
    try:
        return ('ok', fn(*a, **k))
    except Exception as e:  # noqa: BLE001
        return ('err', type(e).__name__ + ': ' + str(e)[:160])


def rand_mask(r, nr, shape3, nseg, layout, empties):
    """Random segment content.  layout 'label': (n0,R,C) ints 0..nseg; 'chan': (n0,R,C,nseg) 0/1.
    `empties`: set of plane indices forced empty."""
    n0, rows, cols = shape3
    dens = r.choice([0.15, 0.4, 0.8])
    if layout == 'label':
        a = (nr.random(shape3) < dens) * nr.integers(1, nseg + 1, size=shape3)
        a = a.astype(np.uint8)
    else:
        a = (nr.random(shape3 + (nseg,)) < dens).astype(np.uint8)
    for k in empties:
        a[k] = 0
    # make sure a non-forced plane is non-empty so that the emptiness pattern is the intended one
    for k in range(n0):
        if k not in empties and not a[k].any():
            if layout == 'label':
                a[k, r.randrange(rows), r.randrange(cols)] = r.randint(1, nseg)
            else:
                a[k, r.randrange(rows), r.randrange(cols), r.randrange(nseg)] = 1
    return a


def rand_empties(r, n0):
    mode = r.choice(['none', 'none', 'ends', 'interior', 'random', 'random', 'all', 'allbutone'])
    if mode == 'none':
        return mode, set()
    if mode == 'ends':
        a = r.randint(0, n0 - 1)
        b = r.randint(0, n0 - 1 - a)
        return mode, set(range(a)) | set(range(n0 - b, n0))
    if mode == 'interior':
        return mode, {k for k in range(1, n0 - 1) if r.random() < 0.6}
    if mode == 'random':
        return mode, {k for k in range(n0) if r.random() < 0.5}
    if mode == 'all':
        return mode, set(range(n0))
    keep = r.randrange(n0)
    return mode, set(range(n0)) - {keep}


def combined(arr, layout):
    """label map (n0,R,C) of an input in either layout (segments do not overlap in 'chan' for LABELMAP use)."""
    if layout == 'label':
        return arr.astype(np.int64)
    out = np.zeros(arr.shape[:3], np.int64)
    for s in range(arr.shape[3]):
        out[arr[..., s] > 0] = s + 1
    return out


def channels_of(arr, layout, nseg):
    """(n0,R,C,nseg) binary view of an input in either layout."""
    if layout == 'chan':
        return (arr > 0).astype(np.int64)
    return np.stack([(arr == s + 1) for s in range(nseg)], axis=-1).astype(np.int64)


# ---------------------------------------------------------------------------------------------- generator dimensions (guide 3a)
LAYOUTS = ['C', 'C', 'F', 'transposed', 'strided', 'negstride', 'readonly']


def relayout(arr, how):
    """An array equal to `arr` with another memory layout."""
    arr = np.asarray(arr)
    if how == 'C':
        return np.ascontiguousarray(arr).copy()
    if how == 'F':
        return np.asfortranarray(arr).copy(order='F')
    if how == 'transposed':
        rev = tuple(reversed(range(arr.ndim)))
        return np.ascontiguousarray(arr.transpose(rev)).transpose(rev)
    if how == 'strided':
        big = np.zeros(tuple(2 * d for d in arr.shape), arr.dtype)
        sl = tuple(slice(None, None, 2) for _ in arr.shape)
        big[sl] = arr
        return big[sl]
    if how == 'negstride':
        sl = tuple(slice(None, None, -1) for _ in arr.shape)
        return np.ascontiguousarray(arr[sl])[sl]
    if how == 'readonly':
        a = arr.copy()
        a.flags.writeable = False
        return a
    raise ValueError(how)


class CallerBuffers:
    """Guide 3a / round 5: the caller's own work buffers.  Every array or matrix the generator hands to the library (affine,
    position / orientation / spacing arrays, pixel arrays) is `give`n through this registry as a fresh writable float64 / integer
    ndarray; `scribble()` then overwrites the registered buffers IN PLACE with other plausible values (a re-used work buffer), after
    the call that received them and before the next use of what was built from them.  Expectations are always computed from the
    generator's own exact values, i.e. from a snapshot taken at call time.  `late` buffers are only scribbled once the object
    under test exists (a Volume shares its pixel array with the caller by design: run on the clean tree, see ASSUMPTIONS)."""

    def __init__(self, active):
        self.active, self.items, self.count = active, [], 0

    def give(self, arr, late=False, dtype=None):
        if not self.active:
            return arr
        a = np.array(arr, dtype=dtype) if dtype is not None else np.array(arr)
        self.items.append((a, late))
        return a

    def scribble(self, late=False):
        if not self.active:
            return
        for a, is_late in self.items:
            if (is_late and not late) or not a.flags.writeable:
                continue
            if a.dtype.kind == 'f':
                a[...] = a * -3.0 + 17.0
            else:
                a[...] = (a == 0)
            self.count += 1


def draw_buffers(ctx, stream, idx):
    return CallerBuffers(ctx.rng(stream + 'buffers', idx).random() < 0.5)


def spell_type(r, seg_type):
    """String or enum member."""
    import highdicom as hd
    if r.random() < 0.4:
        return hd.seg.SegmentationTypeValues(seg_type), 'enum'
    return seg_type, 'str'


def spell_request(r, req):
    """ints as numpy ints, bool as numpy bool (accepted spellings of the same request)."""
    how = r.choice(['int', 'int', 'np.int64', 'np.int32', 'np.uint8', 'np.bool_'])
    if how == 'int':
        return dict(req), how
    out = {}
    for k, v in req.items():
        if isinstance(v, bool):
            out[k] = np.bool_(v) if how == 'np.bool_' else v
        elif isinstance(v, int):
            if how == 'np.uint8':
                out[k] = np.uint8(v) if 0 <= v < 256 else np.int16(v)
            elif how == 'np.bool_':
                out[k] = v
            else:
                out[k] = (np.int64 if how == 'np.int64' else np.int32)(v)
        else:
            out[k] = v
    return out, how


def reread(obj, entry):
    """The object after a bytes round trip (dcmwrite -> dcmread with pydicom defaults) through a parsing entry point."""
    import io as _io
    import highdicom as hd
    import pydicom
    from gen.images import to_bytes
    blob = to_bytes(obj)
    if entry == 'segread':
        return hd.seg.segread(_io.BytesIO(blob))
    if entry == 'Segmentation.from_dataset':
        return hd.seg.Segmentation.from_dataset(pydicom.dcmread(_io.BytesIO(blob)), copy=False)
    if entry == 'imread':
        return hd.imread(_io.BytesIO(blob))
    if entry == 'Image.from_dataset':
        return hd.Image.from_dataset(pydicom.dcmread(_io.BytesIO(blob)), copy=False)
    if entry == 'imread-lazy':
        return hd.imread(_io.BytesIO(blob), lazy_frame_retrieval=True)
    raise ValueError(entry)


def _snapshot(obj):
    import hashlib
    h = hashlib.sha1()
    for kw in ('PixelData', 'NumberOfFrames', 'Rows', 'Columns'):
        if kw in obj:
            v = obj.get(kw)
            h.update(bytes(v) if isinstance(v, (bytes, bytearray)) else str(v).encode())
    for kw in ('PerFrameFunctionalGroupsSequence', 'SharedFunctionalGroupsSequence'):
        if kw in obj:
            h.update(str(obj[kw]).encode())
    return h.hexdigest()


def same_volume(a, b):
    return (a.array.shape == b.array.shape and np.array_equal(a.array, b.array) and np.array_equal(a.affine, b.affine))


def repeated_reads(ctx, descr, obj, get_volume, kw, first, r, site, late=None):
    """Several calls on ONE object: the same read again, after a refused call, after the cached pixel array was
    populated, after a read with other options; nothing may change and the object must stay untouched."""
    snap = _snapshot(obj)
    steps = ['again', 'after-refused', 'after-pixel_array', 'after-other-options', 'after-result-overwritten']
    if late is not None:
        steps.append('after-late-refusal')
    r.shuffle(steps)
    for step in steps:
        if step == 'after-refused':
            _fetch(get_volume, slice_start=0, **kw)                       # 0 is no one-based number
            _fetch(get_volume, row_start=10 ** 6, **kw)
        elif step == 'after-pixel_array':
            _fetch(lambda: obj.pixel_array)
        elif step == 'after-late-refusal':
            late()
        elif step == 'after-result-overwritten':
            # what a read returned belongs to the caller: overwriting it (array, affine, the reported geometry's affine) must
            # not reach into the object
            st0, x = _fetch(get_volume, **kw)
            if st0 == 'ok':
                for getter in (lambda: x.array, lambda: x.affine):
                    stb, b_ = _fetch(getter)
                    if stb == 'ok' and isinstance(b_, np.ndarray) and b_.flags.writeable:
                        b_[...] = 7
            stg0, g0 = _fetch(lambda: obj.get_volume_geometry())
            if stg0 == 'ok' and g0 is not None:
                ga_ = g0.affine
                if ga_.flags.writeable:
                    ga_[...] = 0
        elif step == 'after-other-options':
            _fetch(get_volume, slice_start=0, as_indices=True, row_end=-1 if first.spatial_shape[1] > 1 else None, **kw)
            if 'combine_segments' in kw:
                _fetch(get_volume)
        st, v = _fetch(get_volume, **kw)
        ctx.case(stream=descr['stream'] + '/repeat', repeat=step, outcome='ok' if st == 'ok' else 'refused')
        if st != 'ok':
            ctx.fail(dict(descr, repeat=step), f'read that worked before is refused {step}: {v}', site=site + '/repeat')
        elif not same_volume(first, v):
            ctx.fail(dict(descr, repeat=step), f'the same read returns another volume {step}', site=site + '/repeat')
    if _snapshot(obj) != snap:
        ctx.fail(descr, 'reading volumes modified the object (PixelData / functional groups changed)', site=site + '/repeat')


def late_refused_read(ctx, descr, get_volume, seg_type, nseg, overlap, n_slices, rv, base_kw):
    """Round 6, history dimension: a read that passes the checks of its arguments but is refused LATE (while the frames of the
    requested slices are already being looked up): combining overlapping segments, an output dtype that cannot hold the values,
    an integer dtype for rescaled fractions -- asked for a slice range of its own.  The object must be as before: the next read
    of ANOTHER slice range must return only voxels that lie where it says.  Returns the kind of refusal provoked (or None)."""
    if n_slices < 2:
        return None
    if overlap:
        kw, kind = dict(combine_segments=True), 'combine-overlapping'
    elif seg_type == 'FRACTIONAL':
        kw, kind = dict(dtype=np.uint8), 'integer-dtype-for-fractions'
    elif nseg >= 2:
        kw, kind = dict(combine_segments=True, dtype=np.bool_), 'dtype-too-small'
    else:
        return None
    lo = rv.randint(1, n_slices)                       # one-based slice numbers, a range that differs from the following read
    hi = rv.randint(lo, n_slices)
    rng_kw = rv.choice([dict(slice_start=lo), dict(slice_start=lo, slice_end=hi + 1), dict(slice_end=hi + 1),
                        dict(slice_start=lo - 1, as_indices=True)])
    st, v = _fetch(get_volume, **kw, **rng_kw)
    ctx.case(stream=descr['stream'] + '/history', history='late-refused:' + kind, outcome='refused' if st != 'ok' else 'ok')
    return kind


SEG_ENTRIES = ['segread', 'Segmentation.from_dataset', 'imread', 'Image.from_dataset']


def roundtrip_seg_checks(ctx, descr, seg, rv, planes_lab, planes_cha, overlap, rowcos, colcos, ps, exact, seg_type, geom_ref, site,
                         frames_full=None):
    """The same segmentation after a bytes round trip through one parsing entry point: positions, pixels and the reported
    geometry must be what the in-memory object gave."""
    entry = rv.choice(SEG_ENTRIES)
    st, obj = _fetch(reread, seg, entry)
    ctx.case(stream=descr['stream'] + '/reread', entry=entry, outcome='ok' if st == 'ok' else 'refused')
    if st != 'ok':
        ctx.fail(dict(descr, entry=entry), f'written segmentation cannot be read back: {obj}', site=site + '/reread')
        return
    if frames_full is not None:
        # per-frame positions, segment numbers and DimensionIndexValues survive the file round trip frame by frame
        stf, after = _fetch(stored_frames_full, obj)
        if stf != 'ok' or (after != frames_full if exact else len(after) != len(frames_full) or any(
                x['seg'] != y['seg'] or x['div'] != y['div'] or not vclose([F(v) for v in x['pos']], [F(v) for v in y['pos']], F(1, 10 ** 9))
                for x, y in zip(after, frames_full))):
            ctx.fail(dict(descr, entry=entry), {'what': 'per-frame segment / position / DimensionIndexValues differ after the round trip',
                                                'after': after if stf != 'ok' else after[:4], 'before': frames_full[:4]},
                     site=site + '/reread/frames')
    if entry in ('segread', 'Segmentation.from_dataset'):
        label, kw, planes = ('channels', dict(), planes_cha) if overlap else ('combined', dict(combine_segments=True), planes_lab)
        stv, v = _fetch(obj.get_volume, **kw)
        if stv != 'ok':
            ctx.fail(dict(descr, entry=entry, read=label), f'get_volume refused after the round trip: {v}', site=site + '/reread')
            return
        out = np.asarray(v.array)
        if seg_type == 'FRACTIONAL':
            out = np.rint(out.astype(np.float64)).astype(np.int64)
        for b in positional_oracle(out, v.affine, planes, rowcos, colcos, ps, exact, label + '@' + entry)[:3]:
            ctx.fail(dict(descr, entry=entry, read=label), b, site=site + '/reread/position')
        stg, geom = _fetch(obj.get_volume_geometry)
    else:
        # parsed as a plain image (parent class): the geometry it reports must be the segmentation's
        stg, geom = _fetch(obj.get_volume_geometry, allow_missing_positions=True)
    if geom_ref is not None:
        if stg != 'ok' or geom is None:
            ctx.fail(dict(descr, entry=entry), f'get_volume_geometry failed after the round trip: {geom}', site=site + '/reread')
        elif tuple(geom.spatial_shape) != tuple(geom_ref.spatial_shape) or not (
                np.array_equal(geom.affine, geom_ref.affine) if exact
                else np.allclose(geom.affine, geom_ref.affine, rtol=0, atol=1e-9)):   # file write rounds DS values to 16 characters
            ctx.fail(dict(descr, entry=entry), {'what': 'geometry reported after the round trip differs from the in-memory object',
                                                'after': geom.affine.tolist(), 'before': geom_ref.affine.tolist()},
                     site=site + '/reread/geometry')


# ---------------------------------------------------------------------------------------------- positional oracle
def positional_oracle(out_array, out_affine, planes, rowcos, colcos, ps, exact, what):
    """planes: list of (position [3 Fractions], 2-D or 3-D int array).  out_array (n,R,C[,S]).
    Returns list of complaint strings (empty = holds)."""
    tol = F(0) if exact else F(1, 10 ** 6)
    a = frac_affine(np.asarray(out_affine))
    bad = []
    v1 = [a[i][1] for i in range(3)]
    v2 = [a[i][2] for i in range(3)]
    if not vclose(v1, [ps[0] * c for c in colcos], tol):
        bad.append(f'{what}: affine column 1 {[str(x) for x in v1]} is not row spacing x column cosines')
    if not vclose(v2, [ps[1] * c for c in rowcos], tol):
        bad.append(f'{what}: affine column 2 {[str(x) for x in v2]} is not column spacing x row cosines')
    m3 = [[a[i][j] for j in range(3)] for i in range(3)]
    if _det(m3) <= 0:
        bad.append(f'{what}: returned volume is not right-handed')
    if a[3] != [0, 0, 0, 1]:
        bad.append(f'{what}: last affine row {a[3]}')
    used = set()
    n = out_array.shape[0]
    for k in range(n):
        pk = apply_aff(a, (k, 0, 0))
        hit = [i for i, (pos, _) in enumerate(planes) if vclose(pk, pos, tol)]
        if len(hit) > 1:
            # duplicates in the input: all must carry the same pixels to be decidable; pick matching one
            hit = [i for i in hit if np.array_equal(np.asarray(planes[i][1]), out_array[k])][:1] or hit[:1]
        if hit:
            i = hit[0]
            used.add(i)
            if not np.array_equal(np.asarray(planes[i][1]).astype(np.int64), np.asarray(out_array[k]).astype(np.int64)):
                bad.append(f'{what}: output plane {k} lies at the position of input plane {i} but carries other pixels')
        elif np.asarray(out_array[k]).any():
            bad.append(f'{what}: output plane {k} at {[str(x) for x in pk]} is non-empty but no input plane lies there')
    for i, (pos, pl) in enumerate(planes):
        if np.asarray(pl).any() and i not in used:
            bad.append(f'{what}: non-empty input plane {i} at {[str(x) for x in pos]} is not in the volume read back')
    return bad


# ---------------------------------------------------------------------------------------------- request semantics
def py_req(start, end, n, as_indices):
    """Python-slice meaning of a (start, end) request; None = must be refused."""
    def conv(k):
        if k is None:
            return None
        if as_indices:
            return k
        if k == 0:
            return 'bad'
        return k - 1 if k > 0 else k
    s, e = conv(start), conv(end)
    if s == 'bad' or e == 'bad':
        return None
    s = 0 if s is None else (s + n if s < 0 else s)
    e = n if e is None else (e + n if e < 0 else e)
    if not (0 <= s < e <= n):
        return None
    return s, e


def rand_bound(r, n, wide=True):
    """A start/end value around the valid range, or None."""
    x = r.random()
    if x < 0.3:
        return None
    lo, hi = (-n - 2, n + 2) if wide else (-n, n)
    return r.randint(lo, hi)


def rand_request(r, shape, as_indices=None, valid_bias=0.6):
    """Random sub-volume request; with probability valid_bias re-drawn until every axis is valid."""
    ai = r.random() < 0.5 if as_indices is None else as_indices
    want_valid = r.random() < valid_bias
    for _ in range(200):
        req = {}
        for ax, name in enumerate(('slice', 'row', 'column')):
            if r.random() < 0.35:
                continue
            s, e = rand_bound(r, shape[ax]), rand_bound(r, shape[ax])
            if s is not None:
                req[name + '_start'] = s
            if e is not None:
                req[name + '_end'] = e
        ok = all(py_req(req.get(nm + '_start'), req.get(nm + '_end'), shape[ax], ai) is not None
                 for ax, nm in enumerate(('slice', 'row', 'column')))
        if ok or not want_valid:
            break
    req['as_indices'] = ai
    return req


def check_subvolume(ctx, case, get_volume, full, req, exact, kw=None, site='get_volume', empty_rc_free=False):
    """Oracle for one sub-volume request against the full volume `full` (already checked against ground truth).
    Returns ('ok'|'err', value) of the call for the model comparison."""
    kw = kw or {}
    shape = full.spatial_shape
    ai = req['as_indices']
    exp = [py_req(req.get(nm + '_start'), req.get(nm + '_end'), shape[ax], ai)
           for ax, nm in enumerate(('slice', 'row', 'column'))]
    st, sub = _fetch(get_volume, **req, **kw)
    valid = all(e is not None for e in exp)
    detail = None
    if valid:
        if st != 'ok':
            detail = f'valid request refused: {sub}'
        else:
            (s0, e0), (s1, e1), (s2, e2) = exp
            want = full.array[s0:e0, s1:e1, s2:e2]
            if sub.array.shape != want.shape or not np.array_equal(sub.array, want):
                detail = {'what': 'sub-volume pixels are not the requested block of the full volume',
                          'got_shape': list(sub.array.shape), 'want_shape': list(want.shape)}
            else:
                fa = frac_affine(full.affine)
                sa = frac_affine(sub.affine)
                tol = F(0) if exact else F(1, 10 ** 9)
                o = apply_aff(fa, (s0, s1, s2))
                if not vclose([sa[i][3] for i in range(3)], o, tol):
                    detail = {'what': 'affine of the sub-volume does not map index 0 to the position of its first voxel',
                              'origin': [float(sa[i][3]) for i in range(3)], 'first_voxel': [float(x) for x in o]}
                elif not all(vclose([sa[i][j] for i in range(3)], [fa[i][j] for i in range(3)], tol) for j in range(3)):
                    detail = 'sub-volume changes the spacing vectors'
    else:
        if st == 'ok':
            # empty row/column regions of tiled images are returned as empty arrays (no voxel, nothing to place)
            empty_only = empty_rc_free and exp[0] is not None and sub.array.size == 0
            if not empty_only:
                detail = {'what': 'out-of-range / empty / zero (1-based) request accepted', 'shape': list(sub.array.shape),
                          'origin': [float(x) for x in sub.affine[:3, 3]]}
    if detail is not None:
        ctx.fail(dict(case, request=req), detail, site=site)
    return st, sub, exp


# ---------------------------------------------------------------------------------------------- stream: vol
def build_vol_case(ctx, idx):
    import highdicom as hd
    from gen.sources import ct_series, seg_description
    r = ctx.rng('vol', idx)
    nr = ctx.np_rng('volpix', idx)
    g = rand_geom(r)
    if r.random() < 0.75:
        shape = (r.randint(1, 6), r.randint(1, 5), r.randint(1, 5))
    else:
        shape = (r.randint(1, 9), r.randint(1, 6), r.randint(1, 6))
    seg_type = r.choice(['BINARY', 'BINARY', 'LABELMAP', 'LABELMAP', 'FRACTIONAL'])
    nseg = r.choice([1, 1, 2, 3])
    layout = r.choice(['label', 'chan'])
    if seg_type == 'LABELMAP' and layout == 'chan' and nseg > 1:
        layout = 'label'          # overlapping channels are not representable in a label map
    omit = r.random() < 0.65
    mode, empties = rand_empties(r, shape[0])
    arr = rand_mask(r, nr, shape, nseg, layout, empties)
    src = ct_series(1, shape[1], shape[2])
    a = affine_of(g)
    chan = {'SegmentNumber': list(range(1, nseg + 1))} if layout == 'chan' else None
    rv = ctx.rng('volvar', idx)
    mem = rv.choice(LAYOUTS)
    passed = relayout(arr, mem)
    cs = rv.choice(['PATIENT', hd.CoordinateSystemNames.PATIENT])
    bufs = draw_buffers(ctx, 'vol', idx)
    passed = bufs.give(passed, late=True) if bufs.active and mem == 'C' else passed
    vol = hd.Volume(passed, bufs.give(a, dtype=np.float64), coordinate_system=cs, frame_of_reference_uid=src[0].FrameOfReferenceUID,
                    channels=chan)
    typ, typ_spell = spell_type(rv, seg_type)
    ts, workers = encoding_variant(ctx, 'vol', idx, seg_type, shape[1] * shape[2])
    descr = {'stream': 'vol', 'idx': idx, 'seed': ctx.seed, 'dir': g['label'], 'h': g['h'], 'exact': g['exact'],
             'shape': list(shape), 'spacing': [rstr(x) for x in g['s']], 'position': [rstr(x) for x in g['p']],
             'type': seg_type, 'nseg': nseg, 'layout': layout, 'omit': omit, 'empties': mode,
             'empty_planes': sorted(empties), 'memory': mem, 'type_spelling': typ_spell, 'transfer_syntax': ts,
             'workers': workers, 'caller_mutates': bufs.active}

    def mk():
        import warnings
        bufs.scribble()                                 # the affine buffer is re-used after the Volume was built
        with warnings.catch_warnings():
            warnings.simplefilter('ignore')             # workers with a native syntax: documented warning, no effect
            seg = hd.seg.Segmentation(src, vol, typ, [seg_description(i + 1) for i in range(nseg)], omit_empty_frames=omit,
                                      **encoding_kw(ts, workers), **_seg_kw())
        if not np.array_equal(passed, arr):
            raise AssertionError('the constructor modified the array of the volume it was given')
        bufs.scribble(late=True)                        # ... and the pixel buffer once the segmentation exists
        return seg
    return descr, g, arr, mk


def stored_frames(seg):
    """L1 view of a stacked segmentation through pydicom: per frame (position as Fractions, segment number or None)."""
    out = []
    for f in seg.PerFrameFunctionalGroupsSequence:
        pos = [fr(x) for x in f.PlanePositionSequence[0].ImagePositionPatient]
        sn = None
        if 'SegmentIdentificationSequence' in f:
            sn = int(f.SegmentIdentificationSequence[0].ReferencedSegmentNumber)
        out.append((pos, sn))
    return out


def shared_geom(seg):
    sf = seg.SharedFunctionalGroupsSequence[0]
    iop = [fr(x) for x in sf.PlaneOrientationSequence[0].ImageOrientationPatient]
    pm = sf.PixelMeasuresSequence[0]
    ps = [fr(x) for x in pm.PixelSpacing]
    sbs = fr(pm.SpacingBetweenSlices) if 'SpacingBetweenSlices' in pm else None
    return iop, ps, sbs


def stored_frames_full(seg):
    """L1 view of every stored frame, in stored order: ReferencedSegmentNumber (None for a label map), ImagePositionPatient
    (exact rationals as strings), DimensionIndexValues."""
    out = []
    for f in seg.PerFrameFunctionalGroupsSequence:
        pos = [rstr(fr(x)) for x in f.PlanePositionSequence[0].ImagePositionPatient]
        sn = None
        if 'SegmentIdentificationSequence' in f:
            sn = int(f.SegmentIdentificationSequence[0].ReferencedSegmentNumber)
        div = f.FrameContentSequence[0].DimensionIndexValues
        div = [int(div)] if isinstance(div, (int, np.integer)) else [int(x) for x in div]
        out.append({'seg': sn, 'pos': pos, 'div': div})
    return out


def frames_oracle(seg, full, all_pos, lab, cha, rowcos, colcos, seg_type, exact):
    """Independent statement about the stored frames: every frame sits at the position of exactly one input plane and carries
    that plane's pixels (of its segment); no two frames share (segment, position) or their DimensionIndexValues; frames are
    stored in ascending DimensionIndexValues; the position index counts the distinct stored positions 1..K in the order of
    their distance along the right-handed normal cross(column cosines, row cosines); the segment entry is the
    ReferencedSegmentNumber.  Returns complaints."""
    tol = F(0) if exact else F(1, 10 ** 6)
    bad = []
    n = [colcos[1] * rowcos[2] - colcos[2] * rowcos[1], colcos[2] * rowcos[0] - colcos[0] * rowcos[2],
         colcos[0] * rowcos[1] - colcos[1] * rowcos[0]]
    st, px = _fetch(lambda: np.asarray(seg.pixel_array))
    if st == 'ok':
        px = px.reshape((-1, int(seg.Rows), int(seg.Columns)))
        if px.shape[0] != len(full):
            bad.append(f'{px.shape[0]} frames of pixels for {len(full)} per-frame items')
            px = None
    else:
        px = None
    seen, divs, plane_of = set(), [], []
    for i, f in enumerate(full):
        pos = [F(x) for x in f['pos']]
        hit = [k for k, q in enumerate(all_pos) if vclose(pos, q, tol)]
        if len(hit) != 1:
            bad.append(f'frame {i} at {f["pos"]} lies at {len(hit)} input planes')
            plane_of.append(None)
            continue
        k = hit[0]
        plane_of.append(k)
        if (f['seg'], k) in seen:
            bad.append(f'two frames for segment {f["seg"]} and input plane {k}')
        seen.add((f['seg'], k))
        if seg_type == 'LABELMAP':
            if f['seg'] is not None or len(f['div']) != 1:
                bad.append(f'label map frame {i} with segment {f["seg"]} / index values {f["div"]}')
            want = lab[k]
            got = None if px is None else px[i].astype(np.int64)
        else:
            if f['seg'] is None or len(f['div']) != 2 or f['div'][0] != f['seg']:
                bad.append(f'frame {i}: segment {f["seg"]} but index values {f["div"]}')
                continue
            want = cha[k, :, :, f['seg'] - 1] if 1 <= f['seg'] <= cha.shape[3] else None
            got = None if px is None else (px[i] != 0).astype(np.int64)
        if want is None:
            bad.append(f'frame {i} references segment {f["seg"]} that was not described')
        elif got is not None and not np.array_equal(got, np.asarray(want).astype(np.int64)):
            bad.append(f'frame {i} is recorded at the position of input plane {k} (segment {f["seg"]}) but carries other pixels')
        divs.append((tuple(f['div']), sum(a * b for a, b in zip(n, pos))))
    if len({d for d, _ in divs}) != len(divs):
        bad.append('DimensionIndexValues are not unique among the frames')
    if any(not (a[0] < b[0]) for a, b in zip(divs, divs[1:])):
        bad.append(f'frames are not stored in ascending DimensionIndexValues: {[list(d) for d, _ in divs]}')
    # position index = rank of the distance among the distinct stored positions
    dists = sorted({d for _, d in divs})
    for dv, dist in divs:
        want_idx = 1 + dists.index(dist)
        if dv[-1] != want_idx:
            bad.append(f'position index {dv[-1]} of a frame at distance {float(dist)} along the normal; {want_idx} of {len(dists)} stored positions expected')
            break
    return bad


def frames_l1(ctx, descr, seg, all_pos, iop, lab, cha, arr, nseg, seg_type, exact, rowcos, colcos, reqs, pending, site):
    """Frame loop of the constructor: oracle on the stored frames + L1 comparison with the model (`segFrames`)."""
    st, full = _fetch(stored_frames_full, seg)
    if st != 'ok':
        ctx.fail(descr, f'stored frames cannot be listed: {full}', site=site + '/frames')
        return None
    for b in frames_oracle(seg, full, all_pos, lab, cha, rowcos, colcos, seg_type, exact)[:3]:
        ctx.fail(descr, b, site=site + '/frames')
    ctx.case(stream=descr['stream'] + '/frames', frames=min(len(full), 12), type=seg_type, omit=descr['omit'],
             skipped_frames=(seg_type != 'LABELMAP' and len(full) < nseg * len({tuple(f['pos']) for f in full})),
             nontrivial_key=(descr['stream'], 'frames', len(full), seg_type, descr['omit'], nseg, descr.get('h'), descr.get('order_mode'))
             if len(full) > 1 else None)
    if exact:
        n0 = len(all_pos)
        present = [[bool(cha[k, :, :, s_].any()) for k in range(n0)] for s_ in range(nseg)]
        reqs.append(('segFrames', {'iop': [rstr(x) for x in iop], 'pos': [[rstr(x) for x in p_] for p_ in all_pos],
                                   'described': list(range(1, nseg + 1)), 'present': present,
                                   'flags': [bool(np.asarray(arr[k]).any()) for k in range(n0)], 'omit': bool(descr['omit']),
                                   'labelmap': seg_type == 'LABELMAP'}))
        pending.append((dict(descr, what='stored frames: segment, position, DimensionIndexValues in stored order', layer='L1',
                             model_drop=['plane', 'pos_plane']), ('ok', full)))
    return full


def stored_tile_frames(seg):
    """L1 view of every stored tile of a TILED_SPARSE segmentation, in stored order."""
    out = []
    for f in seg.PerFrameFunctionalGroupsSequence:
        pp = f.PlanePositionSlideSequence[0]
        sn = None
        if 'SegmentIdentificationSequence' in f:
            sn = int(f.SegmentIdentificationSequence[0].ReferencedSegmentNumber)
        div = f.FrameContentSequence[0].DimensionIndexValues
        div = [int(div)] if isinstance(div, (int, np.integer)) else [int(x) for x in div]
        out.append({'seg': sn, 'rc': [int(pp.RowPositionInTotalImagePixelMatrix), int(pp.ColumnPositionInTotalImagePixelMatrix)],
                    'pos': [rstr(fr(pp.XOffsetInSlideCoordinateSystem)), rstr(fr(pp.YOffsetInSlideCoordinateSystem)),
                            rstr(fr(pp.get('ZOffsetInSlideCoordinateSystem', 0.0)))], 'div': div})
    return out


def tile_frames_l1(ctx, descr, seg, mask, origin, ios, psx, reqs, pending):
    """Tiles of a total-pixel-matrix mask: oracle on the stored per-frame items (pixels of the tile at the recorded offset,
    DimensionIndexValues = ranks of row / column / x / y / z among the stored tiles, stored in ascending (segment, row,
    column)) + L1 comparison with the model (`tileFrames`)."""
    st, full = _fetch(stored_tile_frames, seg)
    if st != 'ok':
        ctx.fail(descr, f'stored tiles cannot be listed: {full}', site='tiled/frames')
        return
    total_r, total_c = descr['total']
    tr, tc = int(seg.Rows), int(seg.Columns)
    nseg, seg_type = descr['nseg'], descr['type']
    m = np.zeros((total_r + tr, total_c + tc), np.int64)
    m[:total_r, :total_c] = mask[0]
    stp, px = _fetch(lambda: np.asarray(seg.pixel_array).reshape((-1, tr, tc)))
    bad = []
    if stp == 'ok' and px.shape[0] != len(full):
        bad.append(f'{px.shape[0]} frames of pixels for {len(full)} per-frame items')
        stp = 'err'
    cols = [sorted({f['rc'][0] for f in full}), sorted({f['rc'][1] for f in full})] + [sorted({F(f['pos'][i]) for f in full}) for i in range(3)]
    seen = set()
    keys = []
    for i, f in enumerate(full):
        r0, c0 = f['rc'][0] - 1, f['rc'][1] - 1
        if not (0 <= r0 < total_r and 0 <= c0 < total_c):
            bad.append(f'frame {i}: tile offset {f["rc"]} outside the total pixel matrix')
            continue
        if (f['seg'], r0, c0) in seen:
            bad.append(f'two frames for segment {f["seg"]} and tile offset {f["rc"]}')
        seen.add((f['seg'], r0, c0))
        tile = m[r0:r0 + tr, c0:c0 + tc]
        lead = [] if seg_type == 'LABELMAP' else [f['seg']]
        if (seg_type == 'LABELMAP') != (f['seg'] is None):
            bad.append(f'frame {i}: segment {f["seg"]} in a {seg_type} segmentation')
            continue
        want_div = lead + [1 + cols[0].index(f['rc'][0]), 1 + cols[1].index(f['rc'][1])] + [1 + cols[2 + j].index(F(f['pos'][j])) for j in range(3)]
        if f['div'] != want_div:
            bad.append(f'frame {i} at tile offset {f["rc"]}: DimensionIndexValues {f["div"]}, {want_div} expected '
                       '(segment, then 1-based ranks of row, column, x, y, z among the stored tiles)')
        if stp == 'ok':
            got = px[i].astype(np.int64) if seg_type == 'LABELMAP' else (px[i] != 0).astype(np.int64)
            want = tile if seg_type == 'LABELMAP' else (tile == f['seg']).astype(np.int64)
            if not np.array_equal(got, want):
                bad.append(f'frame {i} is recorded at tile offset {f["rc"]} (segment {f["seg"]}) but carries other pixels')
        keys.append((f['seg'] or 0, r0, c0))
    if any(not (a < b) for a, b in zip(keys, keys[1:])):
        bad.append(f'tiles are not stored in ascending (segment, row, column): {keys[:8]}')
    for b in bad[:3]:
        ctx.fail(descr, b, site='tiled/frames')
    ctx.case(stream=descr['stream'] + '/frames', frames=min(len(full), 12), type=seg_type, omit=descr['omit'],
             nontrivial_key=(descr['stream'], 'frames', len(full), seg_type, descr['omit'], nseg, tuple(descr['tile'])) if len(full) > 1 else None)
    if descr['exact']:
        grid = [(r0, c0) for r0 in range(0, total_r, tr) for c0 in range(0, total_c, tc)]
        flags = [bool(m[r0:r0 + tr, c0:c0 + tc].any()) for r0, c0 in grid]
        present = [[bool((m[r0:r0 + tr, c0:c0 + tc] == s_ + 1).any()) for r0, c0 in grid] for s_ in range(nseg)]
        reqs.append(('tileFrames', {'ios': [rstr(x) for x in ios], 'ps': [rstr(x) for x in psx], 'origin': [rstr(x) for x in origin],
                                    'rows': total_r, 'cols': total_c, 'tile_rows': tr, 'tile_cols': tc,
                                    'described': list(range(1, nseg + 1)), 'present': present, 'flags': flags,
                                    'omit': bool(descr['omit']), 'labelmap': seg_type == 'LABELMAP'}))
        pending.append((dict(descr, what='stored tiles: segment, offset, slide position, DimensionIndexValues in stored order', layer='L1'),
                        ('ok', full)))


def model_store_req(g, n0, included, flags=None, omit=None):
    args = {'d': [[rstr(x) for x in _col(g['d'], j)] for j in range(3)], 's': [rstr(x) for x in g['s']],
            'p': [rstr(x) for x in g['p']], 'n0': n0, 'ks': list(included)}
    if flags is not None:
        # the model chooses the stored planes itself (keptPlanes) from the emptiness of the planes and the option
        args.update(flags=[bool(f) for f in flags], omit=bool(omit))
    return ('storeStack', args)


def model_read_req(positions, iop, ps, sbs, rows, cols, req=None, allow_missing=True, kind='seg', chan=None):
    args = {'kind': kind, 'chan': chan, 'allow_missing': allow_missing, 'pos': [[rstr(x) for x in p] for p in positions], 'iop': [rstr(x) for x in iop], 'ps': [rstr(x) for x in ps],
            'hint': None if sbs is None else rstr(sbs), 'rows': rows, 'cols': cols}
    req = req or {'as_indices': False}
    for nm in ('slice_start', 'slice_end', 'row_start', 'row_end', 'column_start', 'column_end'):
        args[nm] = req.get(nm)
    args['as_indices'] = bool(req.get('as_indices', False))
    return ('getVolumeStack', args)


def _chan(frames):
    """ReferencedSegmentNumber per stored frame (None for a label map: one channel)."""
    sn = [f[1] for f in frames]
    return None if any(x is None for x in sn) else sn


def impl_volume_obs(st, v):
    """Observable of a get_volume call for comparison with the model: affine (exact rationals) + spatial shape."""
    if st != 'ok':
        return ('err', 'refused')
    return ('ok', {'affine': [[rstr(fr(v.affine[i, j])) for j in range(4)] for i in range(3)],
                   'shape': [int(x) for x in v.spatial_shape]})


def assemble_check(seg, frames, impl_array, seg_type):
    """L0 check of the model's frame placement: rebuild the combined label array from the stored frames (as decoded by
    the library) put where the MODEL says, and compare with what get_volume returned."""
    def chk(ans):
        if 'ok' not in ans:
            return None
        m = ans['ok']
        n, rn, cn = m['shape']
        r0, c0 = m['first']
        st, px = _fetch(lambda: np.asarray(seg.pixel_array))
        if st != 'ok':
            return None
        px = px.reshape((-1, int(seg.Rows), int(seg.Columns)))
        out = np.zeros((n, rn, cn), np.int64)
        for fi, slot in m['frames']:
            pl = px[fi][r0:r0 + rn, c0:c0 + cn].astype(np.int64)
            if seg_type == 'LABELMAP':
                out[slot] = pl
            else:
                out[slot][pl > 0] = frames[fi][1]
        got = np.asarray(impl_array)
        if seg_type == 'FRACTIONAL':
            got = np.rint(got.astype(np.float64))
        got = got.astype(np.int64)
        if got.shape != out.shape or not np.array_equal(got, out):
            return {'model_placement': m['frames'], 'model_shape': m['shape'], 'impl_shape': list(got.shape)}
        return None
    return chk


def add_pending(ctx, reqs, pending, req, case, impl, extra=None):
    if extra is not None:
        ctx.__dict__.setdefault('_c03_extra', {})[(id(pending), len(pending))] = extra
    reqs.append(req)
    pending.append((case, impl))


def _guard(ctx, descr, fn, *a):
    """A case whose check cannot even be carried out (the library raised where the oracle reads plain attributes) is an
    oracle failure of that case, not a harness crash."""
    try:
        fn(*a)
    except Exception as e:  # noqa: BLE001
        import traceback
        ctx.fail(descr, 'check could not be carried out: ' + type(e).__name__ + ': ' + str(e)[:200] + ' @ '
                 + traceback.format_exc().strip().split('\n')[-3].strip()[:160], site='case-crash')


def run_vol(ctx, reqs, pending):
    n_cases = ctx.n(230, 2400)
    for idx in range(n_cases):
        descr, g, arr, mk = build_vol_case(ctx, idx)
        _guard(ctx, descr, check_vol_case, ctx, descr, g, arr, mk, reqs, pending)


def check_vol_case(ctx, descr, g, arr, mk, reqs, pending):
    r = ctx.rng(descr['stream'] + 'req', descr['idx'])
    shape = tuple(descr['shape'])
    nseg, layout, seg_type, exact = descr['nseg'], descr['layout'], descr['type'], descr['exact']
    st, seg = _fetch(mk)
    hkey = dict(stream=descr['stream'], type=seg_type, omit=descr['omit'], empties=descr['empties'], handed=descr['h'],
                with_sbs=descr.get('with_sbs'), parallel_to_source=descr.get('parallel_to_source'),
                continues_source_series=descr.get('continues_source_series'),
                exact=exact, layout=layout, n0=shape[0], memory=descr.get('memory'), type_spelling=descr.get('type_spelling'),
                transfer_syntax=descr.get('transfer_syntax'), workers=str(descr.get('workers')),
                square=shape[1] == shape[2], thin_slices=F(descr['spacing'][0]) < F(1, 4), caller_mutates=descr.get('caller_mutates'))
    if st != 'ok':
        ctx.case(outcome='construct-refused', **hkey)
        ctx.fail(descr, f'admissible volume refused by the constructor: {seg}', site='Segmentation.__init__')
        return
    a = frac_affine(affine_of(g))
    rowcos, colcos = _col(g['d'], 2), _col(g['d'], 1)
    ps = (g['s'][1], g['s'][2])
    lab = combined(arr, layout)
    cha = channels_of(arr, layout, nseg)
    planes_lab = [(apply_aff(a, (k, 0, 0)), lab[k]) for k in range(shape[0])]
    planes_cha = [(apply_aff(a, (k, 0, 0)), cha[k]) for k in range(shape[0])]
    overlap = layout == 'chan' and (cha.sum(axis=-1) > 1).any()
    nonempty = [k for k in range(shape[0]) if arr[k].any()]
    # ---- L1: what was stored
    frames = stored_frames(seg)
    iop, psx, sbs = shared_geom(seg)
    stored_pos = {tuple(p) for p, _ in frames}
    included = nonempty if (descr['omit'] and nonempty) else list(range(shape[0]))
    want_pos = {tuple(apply_aff(a, (k, 0, 0))) for k in included}
    tol = F(0) if exact else F(1, 10 ** 6)
    if exact:
        if stored_pos != want_pos:
            ctx.fail(descr, {'what': 'stored ImagePositionPatient set differs from the positions of the (non-empty) input planes',
                             'stored': sorted([[float(x) for x in p] for p in stored_pos]),
                             'want': sorted([[float(x) for x in p] for p in want_pos])}, site='stored-positions')
        explicit = descr.get('placement') == 'explicit'
        want_sbs = g['s'][0] if (not explicit or descr.get('with_sbs') or shape[0] > 1) else None   # one plane: nothing to infer
        if explicit and descr.get('with_sbs') and descr.get('sbs_sign', 1) < 0:
            want_sbs = -g['s'][0]                 # a negative value given by the user is kept as given (read takes its magnitude)
        if iop != rowcos + colcos or psx != list(ps) or sbs != want_sbs:
            ctx.fail(descr, {'what': 'stored orientation / pixel measures differ from the volume',
                             'iop': [float(x) for x in iop], 'ps': [float(x) for x in psx], 'sbs': None if sbs is None else float(sbs)},
                     site='stored-measures')
        if explicit:
            # placement handed over as plane_positions / plane_orientation / pixel_measures: the constructor infers the slice
            # spacing from ALL plane positions with the segmentation's own orientation unless the measures carry one
            reqs.append(('storeAligned', {'iop': [rstr(x) for x in rowcos + colcos], 'ps': [rstr(x) for x in ps],
                                          'src_hint': rstr(g['s'][0] * descr.get('sbs_sign', 1)) if descr.get('with_sbs') else None,
                                          'all_pos': [[rstr(x) for x in apply_aff(a, (k, 0, 0))] for k in range(shape[0])],
                                          'kept': list(included)}))
        else:
            reqs.append(model_store_req(g, shape[0], included, flags=[bool(arr[k].any()) for k in range(shape[0])], omit=descr['omit']))
        pending.append((dict(descr, what='stored positions/orientation/measures', layer='L1'),
                        ('ok', {'pos': [[rstr(x) for x in p] for p in sorted(stored_pos)], 'iop': [rstr(x) for x in iop],
                                'ps': [rstr(x) for x in psx], 'sbs': rstr(sbs) if sbs is not None else None})))
    # ---- L1: the frames of the constructor's loop (segment, position, DimensionIndexValues, pixels of the right plane)
    frames_full = frames_l1(ctx, descr, seg, [apply_aff(a, (k, 0, 0)) for k in range(shape[0])], iop, lab, cha, arr, nseg, seg_type,
                            exact, rowcos, colcos, reqs, pending, 'Segmentation.__init__')
    # ---- L0: geometry + volumes
    stg, geom = _fetch(seg.get_volume_geometry)
    if stg != 'ok' or geom is None:
        ctx.fail(descr, f'get_volume_geometry failed: {geom}', site='get_volume_geometry')
        geom = None
    full = None
    for label, kw, cmp_ in (('combined', dict(combine_segments=True), 'lab'), ('channels', dict(), 'cha')):
        if label == 'combined' and overlap:
            continue
        stv, v = _fetch(seg.get_volume, **kw)
        ctx.case(sample=descr if ctx.evaluations % 211 == 0 else None,
                 nontrivial_key=(descr['stream'], descr['dir'], tuple(shape), seg_type, descr['omit'], descr['empties'], layout, label, descr.get('with_sbs'))
                 if (stv == 'ok' and nonempty) else None, read=label, outcome='ok' if stv == 'ok' else 'refused', **hkey)
        if stv != 'ok':
            ctx.fail(dict(descr, read=label), f'get_volume refused: {v}', site='get_volume')
            continue
        out = np.asarray(v.array)
        if seg_type == 'FRACTIONAL':
            out = np.rint(out.astype(np.float64)).astype(np.int64)     # 0.0 / 1.0 for binary input
        planes = planes_lab if cmp_ == 'lab' else planes_cha
        bad = positional_oracle(out, v.affine, planes, rowcos, colcos, ps, exact, label)
        for b in bad[:3]:
            ctx.fail(dict(descr, read=label), b, site='get_volume/position')
        if geom is not None and (tuple(v.spatial_shape) != tuple(geom.spatial_shape) or not np.array_equal(v.affine, geom.affine)):
            ctx.fail(dict(descr, read=label), {'what': 'volume returned does not have the geometry the image reports',
                                               'volume_affine': v.affine.tolist(), 'geometry_affine': geom.affine.tolist(),
                                               'shapes': [list(v.spatial_shape), list(geom.spatial_shape)]},
                     site='get_volume-vs-geometry')
        # explicit handedness clause: right-handed input with no trimmed end planes reads back identically
        known_spacing = not (descr.get('placement') == 'explicit' and shape[0] == 1 and not descr.get('with_sbs'))
        if exact and known_spacing and g['h'] == 1 and len(included) and included[0] == 0 and included[-1] == shape[0] - 1:
            if not np.array_equal(v.affine, affine_of(g)) or not np.array_equal(out, lab if cmp_ == 'lab' else cha):
                ctx.fail(dict(descr, read=label), 'right-handed input does not read back as the same array and affine',
                         site='get_volume/identity')
        if exact and known_spacing and g['h'] == -1 and len(included) and included[0] == 0 and included[-1] == shape[0] - 1:
            mirror = affine_of(g)
            mirror[:3, 3] = mirror[:3, 3] + (shape[0] - 1) * mirror[:3, 0]
            mirror[:3, 0] = -mirror[:3, 0]
            src_arr = (lab if cmp_ == 'lab' else cha)[::-1]
            if not np.array_equal(v.affine, mirror) or not np.array_equal(out, src_arr):
                ctx.fail(dict(descr, read=label), 'left-handed input does not read back as its mirror image along axis 0',
                         site='get_volume/mirror')
        if label == 'combined' or full is None:
            full = v
            full_kw = kw
        # model: read side on the stored positions (L0)
        if exact and label == ('combined' if not overlap else 'channels'):
            add_pending(ctx, reqs, pending, model_read_req([p for p, _ in frames], iop, psx, sbs, shape[1], shape[2], chan=_chan(frames)),
                        dict(descr, read=label, what='get_volume affine/shape/placement', layer='L0'), impl_volume_obs(stv, v),
                        assemble_check(seg, frames, v.array, seg_type) if label == 'combined' else None)
    # ---- several reads on the one object, and the object after a bytes round trip
    rv = ctx.rng(descr['stream'] + 'var2', descr['idx'])
    late = None
    if full is not None:
        rl = ctx.rng(descr['stream'] + 'late', descr['idx'])
        late = lambda: late_refused_read(ctx, descr, seg.get_volume, seg_type, nseg, overlap, full.spatial_shape[0], rl, full_kw)  # noqa: E731
        repeated_reads(ctx, descr, seg, seg.get_volume, full_kw, full, rv, 'get_volume', late=late)
    roundtrip_seg_checks(ctx, descr, seg, rv, planes_lab, planes_cha, overlap, rowcos, colcos, ps, exact, seg_type, geom, 'get_volume',
                         frames_full=frames_full)
    # ---- sub-volumes of this object
    if full is not None:
        for j in range(3):
            if rl.random() < 0.6:
                late()                                  # a late-refused read of another slice range right before this one
            req0 = rand_request(r, full.spatial_shape)
            req, spelled = spell_request(rv, req0)
            ctx.hist('request_spelling', spelled)
            stv, sub, exp = check_subvolume(ctx, descr, seg.get_volume, full, req, exact, kw=full_kw)
            req = req0
            valid = all(e is not None for e in exp)
            ctx.case(nontrivial_key=('volsub', tuple(full.spatial_shape), tuple(sorted(req.items()))) if (valid and stv == 'ok') else None,
                     stream=descr['stream'] + '/sub', request_valid=valid, outcome='ok' if stv == 'ok' else 'refused',
                     as_indices=req['as_indices'], request_axes=''.join(ax[0] for ax in ('slice', 'row', 'column')
                                                                        if ax + '_start' in req or ax + '_end' in req))
            if exact:
                add_pending(ctx, reqs, pending, model_read_req([p for p, _ in frames], iop, psx, sbs, shape[1], shape[2], req, chan=_chan(frames)),
                            dict(descr, request=req, what='get_volume(sub) affine/shape/placement', layer='L0'),
                            impl_volume_obs(stv, sub),
                            assemble_check(seg, frames, sub.array, seg_type) if (stv == 'ok' and 'combine_segments' in full_kw) else None)


# ---------------------------------------------------------------------------------------------- stream: place (explicit placement)
def build_place_case(ctx, idx):
    """Planes placed explicitly: plane_positions + plane_orientation + pixel_measures (with or WITHOUT SpacingBetweenSlices),
    orientation in general not parallel to the source images, omission patterns that leave only non-adjacent planes."""
    import highdicom as hd
    from gen.sources import ct_series, seg_description
    r = ctx.rng('place', idx)
    nr = ctx.np_rng('placepix', idx)
    g = rand_geom(r)
    shape = (r.choice([1, 2, 3, 4, 5, 5, 6, 7, 9]), r.randint(1, 5), r.randint(1, 5))
    n0 = shape[0]
    seg_type = r.choice(['BINARY', 'LABELMAP', 'LABELMAP', 'FRACTIONAL'])
    nseg = r.choice([1, 2])
    layout = 'label'
    omit = r.random() < 0.8
    mode = r.choice(['none', 'alternate', 'alternate', 'every-third', 'ends-only', 'random', 'irregular-sparse'])
    if mode == 'none':
        keep = set(range(n0))
    elif mode == 'alternate':
        off = r.randrange(2)
        keep = {k for k in range(n0) if k % 2 == off} or {0}
    elif mode == 'every-third':
        off = r.randrange(3)
        keep = {k for k in range(n0) if k % 3 == off} or {0}
    elif mode == 'ends-only':
        keep = {0, n0 - 1}
    elif mode == 'random':
        keep = {k for k in range(n0) if r.random() < 0.5} or {r.randrange(n0)}
    else:
        keep = {0, 2, 5} & set(range(n0)) or {0}           # gaps 2 and 3: no common grid finer than the true spacing
    empties = set(range(n0)) - keep
    arr = rand_mask(r, nr, shape, nseg, layout, empties)
    with_sbs = r.random() < 0.4
    sbs_sign = -1 if (with_sbs and ctx.rng('placesign', idx).random() < 0.3) else 1
    # source series: axial, same number of planes and frame size (what the constructor may compare with)
    src = ct_series(n0, shape[1], shape[2], slice_spacing=2.5)
    rp = ctx.rng('placeprefix', idx)
    prefix = n0 >= 2 and rp.random() < 0.1
    if prefix:
        # the planes continue the source series: the first planes lie AT the source positions with the source's orientation and
        # spacing, but there are more planes than source images (nothing is preserved plane by plane beyond the series)
        g = {'d': [[F(0), F(0), F(1)], [F(0), F(1), F(0)], [F(1), F(0), F(0)]], 's': [F(5, 2), F(1), F(1)], 'p': [F(0), F(0), F(0)],
             'exact': True, 'label': 'series', 'h': -1}
        src = ct_series(rp.randint(1, n0 - 1), shape[1], shape[2], slice_spacing=2.5)
    a = affine_of(g)
    bufs = draw_buffers(ctx, 'place', idx)
    geom = hd.VolumeGeometry(bufs.give(a, dtype=np.float64), shape, 'PATIENT', frame_of_reference_uid=src[0].FrameOfReferenceUID)
    n = [g['d'][i][0] for i in range(3)]
    parallel = n[0] == 0 and n[1] == 0
    rv = ctx.rng('placevar', idx)
    mem = rv.choice(LAYOUTS)
    passed = relayout(arr, mem)
    typ, typ_spell = spell_type(rv, seg_type)
    descr = {'stream': 'place', 'idx': idx, 'seed': ctx.seed, 'dir': g['label'], 'h': g['h'], 'exact': g['exact'],
             'shape': list(shape), 'spacing': [rstr(x) for x in g['s']], 'position': [rstr(x) for x in g['p']],
             'type': seg_type, 'nseg': nseg, 'layout': layout, 'omit': omit, 'empties': mode, 'empty_planes': sorted(empties),
             'memory': mem, 'type_spelling': typ_spell, 'placement': 'explicit', 'with_sbs': with_sbs, 'sbs_sign': sbs_sign,
             'parallel_to_source': parallel, 'caller_mutates': bufs.active, 'continues_source_series': prefix}

    def mk():
        bufs.scribble()                                 # the affine buffer is re-used after the geometry was built
        ps_buf = bufs.give(list(geom.pixel_spacing), dtype=np.float64)
        pm = hd.PixelMeasuresSequence(pixel_spacing=ps_buf, slice_thickness=geom.spacing_between_slices,
                                      spacing_between_slices=sbs_sign * geom.spacing_between_slices if with_sbs else None)
        if bufs.active:
            # positions and orientation handed over as the caller's own arrays, overwritten once the items exist
            pos_bufs = [bufs.give(list(p_[0].ImagePositionPatient), dtype=np.float64) for p_ in geom.get_plane_positions()]
            pps = [hd.PlanePositionSequence('PATIENT', image_position=b_) for b_ in pos_bufs]
            ori_buf = bufs.give(list(geom.get_plane_orientation()[0].ImageOrientationPatient), dtype=np.float64)
            po = hd.PlaneOrientationSequence('PATIENT', ori_buf)
        else:
            pps, po = geom.get_plane_positions(), geom.get_plane_orientation()
        bufs.scribble()
        px_buf = passed
        if bufs.active and passed.flags.writeable and mem == 'C':
            px_buf = bufs.give(passed, late=True)
        seg = hd.seg.Segmentation(src, px_buf, typ, [seg_description(i + 1) for i in range(nseg)], omit_empty_frames=omit,
                                  plane_positions=pps, plane_orientation=po, pixel_measures=pm, **_seg_kw())
        if not np.array_equal(px_buf, arr):
            raise AssertionError('the constructor modified the pixel array it was given')
        bufs.scribble(late=True)
        return seg
    return descr, g, arr, mk


def run_place(ctx, reqs, pending):
    for idx in range(ctx.n(110, 900)):
        descr, g, arr, mk = build_place_case(ctx, idx)
        _guard(ctx, descr, check_vol_case, ctx, descr, g, arr, mk, reqs, pending)


# ---------------------------------------------------------------------------------------------- stream: src (aligned to sources)
def build_src_case(ctx, idx):
    import highdicom as hd
    from gen.sources import ct_series, enhanced_multiframe, seg_description
    r = ctx.rng('src', idx)
    nr = ctx.np_rng('srcpix', idx)
    d, exact, label = rand_direction(r)
    rowcos, colcos = _col(d, 2), _col(d, 1)
    n = r.choice([1, 2, 3, 3, 4, 5, 6, 8])
    rows, cols = r.randint(1, 5), r.randint(1, 5)
    ps = (r.choice(SPACINGS), r.choice(SPACINGS))
    ss = slice_spacing(r) * r.choice([1, 1, -1])
    origin = [F(r.randint(-800, 800), 8) for _ in range(3)]
    order = list(range(n))
    omode = r.choice(['asc', 'desc', 'shuffled', 'shuffled'])
    if omode == 'desc':
        order.reverse()
    elif omode == 'shuffled':
        r.shuffle(order)
    kind = r.choice(['series', 'series', 'multiframe'])
    ori = [float(x) for x in rowcos + colcos]
    kw = dict(orientation=ori, origin=[float(x) for x in origin], pixel_spacing=[float(x) for x in ps],
              slice_spacing=float(ss), order=order)
    mult = list(order)                       # multiple of the slice spacing at which source i lies
    rg = ctx.rng('srcgap', idx)
    gaps = kind == 'series' and n >= 2 and rg.random() < 0.25
    if gaps:
        # an irregular source stack: a longer regular series from which planes were lost
        extra = rg.randint(1, 3)
        full_order = list(range(n + extra))
        if omode == 'desc':
            full_order.reverse()
        elif omode == 'shuffled':
            rg.shuffle(full_order)
        drop = set(rg.sample(range(n + extra), extra))
        kw['order'] = full_order
        src = [ds for i, ds in enumerate(ct_series(n + extra, rows, cols, **kw)) if i not in drop]
        mult = [m for i, m in enumerate(full_order) if i not in drop]
        positions = [[fr(x) for x in ds.ImagePositionPatient] for ds in src]
    elif kind == 'series':
        src = ct_series(n, rows, cols, **kw)
        positions = [[fr(x) for x in ds.ImagePositionPatient] for ds in src]
    else:
        src = [enhanced_multiframe(n, rows, cols, **kw)]
        positions = [[fr(x) for x in f.PlanePositionSequence[0].ImagePositionPatient]
                     for f in src[0].PerFrameFunctionalGroupsSequence]
    seg_type = r.choice(['BINARY', 'LABELMAP', 'LABELMAP', 'FRACTIONAL'])
    nseg = r.choice([1, 2, 3])
    layout = 'label' if seg_type == 'LABELMAP' else r.choice(['label', 'chan'])
    omit = r.random() < 0.65
    mode, empties = rand_empties(r, n)
    arr = rand_mask(r, nr, (n, rows, cols), nseg, layout, empties)
    descr = {'stream': 'src', 'idx': idx, 'seed': ctx.seed, 'dir': label, 'exact': exact, 'kind': kind, 'n': n,
             'rows': rows, 'cols': cols, 'order': order, 'order_mode': omode, 'type': seg_type, 'nseg': nseg, 'layout': layout,
             'omit': omit, 'empties': mode, 'empty_planes': sorted(empties), 'pixel_spacing': [rstr(x) for x in ps],
             'slice_spacing': rstr(ss), 'origin': [rstr(x) for x in origin], 'gaps': gaps, 'multiples': mult}
    rv = ctx.rng('srcvar', idx)
    mem = rv.choice(LAYOUTS)
    passed = relayout(arr, mem)
    typ, typ_spell = spell_type(rv, seg_type)
    descr.update(memory=mem, type_spelling=typ_spell)

    ts, workers = encoding_variant(ctx, 'src', idx, seg_type, rows * cols)
    bufs = draw_buffers(ctx, 'src', idx)
    descr.update(transfer_syntax=ts, workers=workers, caller_mutates=bufs.active)

    def mk():
        import warnings
        px_buf = bufs.give(passed, late=True) if (bufs.active and mem == 'C') else passed
        with warnings.catch_warnings():
            warnings.simplefilter('ignore')             # workers with a native syntax: documented warning, no effect
            seg = hd.seg.Segmentation(src, px_buf, typ, [seg_description(i + 1) for i in range(nseg)], omit_empty_frames=omit,
                                      **encoding_kw(ts, workers), **_seg_kw())
        if not np.array_equal(px_buf, arr):
            raise AssertionError('the constructor modified the pixel array it was given')
        bufs.scribble(late=True)                        # the pixel buffer is re-used once the segmentation exists
        return seg
    return descr, (rowcos, colcos, ps, positions), arr, mk, src


def run_src(ctx, reqs, pending):
    for idx in range(ctx.n(150, 1500)):
        descr, geo, arr, mk, src = build_src_case(ctx, idx)
        _guard(ctx, descr, check_src_case, ctx, descr, geo, arr, mk, src, reqs, pending)


def check_src_case(ctx, descr, geo, arr, mk, src, reqs, pending):
    rowcos, colcos, ps, positions = geo
    exact, nseg, layout, seg_type = descr['exact'], descr['nseg'], descr['layout'], descr['type']
    r = ctx.rng('srcreq', descr['idx'])
    hkey = dict(stream='src', type=seg_type, omit=descr['omit'], empties=descr['empties'], exact=exact, layout=layout,
                n0=descr['n'], order=descr['order_mode'], source=descr['kind'], gaps=descr.get('gaps', False),
                memory=descr.get('memory'), type_spelling=descr.get('type_spelling'), square=descr['rows'] == descr['cols'],
                thin_slices=abs(F(descr['slice_spacing'])) < F(1, 4), transfer_syntax=descr.get('transfer_syntax'),
                workers=str(descr.get('workers')), caller_mutates=descr.get('caller_mutates'))
    st, seg = _fetch(mk)
    if st != 'ok':
        ctx.case(outcome='construct-refused', **hkey)
        ctx.fail(descr, f'aligned array refused by the constructor: {seg}', site='Segmentation.__init__')
        return
    lab = combined(arr, layout)
    cha = channels_of(arr, layout, nseg)
    overlap = layout == 'chan' and (cha.sum(axis=-1) > 1).any()
    nonempty = [k for k in range(descr['n']) if arr[k].any()]
    frames = stored_frames(seg)
    iop, psx, sbs = shared_geom(seg)
    included = nonempty if (descr['omit'] and nonempty) else list(range(descr['n']))
    if exact:
        stored_pos = {tuple(p) for p, _ in frames}
        want_pos = {tuple(positions[k]) for k in included}
        if stored_pos != want_pos:
            ctx.fail(descr, {'what': 'stored ImagePositionPatient set differs from the source positions of the (non-empty) planes',
                             'stored': sorted([[float(x) for x in p] for p in stored_pos]),
                             'want': sorted([[float(x) for x in p] for p in want_pos])}, site='stored-positions')
        if iop != rowcos + colcos or psx != list(ps):
            ctx.fail(descr, 'stored orientation / pixel spacing differ from the source images', site='stored-measures')
        ms = sorted(descr.get('multiples', range(descr['n'])))
        steps = {b - a for a, b in zip(ms, ms[1:])}
        want_sbs = (abs(F(descr['slice_spacing'])) * steps.pop() if len(steps) == 1 else None) if descr['n'] > 1 else None
        if descr['kind'] == 'multiframe':
            want_sbs = abs(F(descr['slice_spacing']))
        if sbs != want_sbs:
            ctx.fail(descr, {'what': 'SpacingBetweenSlices recorded is not the spacing of the source stack (none for an irregular one)',
                             'stored': None if sbs is None else float(sbs), 'want': None if want_sbs is None else float(want_sbs)},
                     site='stored-measures')
        # L1 against the model: recorded positions / orientation / spacing incl. the inferred slice spacing
        src_hint = abs(F(descr['slice_spacing'])) if descr['kind'] == 'multiframe' else None
        add_pending(ctx, reqs, pending,
                    ('storeAligned', {'iop': [rstr(x) for x in rowcos + colcos], 'ps': [rstr(x) for x in ps],
                                      'src_hint': None if src_hint is None else rstr(src_hint),
                                      'all_pos': [[rstr(x) for x in p] for p in positions], 'kept': list(included)}),
                    dict(descr, what='stored positions/orientation/measures (aligned)', layer='L1'),
                    ('ok', {'pos': [[rstr(x) for x in p] for p in sorted(stored_pos)], 'iop': [rstr(x) for x in iop],
                            'ps': [rstr(x) for x in psx], 'sbs': rstr(sbs) if sbs is not None else None}))
    frames_full = frames_l1(ctx, descr, seg, positions, iop, lab, cha, arr, nseg, seg_type, exact, rowcos, colcos, reqs, pending,
                            'Segmentation.__init__')
    # stored planes that do not sit at whole multiples of their smallest gap are no volume: refusal is right then
    may_refuse = False
    if sbs is None and descr.get('gaps'):
        em = sorted({descr['multiples'][k] for k in included})
        if len(em) > 1:
            gmin = min(b - a for a, b in zip(em, em[1:]))
            may_refuse = any((e - em[0]) % gmin for e in em)
    stg, geom = _fetch(seg.get_volume_geometry)
    if stg != 'ok' or geom is None:
        if not may_refuse:
            ctx.fail(descr, f'get_volume_geometry failed: {geom}', site='get_volume_geometry')
        geom = None
    full = None
    for label, kw, cmp_ in (('combined', dict(combine_segments=True), 'lab'), ('channels', dict(), 'cha')):
        if label == 'combined' and overlap:
            continue
        stv, v = _fetch(seg.get_volume, **kw)
        ctx.case(sample=descr if ctx.evaluations % 211 == 0 else None,
                 nontrivial_key=('src', descr['dir'], descr['n'], descr['rows'], descr['cols'], seg_type, descr['omit'],
                                 descr['empties'], descr['order_mode'], descr['kind'], label, descr.get('gaps')) if (stv == 'ok' and nonempty) else None,
                 read=label, outcome='ok' if stv == 'ok' else ('refused-irregular' if may_refuse else 'refused'), **hkey)
        if stv != 'ok':
            if not may_refuse:
                ctx.fail(dict(descr, read=label), f'get_volume refused: {v}', site='get_volume')
            elif exact and full is None and label == 'combined':
                add_pending(ctx, reqs, pending, model_read_req([p for p, _ in frames], iop, psx, sbs, descr['rows'], descr['cols'], chan=_chan(frames)),
                            dict(descr, read=label, what='get_volume affine/shape/placement', layer='L0'), impl_volume_obs(stv, v))
            continue
        out = np.asarray(v.array)
        if seg_type == 'FRACTIONAL':
            out = np.rint(out.astype(np.float64)).astype(np.int64)
        src_arr = lab if cmp_ == 'lab' else cha
        planes = [(positions[k], src_arr[k]) for k in range(descr['n'])]
        for b in positional_oracle(out, v.affine, planes, rowcos, colcos, ps, exact, label)[:3]:
            ctx.fail(dict(descr, read=label), b, site='get_volume/position')
        if geom is not None and (tuple(v.spatial_shape) != tuple(geom.spatial_shape) or not np.array_equal(v.affine, geom.affine)):
            ctx.fail(dict(descr, read=label), 'volume returned does not have the geometry the image reports',
                     site='get_volume-vs-geometry')
        if full is None:
            full, full_kw = v, kw
            if exact:
                add_pending(ctx, reqs, pending, model_read_req([p for p, _ in frames], iop, psx, sbs, descr['rows'], descr['cols'], chan=_chan(frames)),
                            dict(descr, read=label, what='get_volume affine/shape/placement', layer='L0'), impl_volume_obs(stv, v),
                            assemble_check(seg, frames, v.array, seg_type) if label == 'combined' else None)
    rv = ctx.rng('srcvar2', descr['idx'])
    late = None
    if full is not None:
        rl = ctx.rng('srclate', descr['idx'])
        late = lambda: late_refused_read(ctx, descr, seg.get_volume, seg_type, nseg, overlap, full.spatial_shape[0], rl, full_kw)  # noqa: E731
        repeated_reads(ctx, descr, seg, seg.get_volume, full_kw, full, rv, 'get_volume', late=late)
    if not may_refuse:
        roundtrip_seg_checks(ctx, descr, seg, rv, [(positions[k], lab[k]) for k in range(descr['n'])],
                             [(positions[k], cha[k]) for k in range(descr['n'])], overlap, rowcos, colcos, ps, exact, seg_type,
                             geom, 'get_volume', frames_full=frames_full)
    if full is not None:
        for j in range(2):
            if rl.random() < 0.6:
                late()
            req0 = rand_request(r, full.spatial_shape)
            req, spelled = spell_request(rv, req0)
            ctx.hist('request_spelling', spelled)
            stv, sub, exp = check_subvolume(ctx, descr, seg.get_volume, full, req, exact, kw=full_kw)
            req = req0
            valid = all(e is not None for e in exp)
            ctx.case(nontrivial_key=('srcsub', tuple(full.spatial_shape), tuple(sorted(req.items()))) if (valid and stv == 'ok') else None,
                     stream='src/sub', request_valid=valid, outcome='ok' if stv == 'ok' else 'refused', as_indices=req['as_indices'])
            if exact:
                add_pending(ctx, reqs, pending, model_read_req([p for p, _ in frames], iop, psx, sbs, descr['rows'], descr['cols'], req, chan=_chan(frames)),
                            dict(descr, request=req, what='get_volume(sub) affine/shape/placement', layer='L0'),
                            impl_volume_obs(stv, sub),
                            assemble_check(seg, frames, sub.array, seg_type) if (stv == 'ok' and 'combine_segments' in full_kw) else None)


# ---------------------------------------------------------------------------------------------- stream: img (Image.get_volume)
def build_img_case(ctx, idx):
    import highdicom as hd
    from gen.sources import ct_series, enhanced_multiframe, slide_image
    r = ctx.rng('img', idx)
    kind = r.choice(['multiframe', 'multiframe', 'single', 'slide', 'slide'])
    d, exact, label = rand_direction(r, oblique_p=0.1)
    rowcos, colcos = _col(d, 2), _col(d, 1)
    ps = (r.choice(SPACINGS), r.choice(SPACINGS))
    origin = [F(r.randint(-800, 800), 8) for _ in range(3)]
    ori = [float(x) for x in rowcos + colcos]
    if kind == 'slide':
        origin[2] = F(0)          # the slide origin sequence of the generator carries X and Y only
    descr = {'stream': 'img', 'idx': idx, 'seed': ctx.seed, 'kind': kind, 'dir': label, 'exact': exact,
             'pixel_spacing': [rstr(x) for x in ps], 'origin': [rstr(x) for x in origin]}
    nprng = ctx.np_rng('imgpix', idx)
    if kind == 'slide':
        tr, tc = r.randint(1, 4), r.randint(1, 4)
        total_r, total_c = r.randint(1, 9), r.randint(1, 9)
        full_t = r.random() < 0.5
        ds, tpm = slide_image(total_r, total_c, tr, tc, tiled_full=full_t, origin=[float(x) for x in origin],
                              pixel_spacing=[float(x) for x in ps], orientation=ori, rng=nprng)
        rs = ctx.rng('imgsign', idx)
        sign_mode = 'pos'
        if rs.random() < 0.25:
            sign_mode = 'neg'
            ds.SharedFunctionalGroupsSequence[0].PixelMeasuresSequence[0].SpacingBetweenSlices = -float(r.choice(SPACINGS))
        descr.update(total=[total_r, total_c], tile=[tr, tc], tiled_full=full_t, spacing_sign=sign_mode,
                     hint=str(F(float(ds.SharedFunctionalGroupsSequence[0].PixelMeasuresSequence[0].SpacingBetweenSlices)))
                     if sign_mode == 'neg' else None)
        planes = [(origin, tpm)]
        pixels = tpm[None]
        shape = (1, total_r, total_c)
    else:
        n = 1 if kind == 'single' else r.choice([1, 2, 3, 4, 5, 7])
        rows, cols = r.randint(1, 5), r.randint(1, 5)
        ss = slice_spacing(r) * r.choice([1, -1])
        order = list(range(n))
        r.shuffle(order)
        if kind == 'single':
            ds = ct_series(1, rows, cols, orientation=ori, origin=[float(x) for x in origin],
                           pixel_spacing=[float(x) for x in ps], rng=nprng)[0]
            pos = [[fr(x) for x in ds.ImagePositionPatient]]
        else:
            ds = enhanced_multiframe(n, rows, cols, orientation=ori, origin=[float(x) for x in origin],
                                     pixel_spacing=[float(x) for x in ps], slice_spacing=float(ss), order=order, rng=nprng)
            pos = [[fr(x) for x in f.PlanePositionSequence[0].ImagePositionPatient] for f in ds.PerFrameFunctionalGroupsSequence]
        pixels = np.frombuffer(ds.PixelData, dtype=np.uint16)[:n * rows * cols].reshape(n, rows, cols)
        planes = [(pos[i], pixels[i]) for i in range(n)]
        # variants of the recorded slice spacing: a single frame that carries one, a multi-frame image that carries none
        rv = ctx.rng('imgvar', idx)
        hint = abs(ss) if kind == 'multiframe' else None
        if kind == 'single' and rv.random() < 0.5:
            hint = r.choice(SPACINGS)
            ds.SpacingBetweenSlices = float(hint)
        elif kind == 'multiframe' and rv.random() < 0.3:
            del ds.SharedFunctionalGroupsSequence[0].PixelMeasuresSequence[0].SpacingBetweenSlices
            hint = None
        # sign / zero of the recorded spacing (negative values occur in some IODs; only the magnitude may matter; 0 is
        # no spacing: both get_volume and get_volume_geometry must refuse it)
        rs = ctx.rng('imgsign', idx)
        sign_mode = 'pos'
        if hint is not None:
            x = rs.random()
            if x < 0.25:
                sign_mode, hint = 'neg', -hint
            elif x < 0.33:
                sign_mode, hint = 'zero', F(0)
            if sign_mode != 'pos':
                if kind == 'single':
                    ds.SpacingBetweenSlices = float(hint)
                else:
                    ds.SharedFunctionalGroupsSequence[0].PixelMeasuresSequence[0].SpacingBetweenSlices = float(hint)
        # where the functional groups sit (guide 3a, per-item parameters): orientation and pixel measures shared, or repeated
        # identically in every per-frame item, or both; or per frame with ONE frame that differs (no single geometry
        # describes such an image: no volume may be returned)
        groups, inconsistent = 'shared', None
        if kind == 'multiframe':
            import copy as _copy
            rg = ctx.rng('imggroups', idx)
            groups = rg.choice(['shared', 'per-frame', 'per-frame', 'orientation-per-frame', 'measures-per-frame', 'measures-per-frame', 'both'])
            sh = ds.SharedFunctionalGroupsSequence[0]
            if groups in ('per-frame', 'orientation-per-frame', 'both'):
                for f in ds.PerFrameFunctionalGroupsSequence:
                    f.PlaneOrientationSequence = _copy.deepcopy(sh.PlaneOrientationSequence)
                if groups != 'both':
                    del sh.PlaneOrientationSequence
            if groups in ('per-frame', 'measures-per-frame', 'both'):
                for f in ds.PerFrameFunctionalGroupsSequence:
                    f.PixelMeasuresSequence = _copy.deepcopy(sh.PixelMeasuresSequence)
                if groups != 'both':
                    del sh.PixelMeasuresSequence
            if groups in ('per-frame', 'orientation-per-frame', 'measures-per-frame') and n >= 2 and rg.random() < 0.5:
                k = rg.randrange(n)             # also the first and the last frame
                fk = ds.PerFrameFunctionalGroupsSequence[k]
                if groups != 'orientation-per-frame' and (groups == 'measures-per-frame' or rg.random() < 0.5):
                    inconsistent = 'pixel-spacing'
                    pm_ = fk.PixelMeasuresSequence[0]
                    pm_.PixelSpacing = [float(pm_.PixelSpacing[0]) * 2, float(pm_.PixelSpacing[1])]
                else:
                    inconsistent = 'orientation'
                    po_ = fk.PlaneOrientationSequence[0]
                    po_.ImageOrientationPatient = [-float(x) for x in po_.ImageOrientationPatient[:3]] + [
                        float(x) for x in po_.ImageOrientationPatient[3:]]
                descr['inconsistent_frame'] = k
        descr.update(groups=groups, inconsistent=inconsistent)
        # two frames at one position: a geometry is still reported, get_volume must refuse (frames not distinguishable)
        dup = False
        if kind == 'multiframe' and n >= 2 and rs.random() < 0.12:
            dup = True
            pf = ds.PerFrameFunctionalGroupsSequence
            pf[n - 1].PlanePositionSequence[0].ImagePositionPatient = list(pf[0].PlanePositionSequence[0].ImagePositionPatient)
            pos[n - 1] = list(pos[0])
            planes = [(pos[i], pixels[i]) for i in range(n)]
        descr.update(n=n, rows=rows, cols=cols, order=order, slice_spacing=rstr(ss), hint=None if hint is None else rstr(hint),
                     spacing_sign=sign_mode, duplicate_position=dup)
        shape = (n, rows, cols)
    mk = lambda: hd.Image.from_dataset(ds, copy=False)  # noqa: E731
    return descr, (rowcos, colcos, ps, planes), shape, mk


def run_img(ctx, reqs, pending):
    for idx in range(ctx.n(170, 1200)):
        descr, geo, shape, mk = build_img_case(ctx, idx)
        _guard(ctx, descr, check_img_case, ctx, descr, geo, shape, mk, reqs, pending)


def check_img_case(ctx, descr, geo, shape, mk, reqs, pending):
    rowcos, colcos, ps, planes = geo
    exact = descr['exact']
    r = ctx.rng('imgreq', descr['idx'])
    st, im = _fetch(mk)
    hkey = dict(stream='img', source=descr['kind'], exact=exact, n0=shape[0], spacing_sign=descr.get('spacing_sign'),
                duplicate_position=descr.get('duplicate_position', False), groups=descr.get('groups'),
                inconsistent=descr.get('inconsistent'))
    if st != 'ok':
        ctx.case(outcome='open-refused', **hkey)
        ctx.note(f'img {descr["idx"]}: generator image not accepted by Image.from_dataset: {im}')
        return
    kw = dict(apply_modality_transform=False, apply_real_world_transform=False, apply_presentation_lut=False)
    stv, v = _fetch(im.get_volume, **kw)
    ctx.case(sample=descr if ctx.evaluations % 211 == 0 else None,
             nontrivial_key=('img', descr['kind'], descr['dir'], shape, descr.get('tile'), descr.get('tiled_full'),
                             descr.get('spacing_sign')) if stv == 'ok' else None,
             outcome='ok' if stv == 'ok' else 'refused', **hkey)
    if descr.get('inconsistent'):
        # one frame with another orientation / pixel spacing: there is no geometry that places all frames
        stg0, g0 = _fetch(im.get_volume_geometry)
        if stv == 'ok' or (stg0 == 'ok' and g0 is not None):
            ctx.fail(descr, {'what': f'frame {descr.get("inconsistent_frame")} has another {descr["inconsistent"]} than the other frames, yet '
                                     + ('a volume is returned' if stv == 'ok' else 'a geometry is reported'),
                             'affine': (v.affine if stv == 'ok' else g0.affine).tolist()}, site='Image.get_volume/inconsistent-frames')
        return
    must_refuse = descr.get('spacing_sign') == 'zero' or descr.get('duplicate_position')
    if must_refuse:
        # the model must refuse too; what the image reports for itself must not contradict the refusal with a volume-less
        # geometry of another kind: for spacing 0 both calls refuse
        if stv == 'ok':
            ctx.fail(descr, 'get_volume accepted ' + ('a recorded slice spacing of 0' if descr.get('spacing_sign') == 'zero'
                                                        else 'two frames at one position'), site='Image.get_volume')
        if descr.get('spacing_sign') == 'zero':
            stg0, g0 = _fetch(im.get_volume_geometry)
            if stg0 == 'ok' and g0 is not None:
                ctx.fail(descr, {'what': 'a geometry is reported for a recorded slice spacing of 0 although get_volume refuses',
                                 'geometry_affine': g0.affine.tolist()}, site='Image.get_volume-vs-geometry')
        if exact and descr['kind'] != 'slide':
            reqs.append(model_read_req([p for p, _ in planes], rowcos + colcos, ps, None if descr.get('hint') is None else F(descr['hint']),
                                       shape[1], shape[2], allow_missing=False, kind='image'))
            pending.append((dict(descr, what='Image.get_volume affine/shape', layer='L0'), impl_volume_obs(stv, v)))
        return
    if stv != 'ok':
        ctx.fail(descr, f'Image.get_volume refused a regular image: {v}', site='Image.get_volume')
        return
    bad = positional_oracle(np.asarray(v.array).astype(np.int64), v.affine, planes, rowcos, colcos, ps, exact, 'image')
    if descr['kind'] == 'slide' and descr.get('spacing_sign') == 'neg':
        # a negative recorded spacing of a single-plane slide image only turns the (unused) stacking direction
        bad = [b for b in bad if 'right-handed' not in b]
    for b in bad[:3]:
        ctx.fail(descr, b, site='Image.get_volume/position')
    stg, geom = _fetch(im.get_volume_geometry)
    if stg != 'ok' or geom is None:
        ctx.fail(descr, f'get_volume_geometry failed although get_volume works: {geom}', site='Image.get_volume_geometry')
    elif tuple(v.spatial_shape) != tuple(geom.spatial_shape) or not np.array_equal(v.affine, geom.affine):
        ctx.fail(descr, {'what': 'volume returned does not have the geometry the image reports',
                         'volume_affine': v.affine.tolist(), 'geometry_affine': geom.affine.tolist()}, site='Image.get_volume-vs-geometry')
    tiled = descr['kind'] == 'slide'
    if exact and descr['kind'] == 'single' and stg == 'ok' and geom is not None:
        reqs.append(('volumeGeometrySingle', {'pos': [rstr(x) for x in planes[0][0]], 'iop': [rstr(x) for x in rowcos + colcos],
                                              'ps': [rstr(x) for x in ps], 'hint': descr.get('hint')}))
        pending.append((dict(descr, what='single-frame get_volume_geometry affine', layer='L0'),
                        ('ok', [[rstr(fr(geom.affine[i, j])) for j in range(4)] for i in range(3)])))
    thint = None if descr.get('hint') is None else F(descr['hint'])
    if exact:
        if tiled:
            reqs.append(model_tiled_req(planes[0][0], rowcos + colcos, ps, thint, shape[1], shape[2], None, kind='image'))
        else:
            reqs.append(model_read_req([p for p, _ in planes], rowcos + colcos, ps,
                                       None if descr.get('hint') is None else F(descr['hint']), shape[1], shape[2],
                                       allow_missing=False, kind='image'))
        pending.append((dict(descr, what='Image.get_volume affine/shape', layer='L0'), impl_volume_obs(stv, v)))
    # several reads on the one image; the image after a bytes round trip through every parsing entry point
    rv = ctx.rng('imgvar2', descr['idx'])
    repeated_reads(ctx, descr, im, im.get_volume, kw, v, rv, 'Image.get_volume')
    entry = rv.choice(['imread', 'Image.from_dataset', 'imread-lazy'])
    st2, im2 = _fetch(reread, im, entry)
    ctx.case(stream='img/reread', entry=entry, outcome='ok' if st2 == 'ok' else 'refused')
    if st2 != 'ok':
        ctx.fail(dict(descr, entry=entry), f'written image cannot be read back: {im2}', site='Image.get_volume/reread')
    else:
        st3, v2 = _fetch(im2.get_volume, **kw)
        if st3 != 'ok':
            ctx.fail(dict(descr, entry=entry), f'get_volume refused after the round trip: {v2}', site='Image.get_volume/reread')
        elif not (np.array_equal(v2.array, v.array) and (np.array_equal(v2.affine, v.affine) if exact
                                                           else np.allclose(v2.affine, v.affine, rtol=0, atol=1e-9))):
            ctx.fail(dict(descr, entry=entry), 'volume after the round trip differs from the in-memory one', site='Image.get_volume/reread')
    for j in range(3):
        req0 = rand_request(r, v.spatial_shape)
        req, spelled = spell_request(rv, req0)
        ctx.hist('request_spelling', spelled)
        sts, sub, exp = check_subvolume(ctx, descr, im.get_volume, v, req, exact, kw=kw, site='Image.get_volume', empty_rc_free=tiled)
        req = req0
        valid = all(e is not None for e in exp)
        ctx.case(nontrivial_key=('imgsub', descr['kind'], tuple(v.spatial_shape), tuple(sorted(req.items()))) if (valid and sts == 'ok') else None,
                 stream='img/sub', request_valid=valid, outcome='ok' if sts == 'ok' else 'refused', as_indices=req['as_indices'],
                 source=descr['kind'])
        if exact:
            if tiled:
                reqs.append(model_tiled_req(planes[0][0], rowcos + colcos, ps, thint, shape[1], shape[2], req, kind='image'))
            else:
                reqs.append(model_read_req([p for p, _ in planes], rowcos + colcos, ps,
                                           None if descr.get('hint') is None else F(descr['hint']),
                                           shape[1], shape[2], req, allow_missing=False, kind='image'))
            pending.append((dict(descr, request=req, what='Image.get_volume(sub) affine/shape', layer='L0'), impl_volume_obs(sts, sub)))


# ---------------------------------------------------------------------------------------------- stream: tiled segmentations
def model_tiled_req(origin, ios, ps, sbs, total_rows, total_cols, req, kind='seg'):
    args = {'kind': kind, 'origin': [rstr(x) for x in origin], 'ios': [rstr(x) for x in ios], 'ps': [rstr(x) for x in ps],
            'sbs': None if sbs is None else rstr(sbs), 'rows': total_rows, 'cols': total_cols}
    req = req or {'as_indices': False}
    for nm in ('slice_start', 'slice_end', 'row_start', 'row_end', 'column_start', 'column_end'):
        args[nm] = req.get(nm)
    args['as_indices'] = bool(req.get('as_indices', False))
    return ('tiledVolume', args)


def build_tiled_case(ctx, idx):
    import highdicom as hd
    from gen.sources import seg_description, slide_image
    r = ctx.rng('tiled', idx)
    nr = ctx.np_rng('tiledpix', idx)
    total_r, total_c = r.randint(1, 9), r.randint(1, 9)
    tr, tc = r.randint(1, 4), r.randint(1, 4)
    rv = ctx.rng('tiledvar', idx)
    if rv.random() < 0.35:                      # boundary: exactly one row / column left over for the last tile
        total_r = tr * rv.randint(1, 3) + 1
    if rv.random() < 0.35:
        total_c = tc * rv.randint(1, 3) + 1
    src_ps = (r.choice(SPACINGS), r.choice(SPACINGS))
    src_origin = [F(r.randint(-400, 400), 8), F(r.randint(-400, 400), 8), F(0)]
    sd, _, _ = rand_direction(r, 0)
    src_ori = [float(x) for x in _col(sd, 2) + _col(sd, 1)]
    src, _ = slide_image(total_r, total_c, r.randint(1, 4), r.randint(1, 4), origin=[float(x) for x in src_origin],
                         pixel_spacing=[float(x) for x in src_ps], orientation=src_ori)
    seg_type = r.choice(['BINARY', 'LABELMAP', 'FRACTIONAL'])
    nseg = r.choice([1, 2])
    from_volume = r.random() < 0.5
    tiled_full = r.random() < 0.4
    omit = (not tiled_full) and r.random() < 0.6
    mask = (nr.random((1, total_r, total_c)) < r.choice([0.1, 0.5])) * nr.integers(1, nseg + 1, size=(1, total_r, total_c))
    mask = mask.astype(np.uint8)
    if not mask.any():
        mask[0, r.randrange(total_r), r.randrange(total_c)] = 1
    descr = {'stream': 'tiled', 'idx': idx, 'seed': ctx.seed, 'total': [total_r, total_c], 'tile': [tr, tc], 'type': seg_type,
             'nseg': nseg, 'from_volume': from_volume, 'tiled_full': tiled_full, 'omit': omit}
    dot_name = 'TILED_FULL' if tiled_full else 'TILED_SPARSE'
    # (an ndarray tile_size is refused by `tile_size or (...)`; the argument is documented as a tuple: not drawn)
    spell = rv.choice(['tuple/str', 'list/enum', 'npint/str', 'npint/enum'])
    tile_size = {'tuple/str': (tr, tc), 'list/enum': [tr, tc], 'npint/str': (np.int32(tr), np.int64(tc)),
                 'npint/enum': (np.int64(tr), np.int32(tc))}[spell]
    dot = hd.DimensionOrganizationTypeValues(dot_name) if spell.endswith('enum') else dot_name
    mem = rv.choice(LAYOUTS)
    seg_type_sp, typ_spell = spell_type(rv, seg_type)
    descr.update(memory=mem, option_spelling=spell, type_spelling=typ_spell,
                 remainder=[total_r % tr, total_c % tc])
    kw = dict(tile_pixel_array=True, tile_size=tile_size, omit_empty_frames=omit, dimension_organization_type=dot)
    passed = relayout(mask, mem)
    bufs = draw_buffers(ctx, 'tiled', idx)
    descr['caller_mutates'] = bufs.active
    if bufs.active and mem == 'C':
        passed = bufs.give(passed, late=True)
    if from_volume:
        g = rand_geom(r, 0.1)
        descr.update(dir=g['label'], h=g['h'], exact=g['exact'], spacing=[rstr(x) for x in g['s']], position=[rstr(x) for x in g['p']],
                     directions=[[rstr(x) for x in _col(g['d'], j)] for j in range(3)])
        vol = hd.Volume(passed, bufs.give(affine_of(g), dtype=np.float64), coordinate_system=rv.choice(['SLIDE', hd.CoordinateSystemNames.SLIDE]),
                        frame_of_reference_uid=src.FrameOfReferenceUID)
        a = frac_affine(affine_of(g))
        geo = (_col(g['d'], 2), _col(g['d'], 1), (g['s'][1], g['s'][2]), [(apply_aff(a, (0, 0, 0)), mask[0].astype(np.int64))])
        mk0 = lambda: hd.seg.Segmentation([src], vol, seg_type_sp, [seg_description(i + 1) for i in range(nseg)], **kw, **_seg_kw())  # noqa: E731
    else:
        descr.update(dir='src', exact=True, h=0)
        geo = (_col(sd, 2), _col(sd, 1), src_ps, [(src_origin, mask[0].astype(np.int64))])
        mk0 = lambda: hd.seg.Segmentation([src], passed, seg_type_sp, [seg_description(i + 1) for i in range(nseg)], **kw, **_seg_kw())  # noqa: E731

    def mk():
        bufs.scribble()                                 # the affine buffer is re-used after the Volume was built
        seg = mk0()
        if not np.array_equal(passed, mask):
            raise AssertionError('the constructor modified the mask it was given')
        bufs.scribble(late=True)
        return seg
    return descr, geo, mask, mk


def run_tiled(ctx, reqs, pending):
    for idx in range(ctx.n(150, 1200)):
        descr, geo, mask, mk = build_tiled_case(ctx, idx)
        _guard(ctx, descr, check_tiled_case, ctx, descr, geo, mask, mk, reqs, pending)


def check_tiled_case(ctx, descr, geo, mask, mk, reqs, pending):
    rowcos, colcos, ps, planes = geo
    exact = descr['exact']
    r = ctx.rng(descr['stream'] + 'req', descr['idx'])
    hkey = dict(stream=descr['stream'], type=descr['type'], from_volume=descr['from_volume'], tiled_full=descr['tiled_full'],
                omit=descr['omit'], exact=exact, placed=descr.get('placed'), origin_delta=descr.get('origin_delta'),
                same_tile_size=descr.get('same_tile_size'), memory=descr.get('memory'), option_spelling=descr.get('option_spelling'),
                hand_over=descr.get('hand_over'), caller_mutates=descr.get('caller_mutates'),
                tile_square=descr['tile'][0] == descr['tile'][1], remainder=str(descr.get('remainder')))
    st, seg = _fetch(mk)
    if st != 'ok':
        ctx.case(outcome='construct-refused', **hkey)
        ctx.fail(descr, f'tiled segmentation refused by the constructor: {seg}', site='Segmentation.__init__')
        return
    kw = dict(combine_segments=True)
    stv, v = _fetch(seg.get_volume, **kw)
    ctx.case(sample=descr if ctx.evaluations % 211 == 0 else None,
             nontrivial_key=(descr['stream'], descr['dir'], tuple(descr['total']), tuple(descr['tile']), descr['type'], descr['tiled_full'],
                             descr['omit'], descr.get('placed'), descr.get('origin_delta')) if stv == 'ok' else None, outcome='ok' if stv == 'ok' else 'refused', **hkey)
    if stv != 'ok':
        ctx.fail(descr, f'get_volume refused: {v}', site='get_volume/tiled')
        return
    out = np.asarray(v.array)
    if descr['type'] == 'FRACTIONAL':
        out = np.rint(out.astype(np.float64)).astype(np.int64)
    for b in positional_oracle(out, v.affine, planes, rowcos, colcos, ps, exact, 'tiled')[:3]:
        ctx.fail(descr, b, site='get_volume/tiled/position')
    stg, geom = _fetch(seg.get_volume_geometry)
    if stg != 'ok' or geom is None:
        ctx.fail(descr, f'get_volume_geometry failed: {geom}', site='get_volume_geometry/tiled')
    elif tuple(v.spatial_shape) != tuple(geom.spatial_shape) or not np.array_equal(v.affine, geom.affine):
        ctx.fail(descr, {'what': 'volume returned does not have the geometry the image reports',
                         'volume_affine': v.affine.tolist(), 'geometry_affine': geom.affine.tolist()}, site='get_volume-vs-geometry/tiled')
    # the image must agree with itself: the position recorded for every stored tile is the position its own
    # (total-pixel-matrix-origin derived) geometry gives the tile's first pixel
    if stg == 'ok' and geom is not None and 'PerFrameFunctionalGroupsSequence' in seg:
        ga = frac_affine(geom.affine)
        tolf = F(0) if exact else F(1, 10 ** 6)
        for fi, item in enumerate(seg.PerFrameFunctionalGroupsSequence):
            if 'PlanePositionSlideSequence' not in item:
                continue
            pp = item.PlanePositionSlideSequence[0]
            rec = [fr(pp.XOffsetInSlideCoordinateSystem), fr(pp.YOffsetInSlideCoordinateSystem), fr(pp.ZOffsetInSlideCoordinateSystem)]
            want = apply_aff(ga, (0, int(pp.RowPositionInTotalImagePixelMatrix) - 1, int(pp.ColumnPositionInTotalImagePixelMatrix) - 1))
            if not vclose(rec, want, tolf):
                ctx.fail(dict(descr, frame=fi + 1), {'what': 'position recorded for a tile differs from the position the image\'s own '
                                                             'geometry gives that tile', 'recorded': [float(x) for x in rec],
                                                     'geometry': [float(x) for x in want]}, site='tiled/self-consistency')
                break
    # L1 + model
    org = seg.TotalPixelMatrixOriginSequence[0]
    origin = [fr(org.XOffsetInSlideCoordinateSystem), fr(org.YOffsetInSlideCoordinateSystem),
              fr(org.get('ZOffsetInSlideCoordinateSystem', 0.0))]
    ios = [fr(x) for x in seg.ImageOrientationSlide]
    pm = seg.SharedFunctionalGroupsSequence[0].PixelMeasuresSequence[0]
    psx = [fr(x) for x in pm.PixelSpacing]
    sbs = fr(pm.SpacingBetweenSlices) if 'SpacingBetweenSlices' in pm else None
    if 'PerFrameFunctionalGroupsSequence' in seg:
        tile_frames_l1(ctx, descr, seg, mask, origin, ios, psx, reqs, pending)
    if exact:
        if origin != list(planes[0][0]) or ios != rowcos + colcos or psx != list(ps):
            ctx.fail(descr, {'what': 'stored total-pixel-matrix origin / orientation / spacing differ from the input',
                             'origin': [float(x) for x in origin], 'ios': [float(x) for x in ios], 'ps': [float(x) for x in psx]},
                     site='stored-measures/tiled')
        reqs.append(model_tiled_req(origin, ios, psx, sbs, descr['total'][0], descr['total'][1], None))
        pending.append((dict(descr, what='tiled get_volume affine/shape', layer='L0'), impl_volume_obs(stv, v)))
        if descr.get('placed') == 'plane_positions':
            # user-placed total pixel matrix: which origin the constructor records (translated origin_preserved)
            reqs.append(('recordedTiledOrigin', {'user': descr['origin'], 'src': descr['source_origin'], 'same_orientation': True,
                                                 'same_spacing': True, 'same_tiles': bool(descr['same_tile_size'])}))
            pending.append((dict(descr, what='recorded total-pixel-matrix origin of a user-placed segmentation', layer='L1'),
                            ('ok', [rstr(x) for x in origin])))
        if descr['from_volume']:
            reqs.append(('storeTiled', {'d': descr['directions'], 's': descr['spacing'], 'p': descr['position']}))
            pending.append((dict(descr, what='stored total-pixel-matrix origin/orientation/measures', layer='L1'),
                            ('ok', {'origin': [rstr(x) for x in origin], 'ios': [rstr(x) for x in ios], 'ps': [rstr(x) for x in psx],
                                    'sbs': None if sbs is None else rstr(sbs)})))
    rv = ctx.rng(descr['stream'] + 'var2', descr['idx'])
    repeated_reads(ctx, descr, seg, seg.get_volume, kw, v, rv, 'get_volume/tiled')
    roundtrip_seg_checks(ctx, descr, seg, rv, planes, planes, False, rowcos, colcos, ps, exact, descr['type'],
                         geom if stg == 'ok' else None, 'get_volume/tiled')
    for j in range(3):
        req0 = rand_request(r, v.spatial_shape)
        if rv.random() < 0.3:                   # boundary: the last row / column alone, the last tile row / column
            req0 = {'as_indices': req0['as_indices']}
            last_r, last_c = v.spatial_shape[1], v.spatial_shape[2]
            if req0['as_indices']:
                req0.update(row_start=rv.choice([last_r - 1, -1]), column_start=rv.choice([last_c - 1, -1]))
            else:
                req0.update(row_start=rv.choice([last_r, -1]), column_start=rv.choice([last_c, -1]))
        req, spelled = spell_request(rv, req0)
        ctx.hist('request_spelling', spelled)
        sts, sub, exp = check_subvolume(ctx, descr, seg.get_volume, v, req, exact, kw=kw, site='get_volume/tiled', empty_rc_free=True)
        req = req0
        valid = all(e is not None for e in exp)
        ctx.case(nontrivial_key=('tiledsub', tuple(v.spatial_shape), tuple(sorted(req.items()))) if (valid and sts == 'ok') else None,
                 stream=descr['stream'] + '/sub', request_valid=valid, outcome='ok' if sts == 'ok' else 'refused', as_indices=req['as_indices'])
        if exact:
            reqs.append(model_tiled_req(origin, ios, psx, sbs, descr['total'][0], descr['total'][1], req))
            pending.append((dict(descr, request=req, what='tiled get_volume(sub) affine/shape', layer='L0'), impl_volume_obs(sts, sub)))


# ---------------------------------------------------------------------------------------------- stream: tiledpos (user-placed tiled)
def build_tiledpos_case(ctx, idx):
    """A tiled segmentation the user places: same orientation / pixel spacing / matrix shape as the source (and often the
    same tile size), origin equal to the source's or different in exactly ONE coordinate (x only, y only, z only) or in
    all; placement by a single PlanePositionSequence or by a SLIDE volume with the source's orientation."""
    import highdicom as hd
    from gen.sources import seg_description, slide_image
    r = ctx.rng('tiledpos', idx)
    nr = ctx.np_rng('tiledpospix', idx)
    total_r, total_c = r.randint(2, 9), r.randint(2, 9)
    str_, stc = r.randint(1, 4), r.randint(1, 4)              # tile size of the source
    same_tile = r.random() < 0.6
    tr, tc = (str_, stc) if same_tile else (r.randint(1, 4), r.randint(1, 4))
    # round 4: the user hands over the individual tiles with explicit positions, in some order (own random stream)
    rt = ctx.rng('tiledposorder', idx)
    by_tiles = rt.random() < 0.4
    if by_tiles:
        grid = (rt.randint(1, 4), rt.randint(1, 4))
        if grid == (1, 1):
            grid = (2, 2)
        total_r, total_c = grid[0] * tr, grid[1] * tc
        ro_ = ctx.rng('tiledpospad', idx)
        if not same_tile and ro_.random() < 0.35:
            # a source whose tiles start at the SAME offsets as the handed-over ones but have another size: one tile row or
            # column of padded source tiles (frames of the source are larger than the matrix in that direction)
            if ro_.random() < 0.5:
                grid = (grid[0], 1)
                total_c = tc
                str_, stc = tr, tc + ro_.randint(1, 2)
            else:
                grid = (1, grid[1])
                total_r = tr
                str_, stc = tr + ro_.randint(1, 2), tc
            if grid == (1, 1):
                grid, total_r = (2, 1), 2 * tr
                str_, stc = tr, tc + 1
    src_ps = (r.choice(SPACINGS), r.choice(SPACINGS))
    src_origin = [F(r.randint(-400, 400), 8), F(r.randint(-400, 400), 8), F(0)]
    sd, _, _ = rand_direction(r, 0)
    rowcos, colcos = _col(sd, 2), _col(sd, 1)
    src, _ = slide_image(total_r, total_c, str_, stc, origin=[float(x) for x in src_origin],
                         pixel_spacing=[float(x) for x in src_ps], orientation=[float(x) for x in rowcos + colcos])
    delta_mode = r.choice(['none', 'x', 'y', 'z', 'z', 'all'])
    d = [F(r.choice([-24, -3, -1, 1, 2, 17]), 8) for _ in range(3)]
    delta = {'none': [0, 0, 0], 'x': [d[0], 0, 0], 'y': [0, d[1], 0], 'z': [0, 0, d[2]], 'all': d}[delta_mode]
    origin = [a + b for a, b in zip(src_origin, delta)]
    placed = r.choice(['plane_positions', 'volume'])
    seg_type = r.choice(['BINARY', 'LABELMAP', 'FRACTIONAL'])
    nseg = r.choice([1, 2])
    tiled_full = r.random() < 0.4
    if by_tiles:
        placed, tiled_full = 'tiles', False
    omit = (not tiled_full) and r.random() < 0.6
    mask = (nr.random((1, total_r, total_c)) < r.choice([0.2, 0.6])) * nr.integers(1, nseg + 1, size=(1, total_r, total_c))
    mask = mask.astype(np.uint8)
    mask[0, 0, 0] = 1
    mask[0, total_r - 1, total_c - 1] = nseg
    descr = {'stream': 'tiledpos', 'idx': idx, 'seed': ctx.seed, 'total': [total_r, total_c], 'tile': [tr, tc], 'type': seg_type,
             'nseg': nseg, 'from_volume': placed == 'volume', 'tiled_full': tiled_full, 'omit': omit, 'dir': 'src-oriented',
             'exact': True, 'h': 0, 'placed': placed, 'origin_delta': delta_mode, 'same_tile_size': same_tile,
             'source_origin': [rstr(x) for x in src_origin], 'origin': [rstr(x) for x in origin],
             'remainder': [total_r % tr, total_c % tc], 'source_tile': [str_, stc]}
    kw = dict(tile_pixel_array=True, tile_size=(tr, tc), omit_empty_frames=omit,
              dimension_organization_type='TILED_FULL' if tiled_full else 'TILED_SPARSE')
    geo = (rowcos, colcos, src_ps, [(origin, mask[0].astype(np.int64))])
    descs = [seg_description(i + 1) for i in range(nseg)]
    bufs = draw_buffers(ctx, 'tiledpos', idx)
    descr['caller_mutates'] = bufs.active
    if placed == 'tiles':
        # one frame per tile, each with its own PlanePositionSequence (slide coordinates of the tile's first pixel + its
        # 1-based position in the total pixel matrix); the ORDER of hand-over is free
        tiles = [(r0, c0) for r0 in range(0, total_r, tr) for c0 in range(0, total_c, tc)]
        order_name = rt.choice(['row-major', 'column-major', 'reversed', 'reversed', 'shuffled', 'shuffled', 'bottom-up-rows'])
        if order_name == 'column-major':
            tiles.sort(key=lambda t: (t[1], t[0]))
        elif order_name == 'reversed':
            tiles.reverse()
        elif order_name == 'shuffled':
            rt.shuffle(tiles)
        elif order_name == 'bottom-up-rows':
            tiles.sort(key=lambda t: (-t[0], t[1]))
        descr.update(hand_over=order_name, tiles=[list(t) for t in tiles], placed='tiles')

        def tile_pos(r0, c0):
            return [origin[i] + r0 * src_ps[0] * colcos[i] + c0 * src_ps[1] * rowcos[i] for i in range(3)]

        def mk():
            pps = [hd.PlanePositionSequence('SLIDE', bufs.give([float(x) for x in tile_pos(r0, c0)], dtype=np.float64),
                                            pixel_matrix_position=(c0 + 1, r0 + 1))
                   for r0, c0 in tiles]
            px = bufs.give(np.stack([mask[0, r0:r0 + tr, c0:c0 + tc] for r0, c0 in tiles]), late=True)
            po = hd.PlaneOrientationSequence('SLIDE', bufs.give([float(x) for x in rowcos + colcos], dtype=np.float64))
            pm = hd.PixelMeasuresSequence(pixel_spacing=bufs.give([float(x) for x in src_ps], dtype=np.float64), slice_thickness=1.0)
            bufs.scribble()                             # position / orientation / spacing buffers re-used once the items exist
            seg = hd.seg.Segmentation([src], px, seg_type, descs, plane_positions=pps, plane_orientation=po, pixel_measures=pm,
                                      omit_empty_frames=omit, **_seg_kw())
            bufs.scribble(late=True)
            return seg
    elif placed == 'volume':
        vol = hd.Volume.from_attributes(array=bufs.give(mask.copy(), late=True),
                                        image_position=bufs.give([float(x) for x in origin], dtype=np.float64),
                                        image_orientation=bufs.give([float(x) for x in rowcos + colcos], dtype=np.float64),
                                        pixel_spacing=bufs.give([float(x) for x in src_ps], dtype=np.float64), spacing_between_slices=1.0,
                                        coordinate_system='SLIDE', frame_of_reference_uid=src.FrameOfReferenceUID)
        va = frac_affine(vol.affine)
        # what the volume says about itself (column 0 = right-handed normal, unit spacing) for the storeTiled model
        descr.update(directions=[[rstr(va[i][0]) for i in range(3)], [rstr(x) for x in colcos], [rstr(x) for x in rowcos]],
                     spacing=['1', rstr(src_ps[0]), rstr(src_ps[1])], position=[rstr(x) for x in origin])

        def mk():
            bufs.scribble()                             # position / orientation / spacing buffers re-used after from_attributes
            seg = hd.seg.Segmentation([src], vol, seg_type, descs, **kw, **_seg_kw())
            bufs.scribble(late=True)
            return seg
    else:
        pp = [hd.PlanePositionSequence('SLIDE', bufs.give([float(x) for x in origin], dtype=np.float64), pixel_matrix_position=(1, 1))]

        def mk():
            bufs.scribble()
            px = bufs.give(mask.copy(), late=True)
            seg = hd.seg.Segmentation([src], px, seg_type, descs, plane_positions=pp, **kw, **_seg_kw())
            bufs.scribble(late=True)
            return seg
    return descr, geo, mask, mk


def run_tiledpos(ctx, reqs, pending):
    for idx in range(ctx.n(110, 900)):
        descr, geo, mask, mk = build_tiledpos_case(ctx, idx)
        _guard(ctx, descr, check_tiled_case, ctx, descr, geo, mask, mk, reqs, pending)


# ---------------------------------------------------------------------------------------------- stream: pyramid
def build_pyr_case(ctx, idx):
    import highdicom as hd
    from gen.sources import seg_description, slide_image
    r = ctx.rng('pyr', idx)
    nr = ctx.np_rng('pyrpix', idx)
    rank = r.choice([2, 3, 4])
    rows, cols = r.randint(8, 40), r.randint(8, 40)
    ps = (r.choice(SPACINGS), r.choice(SPACINGS))
    mode = r.choice(['factors', 'factors', 'arrays'])
    src, _ = slide_image(rows, cols, r.randint(2, 8), r.randint(2, 8), pixel_spacing=[float(x) for x in ps])
    nseg = r.choice([1, 2]) if rank == 4 else 1
    seg_type = r.choice(['BINARY', 'LABELMAP', 'FRACTIONAL'])
    base = (nr.random((rows, cols)) < 0.4).astype(np.uint8)
    base[0, 0] = 1

    def shape_it(m):
        if rank == 2:
            return m
        if rank == 3:
            return m[None]
        return np.stack([m] + [1 - m] * (nseg - 1), axis=-1)[None]
    descr = {'stream': 'pyr', 'idx': idx, 'seed': ctx.seed, 'rank': rank, 'rows': rows, 'cols': cols, 'mode': mode,
             'type': seg_type, 'nseg': nseg, 'pixel_spacing': [rstr(x) for x in ps]}
    kw = dict(series_instance_uid=hd.UID(), series_number=2, manufacturer='m', manufacturer_model_name='mm',
              software_versions='1', device_serial_number='1')
    descs = [seg_description(i + 1) for i in range(nseg)]
    rv = ctx.rng('pyrvar', idx)
    mem = rv.choice(LAYOUTS)
    typ, typ_spell = spell_type(rv, seg_type)
    descr.update(memory=mem, type_spelling=typ_spell)
    # constructor options handed through: tile size (non-square), dimension organisation, omission of empty tiles
    ro = ctx.rng('pyropt', idx)
    opt = {}
    if ro.random() < 0.6:
        opt['tile_size'] = (ro.randint(2, 6), ro.randint(2, 6))
    dorg = ro.choice(['default', 'default', 'TILED_SPARSE', 'TILED_FULL'])
    if dorg != 'default':
        opt['dimension_organization_type'] = dorg
    if dorg == 'TILED_FULL':
        opt['omit_empty_frames'] = False            # the constructor refuses the default (True) with TILED_FULL
    elif ro.random() < 0.5:
        opt['omit_empty_frames'] = ro.random() < 0.7
    descr.update(options={k: (list(v) if isinstance(v, tuple) else v) for k, v in opt.items()})
    kw.update(opt)
    if mode == 'factors':
        fs = sorted({r.choice([1.1, 1.5, 1.8, 2.0, 2.0, 2.1, 2.5, 3.0, 3.3, 4.0, 4.0, 5.0]) for _ in range(r.randint(1, 3))})
        fs = [f for f in fs if int(rows / f) >= 1 and int(cols / f) >= 1]
        descr['factors'] = fs
        fsp = rv.choice(['list', 'tuple', 'ndarray', 'ints'])
        fs_passed = {'list': list(fs), 'tuple': tuple(fs), 'ndarray': np.array(fs),
                     'ints': [int(f) if float(f).is_integer() else f for f in fs]}[fsp]
        descr['factor_spelling'] = fsp
        passed = relayout(shape_it(base), mem)
        mk = lambda: hd.seg.create_segmentation_pyramid([src], [passed], typ, descs, downsample_factors=fs_passed, **kw)  # noqa: E731
    else:
        sizes = [(rows, cols)]
        for _ in range(r.randint(1, 2)):
            pr, pc = sizes[-1]
            if pr < 2 or pc < 2:
                break
            sizes.append((r.randint(1, pr - 1), r.randint(1, pc - 1)))
        descr['sizes'] = [list(s) for s in sizes]
        arrs = [shape_it(base[:a, :b].copy()) for a, b in sizes]
        for a_ in arrs:
            a_.flat[0] = 1
        arrs = [relayout(a_, mem) for a_ in arrs]
        mk = lambda: hd.seg.create_segmentation_pyramid([src], arrs, typ, descs, **kw)  # noqa: E731
        level_masks = [np.asarray(base[:a, :b]).copy() for a, b in sizes]
        for m_ in level_masks:
            m_.flat[0] = 1
    if mode == 'factors':
        level_masks = [base.copy()]
    org = src.TotalPixelMatrixOriginSequence[0]
    source = ([fr(org.XOffsetInSlideCoordinateSystem), fr(org.YOffsetInSlideCoordinateSystem),
               fr(org.get('ZOffsetInSlideCoordinateSystem', 0.0))], [fr(x) for x in src.ImageOrientationSlide])
    return descr, {'ps': ps, 'masks': level_masks, 'source': source}, mk


def run_pyr(ctx, reqs, pending):
    for idx in range(ctx.n(60, 360)):
        descr, ps, mk = build_pyr_case(ctx, idx)
        _guard(ctx, descr, check_pyr_case, ctx, descr, ps, mk, reqs, pending)


def check_pyr_case(ctx, descr, ps, mk, reqs, pending):
    extras = ps if isinstance(ps, dict) else {'ps': ps}
    ps = extras['ps']
    if descr['mode'] == 'factors' and not descr['factors']:
        return
    st, segs = _fetch(mk)
    hkey = dict(stream='pyr', rank=descr['rank'], mode=descr['mode'], type=descr['type'], memory=descr.get('memory'),
                factor_spelling=descr.get('factor_spelling'), square=descr['rows'] == descr['cols'],
                pyramid_options=str(sorted(descr.get('options', {}).items())))
    if st != 'ok':
        ctx.case(outcome='construct-refused', **hkey)
        ctx.fail(descr, f'pyramid refused: {segs}', site='create_segmentation_pyramid')
        return
    ext0 = (descr['rows'] * ps[0], descr['cols'] * ps[1])
    tol = F(1, 10 ** 9)
    for lvl, s in enumerate(segs):
        pm = s.SharedFunctionalGroupsSequence[0].PixelMeasuresSequence[0]
        sp = [fr(x) for x in pm.PixelSpacing]
        rl, cl = int(s.TotalPixelMatrixRows), int(s.TotalPixelMatrixColumns)
        ext = (rl * sp[0], cl * sp[1])
        ctx.case(sample=descr if ctx.evaluations % 53 == 0 else None,
                 nontrivial_key=('pyr', descr['rank'], descr['mode'], descr['rows'], descr['cols'], lvl, rl, cl) if lvl > 0 else None,
                 level=lvl, outcome='ok', **hkey)
        if not (close(ext[0], ext0[0], tol) and close(ext[1], ext0[1], tol)):
            ctx.fail(dict(descr, level=lvl), {'what': 'pyramid level does not cover the physical extent of level 0',
                                              'level_rows_cols': [rl, cl], 'level_spacing': [float(x) for x in sp],
                                              'extent': [float(x) for x in ext], 'extent0': [float(x) for x in ext0]},
                     site='pyramid/extent')
        # through the public geometry as well
        stg, geom = _fetch(s.get_volume_geometry)
        if stg == 'ok' and geom is not None:
            pe = geom.physical_extent
            if not (close(fr(pe[1]), ext0[0], tol) and close(fr(pe[2]), ext0[1], tol)):
                ctx.fail(dict(descr, level=lvl), {'what': 'reported geometry of a pyramid level does not cover the extent of level 0',
                                                  'physical_extent': list(pe), 'extent0': [float(x) for x in ext0]},
                         site='pyramid/geometry-extent')
        else:
            ctx.fail(dict(descr, level=lvl), f'pyramid level has no volume geometry: {geom}', site='pyramid/geometry')
        # every level whose mask is known (all levels when the arrays are given, level 0 otherwise) must read back as that mask
        # at the SOURCE's origin with the level's spacing, and its stored tiles must be the tiles of that mask
        masks = extras.get('masks') or []
        if lvl < len(masks):
            m0 = masks[lvl].astype(np.int64)
            if descr['rank'] == 4 and descr['nseg'] == 2:
                lab_l = np.where(m0 > 0, 1, 2)
            else:
                lab_l = m0
            s_origin, s_ios = extras['source']
            lv_ps = (ps[0] * descr['rows'] / rl, ps[1] * descr['cols'] / cl)
            stv, v = _fetch(s.get_volume, combine_segments=True)
            if stv != 'ok':
                ctx.fail(dict(descr, level=lvl), f'get_volume of a pyramid level refused: {v}', site='pyramid/get_volume')
            else:
                out = np.asarray(v.array)
                if descr['type'] == 'FRACTIONAL':
                    out = np.rint(out.astype(np.float64)).astype(np.int64)
                for b in positional_oracle(out, v.affine, [(s_origin, lab_l)], s_ios[:3], s_ios[3:], lv_ps, False, f'level {lvl}')[:2]:
                    ctx.fail(dict(descr, level=lvl), b, site='pyramid/position')
            if 'PerFrameFunctionalGroupsSequence' in s:
                o_ = s.TotalPixelMatrixOriginSequence[0]
                ld = dict(descr, level=lvl, total=[rl, cl], tile=[int(s.Rows), int(s.Columns)], exact=(lvl == 0),
                          omit=bool(descr.get('options', {}).get('omit_empty_frames', True)))
                tile_frames_l1(ctx, ld, s, lab_l[None], [fr(o_.XOffsetInSlideCoordinateSystem), fr(o_.YOffsetInSlideCoordinateSystem),
                                                          fr(o_.get('ZOffsetInSlideCoordinateSystem', 0.0))],
                               [fr(x) for x in s.ImageOrientationSlide], sp, reqs, pending)
        # model (translated spacing expression): level spacing from the array ranks/shapes the code saw
        rank0 = descr['rank']
        rankl = rank0 if (descr['mode'] == 'arrays' or lvl == 0) else max(3, rank0 if rank0 == 4 else 3)
        sh0 = {2: [descr['rows'], descr['cols'], 0], 3: [1, descr['rows'], descr['cols']], 4: [1, descr['rows'], descr['cols']]}[rank0]
        shl = {2: [rl, cl, 0], 3: [1, rl, cl], 4: [1, rl, cl]}[rankl]
        reqs.append(('pyramidSpacing', {'ps': [rstr(x) for x in ps], 'ndim0': rank0, 'shape0': sh0, 'ndim': rankl, 'shape': shl}))
        pending.append((dict(descr, level=lvl, what='PixelSpacing of pyramid level', layer='L1', tol=True),
                        ('ok', [rstr(x) for x in sp])))


# ---------------------------------------------------------------------------------------------- stream: pyrsrc (several source images)
def run_pyrsrc(ctx, reqs, pending):
    """Pyramids over a source PYRAMID (several source images of one series sharing a PyramidUID): the pixel measures of
    every level are copied from its source image; the levels cover the same extent when the sources do.  One pixel array
    (the library resamples it to the source sizes) or one per level."""
    import highdicom as hd
    from gen.sources import seg_description, slide_image
    for idx in range(ctx.n(20, 200)):
        r = ctx.rng('pyrsrc', idx)
        nr = ctx.np_rng('pyrsrcpix', idx)
        nlev = r.choice([2, 2, 3])
        f = 2 ** (nlev - 1)
        rows, cols = f * r.randint(2, 8), f * r.randint(2, 8)
        ps = (r.choice(SPACINGS), r.choice(SPACINGS))
        rank = r.choice([2, 3, 4])
        seg_type = r.choice(['BINARY', 'LABELMAP', 'FRACTIONAL'])
        srcs, sizes = [], []
        for lv in range(nlev):
            rl, cl = rows // 2 ** lv, cols // 2 ** lv
            ds, _ = slide_image(rl, cl, r.randint(2, 6), r.randint(2, 6), pixel_spacing=[float(ps[0] * 2 ** lv), float(ps[1] * 2 ** lv)])
            if srcs:
                for kw_ in ('StudyInstanceUID', 'SeriesInstanceUID', 'FrameOfReferenceUID'):
                    setattr(ds, kw_, getattr(srcs[0], kw_))
            ds.PyramidUID = srcs[0].PyramidUID if srcs else hd.UID()
            srcs.append(ds)
            sizes.append((rl, cl))
        base = (nr.random((rows, cols)) < 0.4).astype(np.uint8)
        base[0, 0] = 1

        def shape_it(m):
            return m if rank == 2 else (m[None] if rank == 3 else m[None, :, :, None])
        per_level = r.random() < 0.5
        arrs = [shape_it(np.ascontiguousarray(base[::2 ** lv, ::2 ** lv])) for lv in range(nlev)] if per_level else [shape_it(base)]
        descr = {'stream': 'pyrsrc', 'idx': idx, 'seed': ctx.seed, 'rank': rank, 'rows': rows, 'cols': cols, 'levels': nlev,
                 'type': seg_type, 'per_level_arrays': per_level, 'pixel_spacing': [rstr(x) for x in ps]}
        kw = dict(series_instance_uid=hd.UID(), series_number=2, manufacturer='m', manufacturer_model_name='mm',
                  software_versions='1', device_serial_number='1')
        st, segs = _fetch(hd.seg.create_segmentation_pyramid, srcs, arrs, seg_type, [seg_description(1)], **kw)
        ctx.case(stream='pyrsrc', outcome='ok' if st == 'ok' else 'refused', rank=rank, per_level_arrays=per_level, levels=nlev,
                 nontrivial_key=('pyrsrc', rank, rows, cols, nlev, per_level, seg_type) if st == 'ok' else None)
        if st != 'ok':
            ctx.fail(descr, f'pyramid over a source pyramid refused: {segs}', site='create_segmentation_pyramid/sources')
            continue
        ext0 = (rows * ps[0], cols * ps[1])
        for lv, sg in enumerate(segs):
            pm = sg.SharedFunctionalGroupsSequence[0].PixelMeasuresSequence[0]
            sp = [fr(x) for x in pm.PixelSpacing]
            rl, cl = int(sg.TotalPixelMatrixRows), int(sg.TotalPixelMatrixColumns)
            if (rl, cl) != sizes[lv] or sp != [ps[0] * 2 ** lv, ps[1] * 2 ** lv]:
                ctx.fail(dict(descr, level=lv), {'what': 'level does not record the size / pixel spacing of its source image',
                                                 'size': [rl, cl], 'spacing': [float(x) for x in sp]}, site='pyramid/sources')
            elif (rl * sp[0], cl * sp[1]) != ext0:
                ctx.fail(dict(descr, level=lv), 'level does not cover the extent of level 0', site='pyramid/sources')


# ---------------------------------------------------------------------------------------------- stream: helper grid (T2, L2 + L0)
def run_helpers(ctx, reqs, pending):
    """`_standardize_slice_indices` against (a) the translated definition (L2) and (b) the Python-slice meaning (oracle),
    exhaustively for n <= N and all (start, end) in -n-2..n+2 plus None, both conventions."""
    from highdicom.image import _Image
    f = getattr(_Image, '_standardize_slice_indices', None)
    if f is None:
        ctx.note('L2 helper _standardize_slice_indices not found; skipped')
        return
    nmax = 5 if ctx.tier == 'quick' else 7
    for n in range(1, nmax + 1):
        vals = [None] + list(range(-n - 2, n + 3))
        for s in vals:
            for e in vals:
                for ai in (False, True):
                    st, val = _fetch(f, s, e, n, ai)
                    exp = py_req(s, e, n, ai)
                    ctx.case(stream='helper', request_valid=exp is not None, outcome='ok' if st == 'ok' else 'refused')
                    case = {'helper': '_standardize_slice_indices', 'start': s, 'end': e, 'n': n, 'as_indices': ai}
                    if exp is None and st == 'ok':
                        ctx.fail(case, f'invalid slice request accepted as {val}', site='_standardize_slice_indices')
                    elif exp is not None and (st != 'ok' or tuple(val) != exp):
                        ctx.fail(case, f'slice request means {exp}, got {val}', site='_standardize_slice_indices')
                    reqs.append(('stdSliceIndices', {'start': s, 'end': e, 'n': n, 'as_indices': ai}))
                    pending.append((dict(case, layer='L2'), ('ok', [int(val[0]), int(val[1])]) if st == 'ok' else ('err', 'refused')))
    ctx.exhaustive.append(f'_standardize_slice_indices: n in 1..{nmax}, start/end in None or -n-2..n+2, both conventions')


def run_volume_positions_helper(ctx, reqs, pending):
    """L2: the hand-written model of `spatial.get_volume_positions` against the real function on position sets that the
    object streams do not produce: in-plane shifted frames (equal distances, different positions), off-grid multiples,
    duplicates, hints that are negative / zero / wrong, both branches, duplicates allowed or not."""
    from highdicom.spatial import get_volume_positions
    iops = [[1, 0, 0, 0, 1, 0], [0, 1, 0, 0, 0, -1], [0, 0, 1, 1, 0, 0], [0, -1, 0, -1, 0, 0]]
    fixed = [([(0, 0, -1), (0, 0, 0), (5, 0, 0)], iops[0], 1.0, True, True),         # witness of the audit (C03-5)
             ([(0, 0, 0), (0, 0, 1), (0, 0, 100.9)], iops[0], None, True, True),     # audit 2 (C03-1): estimate refined over the extent
             ([(0, 0, 0), (0, 0, 1), (0, 0, 2.016)], iops[0], None, True, True),
             ([(0, 0, 0), (0, 0, 1), (0, 0, 2.5)], iops[0], None, True, True),
             ([(0, 0, 0), (0, 0, 1), (3, 0, 1.004)], iops[0], 1.0, True, True)]      # two positions at one multiple
    for idx in range(ctx.n(300, 3000) + len(fixed)):
        if idx < len(fixed):
            pos, iop, hint, am, ad = fixed[idx]
        else:
            r = ctx.rng('vphelper', idx)
            n = r.randint(1, 6)
            base = [r.randint(-4, 4) / 2 for _ in range(3)]
            iop = r.choice(iops)
            nrm = np.cross(iop[3:], iop[:3])
            pos = []
            for k in range(n):
                m = r.choice([0, 1, 2, 3, 4, 5]) * r.choice([0.5, 1.0, 1.5]) if r.random() < 0.3 else r.randint(0, 5) * 1.0
                p_ = [base[j] + m * nrm[j] for j in range(3)]
                if r.random() < 0.15:
                    p_[r.randrange(3)] += r.choice([0.5, 1.0, 5.0])
                pos.append(tuple(float(x) for x in p_))
            if r.random() < 0.2:
                pos.append(pos[0])
            hint = r.choice([None, None, 1.0, 0.5, 2.0, -1.0, 0.0])
            am, ad = r.random() < 0.6, r.random() < 0.7
            rn = ctx.rng('vpnear', idx)
            if rn.random() < 0.3:
                # near-multiples of a spacing (audit 2): planes within 0.4 % of a spacing of whole multiples far apart (the estimate
                # from the smallest gap must be refined over the extent), sometimes one plane clearly off the grid
                sp_ = rn.choice([0.5, 1.0, 2.5, 0.3])
                ks = sorted(rn.sample(range(0, rn.choice([6, 40, 120])), rn.randint(2, 6)))
                # (offsets are relative to the lowest plane in the code: differences stay clear of the 1 % boundary)
                offs = [rn.choice([0.0, 0.002, -0.002, 0.003, -0.003, 0.004, -0.004]) for _ in ks]
                if rn.random() < 0.25:
                    offs[rn.randrange(len(ks))] = rn.choice([0.02, -0.03, 0.2, 0.45])
                order_ = list(range(len(ks)))
                rn.shuffle(order_)
                pos = [tuple(float(base[j] + (ks[i] + offs[i]) * sp_ * nrm[j]) for j in range(3)) for i in order_]
                hint = rn.choice([None, None, None, sp_])
                am, ad = True, True
        try:
            sp, vp = get_volume_positions(pos, iop, allow_missing_positions=am, allow_duplicate_positions=ad, spacing_hint=hint)
            impl = ('ok', None if vp is None else {'spacing': rstr(fr(sp)), 'positions': [int(x) for x in vp]})
        except Exception:  # noqa: BLE001
            impl = ('err', 'refused')
        # different positions at the extreme distance: which of them numpy's (unstable) argsort puts first / last is not
        # specified (np.argsort([5.5, 5.5, 4.5, 3.5]) = [3 2 1 0] here); the model takes the lexicographic one; not compared
        uq = sorted(set(pos))
        dd = [float(np.dot(nrm, q)) for q in uq] if idx >= len(fixed) else []
        tie = bool(dd) and (dd.count(min(dd)) > 1 or dd.count(max(dd)) > 1)
        if tie:
            ctx.case(stream='helper/volume_positions', outcome='tie-at-extreme-not-compared')
            continue
        ctx.case(stream='helper/volume_positions', outcome=('none' if impl == ('ok', None) else impl[0]),
                 allow_missing=am, hint='none' if hint is None else ('neg' if hint < 0 else 'zero' if hint == 0 else 'pos'),
                 near_multiples=bool(idx >= len(fixed) and ctx.rng('vpnear', idx).random() < 0.3))
        reqs.append(('volumePositions', {'pos': [[rstr(fr(x)) for x in p_] for p_ in pos], 'iop': [rstr(F(x)) for x in iop],
                                         'hint': None if hint is None else rstr(fr(hint)), 'allow_missing': am, 'allow_dup': ad}))
        pending.append(({'helper': 'get_volume_positions', 'positions': [list(p_) for p_ in pos], 'iop': iop, 'hint': hint,
                         'allow_missing': am, 'allow_duplicates': ad, 'layer': 'L2', 'spacing_tol': True}, impl))


def run_slice_requests_exhaustive(ctx, reqs, pending):
    """All slice (start, end) pairs through the public API on one stack image and one segmentation (n = 4)."""
    import highdicom as hd
    from gen.sources import ct_series, enhanced_multiframe, seg_description
    n = 4
    ds = enhanced_multiframe(n, 2, 3, slice_spacing=1.5, order=[2, 0, 3, 1], origin=(1.0, 2.0, 3.0))
    kw = dict(apply_modality_transform=False)
    src = ct_series(n, 2, 3, slice_spacing=0.5)
    arr = np.zeros((n, 2, 3), np.uint8)
    for k in range(n):
        arr[k, k % 2, k % 3] = 1
    objs = []
    st, im = _fetch(lambda: hd.Image.from_dataset(ds, copy=False))
    st2, full = _fetch(lambda: im.get_volume(**kw)) if st == 'ok' else ('err', im)
    if st2 == 'ok':
        objs.append(('image', im.get_volume, full, kw))
    else:
        ctx.fail({'stream': 'slicegrid', 'object': 'image'}, f'default get_volume of a regular 4-slice image failed: {full}',
                 site='image.get_volume/slice-grid')
    st, seg = _fetch(lambda: hd.seg.Segmentation(src, arr, 'BINARY', [seg_description(1)], **_seg_kw()))
    st2, sfull = _fetch(lambda: seg.get_volume(combine_segments=True)) if st == 'ok' else ('err', seg)
    if st2 == 'ok':
        objs.append(('seg', seg.get_volume, sfull, dict(combine_segments=True)))
    else:
        ctx.fail({'stream': 'slicegrid', 'object': 'seg'}, f'default get_volume of a regular 4-slice segmentation failed: {sfull}',
                 site='seg.get_volume/slice-grid')
    vals = [None] + list(range(-n - 2, n + 3))
    for s in vals:
        for e in vals:
            for ai in (False, True):
                req = {'as_indices': ai}
                if s is not None:
                    req['slice_start'] = s
                if e is not None:
                    req['slice_end'] = e
                for nm, gv, fv, k2 in objs:
                    st, sub, exp = check_subvolume(ctx, {'stream': 'slicegrid', 'object': nm}, gv, fv, req, True, kw=k2,
                                                   site=f'{nm}.get_volume/slice-grid')
                    ctx.case(stream='slicegrid', request_valid=exp[0] is not None, outcome='ok' if st == 'ok' else 'refused',
                             nontrivial_key=('slicegrid', nm, s, e, ai) if st == 'ok' else None)
    # what is no integer is refused (never truncated or parsed): floats, numeric strings
    for nm, gv, fv, k2 in objs:
        for bad in (1.0, 2.5, '1', np.float64(2.0)):
            for arg in ('slice_start', 'slice_end'):
                st, val = _fetch(gv, **{arg: bad}, **k2)
                ctx.case(stream='slicegrid', request_valid=False, outcome='ok' if st == 'ok' else 'refused')
                if st == 'ok':
                    ctx.fail({'stream': 'slicegrid', 'object': nm, 'request': {arg: repr(bad)}},
                             f'a {type(bad).__name__} was accepted as {arg}', site=f'{nm}.get_volume/slice-grid')
    ctx.exhaustive.append(f'get_volume(slice_start, slice_end) on a {n}-slice image and segmentation: all pairs in None or -n-2..n+2, both conventions')


# ---------------------------------------------------------------------------------------------- fixed witnesses (corpus)
def witness_case(ctx, case, reqs, pending):
    """Minimised past failures (corpus/C03/*.json, `{"case": {"witness": name}}`) run through the same oracles."""
    import highdicom as hd
    from gen.sources import seg_description, slide_image
    name = case['witness']
    if name == 'slice-requests':
        from highdicom.image import _Image
        for s_, e_, n_, ai in ((1, 3, 5, False), (1, 2, 1, False), (-6, None, 5, True), (-7, 2, 5, False), (2, 0, 5, False)):
            st, val = _fetch(_Image._standardize_slice_indices, s_, e_, n_, ai)
            exp = py_req(s_, e_, n_, ai)
            ctx.case(stream='witness')
            if (exp is None) != (st != 'ok') or (exp is not None and tuple(val) != exp):
                ctx.fail({'helper': '_standardize_slice_indices', 'start': s_, 'end': e_, 'n': n_, 'as_indices': ai},
                         f'slice request means {exp}, got {val}', site='_standardize_slice_indices')
    elif name == 'tiled-default-origin':
        src, _ = slide_image(6, 8, 4, 4, origin=(10.0, 20.0, 0.0), pixel_spacing=(0.5, 0.25))
        mask = np.zeros((1, 6, 8), np.uint8)
        mask[0, 1, 2] = 1
        mask[0, 5, 7] = 1
        descr = {'stream': 'witness', 'witness': name, 'idx': 0, 'seed': ctx.seed, 'total': [6, 8], 'tile': [4, 4], 'type': 'LABELMAP',
                 'nseg': 1, 'from_volume': False, 'tiled_full': False, 'omit': True, 'dir': 'src', 'exact': True, 'h': 0}
        geo = ([F(0), F(-1), F(0)], [F(-1), F(0), F(0)], (F(1, 2), F(1, 4)), [([F(10), F(20), F(0)], mask[0].astype(np.int64))])
        mk = lambda: hd.seg.Segmentation([src], mask.copy(), 'LABELMAP', [seg_description(1)], tile_pixel_array=True,  # noqa: E731
                                         tile_size=(4, 4), **_seg_kw())
        _guard(ctx, descr, check_tiled_case, ctx, descr, geo, mask, mk, reqs, pending)
    elif name == 'pyramid-rank3':
        for rank in (2, 3, 4):
            src, _ = slide_image(16, 24, 8, 8, pixel_spacing=(0.5, 0.25))
            m = np.zeros((16, 24), np.uint8)
            m[2:9, 3:17] = 1
            arr = {2: m, 3: m[None], 4: m[None, :, :, None]}[rank]
            descr = {'stream': 'witness', 'witness': name, 'idx': rank, 'seed': ctx.seed, 'rank': rank, 'rows': 16, 'cols': 24,
                     'mode': 'factors', 'type': 'BINARY', 'nseg': 1, 'pixel_spacing': ['1/2', '1/4'], 'factors': [2.0, 4.0]}
            kw = dict(series_instance_uid=hd.UID(), series_number=2, manufacturer='m', manufacturer_model_name='mm',
                      software_versions='1', device_serial_number='1')
            mk = lambda arr=arr, src=src: hd.seg.create_segmentation_pyramid(  # noqa: E731
                [src], [arr], 'BINARY', [seg_description(1)], downsample_factors=[2.0, 4.0], **kw)
            _guard(ctx, descr, check_pyr_case, ctx, descr, (F(1, 2), F(1, 4)), mk, reqs, pending)
    elif name == 'same-positions-other-frame-size':
        # two 2 x 2 tiles handed over one by one at the positions of the two (padded) 2 x 3 tiles of the source image
        origin = [F(83, 2), F(-169, 4), F(0)]
        rowcos, colcos, src_ps = [F(0), F(-1), F(0)], [F(-1), F(0), F(0)], (F(1, 2), F(1, 4))
        src, _ = slide_image(4, 2, 2, 3, origin=[float(x) for x in origin], pixel_spacing=[float(x) for x in src_ps],
                             orientation=[float(x) for x in rowcos + colcos])
        mask = np.ones((1, 4, 2), np.uint8)
        mask[0, 1, 0] = 0
        tiles = [(0, 0), (2, 0)]
        descr = {'stream': 'witness', 'witness': name, 'idx': 0, 'seed': ctx.seed, 'total': [4, 2], 'tile': [2, 2], 'type': 'BINARY',
                 'nseg': 1, 'from_volume': False, 'tiled_full': False, 'omit': False, 'dir': 'src-oriented', 'exact': True, 'h': 0,
                 'placed': 'tiles', 'same_tile_size': False}
        geo = (rowcos, colcos, src_ps, [(origin, mask[0].astype(np.int64))])

        def mk():
            pps = [hd.PlanePositionSequence('SLIDE', [float(origin[i] + r0 * src_ps[0] * colcos[i] + c0 * src_ps[1] * rowcos[i]) for i in range(3)],
                                            pixel_matrix_position=(c0 + 1, r0 + 1)) for r0, c0 in tiles]
            px = np.stack([mask[0, r0:r0 + 2, c0:c0 + 2] for r0, c0 in tiles])
            return hd.seg.Segmentation([src], px, 'BINARY', [seg_description(1)], plane_positions=pps,
                                       plane_orientation=hd.PlaneOrientationSequence('SLIDE', [float(x) for x in rowcos + colcos]),
                                       pixel_measures=hd.PixelMeasuresSequence(pixel_spacing=[float(x) for x in src_ps], slice_thickness=1.0),
                                       omit_empty_frames=False, **_seg_kw())
        _guard(ctx, descr, check_tiled_case, ctx, descr, geo, mask, mk, reqs, pending)
    else:
        return False
    return True


# ---------------------------------------------------------------------------------------------- run / replay
STREAMS = {
    'vol': (build_vol_case, lambda ctx, c, rq, pd: check_vol_case(ctx, c[0], c[1], c[2], c[3], rq, pd)),
    'place': (build_place_case, lambda ctx, c, rq, pd: check_vol_case(ctx, c[0], c[1], c[2], c[3], rq, pd)),
    'src': (build_src_case, lambda ctx, c, rq, pd: check_src_case(ctx, c[0], c[1], c[2], c[3], c[4], rq, pd)),
    'img': (build_img_case, lambda ctx, c, rq, pd: check_img_case(ctx, c[0], c[1], c[2], c[3], rq, pd)),
    'tiled': (build_tiled_case, lambda ctx, c, rq, pd: check_tiled_case(ctx, c[0], c[1], c[2], c[3], rq, pd)),
    'tiledpos': (build_tiledpos_case, lambda ctx, c, rq, pd: check_tiled_case(ctx, c[0], c[1], c[2], c[3], rq, pd)),
    'pyr': (build_pyr_case, lambda ctx, c, rq, pd: check_pyr_case(ctx, c[0], c[1], c[2], rq, pd)),
}


def _compare(ctx, pending, answers):
    extra = ctx.__dict__.get('_c03_extra', {})
    for i, ((case, impl), ans) in enumerate(zip(pending, answers)):
        chk = extra.get((id(pending), i))
        if chk is not None and 'proto_err' not in ans:
            d = chk(ans)
            ctx.hist('model_checks', 'frame placement -> array')
            if d is not None:
                ctx.disagree('L0', case, d, 'array assembled from the stored frames at the model\'s slots', 'value: frame placement')
        layer = case.get('layer', 'L0')
        if 'proto_err' in ans:
            ctx.disagree(layer, case, impl, ans, 'model protocol error')
            continue
        model = ('ok', ans['ok']) if 'ok' in ans else ('err', 'refused')
        ctx.hist('model_checks', str(case.get('what', case.get('helper', '?'))) + ('' if 'ok' in ans else ' (refused)'))
        if impl[0] != model[0]:
            ctx.disagree(layer, case, impl, model, 'ok-vs-error: ' + str(case.get('what', case.get('helper', ''))))
        elif impl[0] == 'ok':
            a, b = impl[1], model[1]
            if case.get('model_drop') and isinstance(b, list):
                b = [{k: v for k, v in it.items() if k not in case['model_drop']} if isinstance(it, dict) else it for it in b]
            if case.get('spacing_tol') and isinstance(a, dict) and isinstance(b, dict):
                # the model divides exactly, the code in floating point: positions must be equal, the spacing within 1e-9
                same = a.get('positions') == b.get('positions') and close(F(a['spacing']), F(b['spacing']), F(1, 10 ** 9))
            elif case.get('tol'):
                same = all(close(F(x), F(y), F(1, 10 ** 9)) for x, y in zip(a, b)) and len(a) == len(b)
            elif isinstance(a, dict) and isinstance(b, dict):
                same = all(b.get(k) == v for k, v in a.items())
            else:
                same = a == b
            if not same:
                ctx.disagree(layer, case, impl, model, 'value: ' + str(case.get('what', case.get('helper', ''))))
                import os as _os
                if layer == 'L2' and _os.environ.get('HD_C03_L2LOG'):         # L2 records are not kept in the evidence: debugging aid
                    open(_os.environ['HD_C03_L2LOG'], 'a').write(repr((case, impl, model)) + '\n')


def run(ctx):
    import glob
    import json
    import os
    reqs, pending = [], []
    # corpus first
    here = os.path.dirname(os.path.dirname(os.path.dirname(os.path.abspath(__file__))))
    for f in sorted(glob.glob(os.path.join(here, 'corpus', 'C03', '*.json'))):
        try:
            case = json.load(open(f)).get('case')
            _run_one(ctx, case, reqs, pending)
        except Exception as e:  # noqa: BLE001
            ctx.note(f'corpus case {os.path.basename(f)} could not run: {e}')
    import sys
    import time
    prof = os.environ.get('HD_C03_PROFILE')
    for fn in (run_helpers, run_volume_positions_helper, run_slice_requests_exhaustive, run_vol, run_place, run_src,
               run_img, run_tiled, run_tiledpos, run_pyr, run_pyrsrc):
        t0 = time.time()
        fn(ctx, reqs, pending)
        if prof:
            open(prof, 'a').write(f'{fn.__name__}: {time.time() - t0:.1f}s, {len(reqs)} requests so far' + '\n')
    t0 = time.time()
    answers = ctx.model(reqs)
    if prof:
        open(prof, 'a').write(f'model: {time.time() - t0:.1f}s' + '\n')
    if answers is None:
        return
    t0 = time.time()
    _compare(ctx, pending, answers)
    if prof:
        open(prof, 'a').write(f'compare: {time.time() - t0:.1f}s' + '\n')


def _run_one(ctx, case, reqs, pending):
    if 'witness' in case:
        return witness_case(ctx, case, reqs, pending)
    stream = case.get('stream')
    if stream not in STREAMS:
        return False
    build, check = STREAMS[stream]
    sub = ctx
    if case.get('seed', ctx.seed) != ctx.seed:
        sub = type(ctx)(ctx.prop, ctx.tier, case['seed'], 1, ctx.driver)
    c = build(sub, case['idx'])
    check(ctx, c, reqs, pending)
    return True


def replay(ctx, case):
    """Re-run one stored case (stream + idx + seed, or a helper request) on the implementation."""
    sub = type(ctx)(ctx.prop, ctx.tier, case.get('seed', ctx.seed), 1, ctx.driver)
    if case.get('helper') == '_standardize_slice_indices':
        from highdicom.image import _Image
        st, val = _fetch(_Image._standardize_slice_indices, case['start'], case['end'], case['n'], case['as_indices'])
        exp = py_req(case['start'], case['end'], case['n'], case['as_indices'])
        if (exp is None) != (st != 'ok') or (exp is not None and tuple(val) != exp):
            return [{'case': case, 'detail': f'means {exp}, got {val}'}]
        return None
    if case.get('stream') == 'slicegrid':
        run_slice_requests_exhaustive(sub, [], [])
        return sub.failures[:3] or None
    if not _run_one(sub, case, [], []):
        return None
    return sub.failures[:3] or None


def shrink(ctx, failure):
    """Among the failures of this run at the same site pick the smallest case (exact numbers before oblique ones,
    then product of the shape, then number of request items): cases are pure functions of (seed, stream, idx), so the
    smallest failing generated case is the minimised replay."""
    site = failure.get('site')

    def size(f):
        c = f.get('case') or {}
        if 'helper' in c:
            return (0, c.get('n', 0), abs(c.get('start') or 0) + abs(c.get('end') or 0))
        dims = c.get('shape') or c.get('total') or [c.get('n', 1), c.get('rows', 1), c.get('cols', 1)]
        vol = 1
        for d in dims:
            vol *= max(1, int(d))
        return (0 if c.get('exact', True) else 1, vol, len(c.get('request') or {}))
    cands = [f for f in ctx.failures if f.get('site') == site]
    return min(cands, key=size) if cands else failure


def search(ctx, broken):
    """Failing-input search after a broken tie: the same streams with a fresh seed and 3x the budget (the default 10x
    would exceed the time cap of the tier with the repeated-read / round-trip dimensions switched on)."""
    orig = ctx.n
    ctx.n = lambda q, t=None: max(1, orig(q, t) * 3 // 10)
    try:
        run(ctx)
    finally:
        ctx.n = orig
