"""C18  Bulk annotations return the coordinates and measurements stored.

Tie T: T18 (ann/content.py, ann/sop.py decision cores: point-count validation per graphic type, shared-z /
dimensionality decision, decode-side stored dimensionality and split parameter, annotation number guard,
group lookup decision).  Tie C: Model/Ann.lean (flattening, shared-z compaction, LongPrimitivePointIndexList,
splitting, sparse measurements, group lookup) against the real objects: L0 = returned arrays / lists / refusals in
memory and after the written bytes are parsed; L1 = the stored attributes (coordinate values, CommonZCoordinateValue,
index list, FloatingPointValues, AnnotationIndexList) observed through pydicom + numpy only.
Oracle (independent of the model): what comes back equals what went in; malformed input is refused.
"""
from __future__ import annotations

import io
import itertools

import numpy as np

PROP = 'C18'
TARGETS = ['T18', 'T18s']
LEAN_MODULES = ['HdVerif.Props.C18']
MODEL_MODULES = ['HdVerif.Model.Ann']
NAMESPACE = 'HdVerif.C18'
DRIVER = 'Drivers/C18.lean'
RULE = ('objects = 1..4 annotation groups, each (graphic type, 1..9 (tail 40) annotations with type-conforming variable point '
        'counts, 2-D / 3-D with constant, per-annotation-constant or varying z, dtype float32/float64/int/mixed, 0..3 measurement '
        'vectors with NaN patterns none/some/all/first/last, MANUAL or algorithm-identified), built fresh, written (explicit / '
        'implicit VR) and parsed by annread / from_dataset(copy) / AnnotationGroup.from_dataset; one case = one observation of '
        'one group through one path (whole graphic data, every annotation number, measurements, lookups) or one malformed '
        'construction; non-trivial = distinct (type, dim, z class, dtype, n, point-count profile, NaN pattern, path)')
ASSUMPTIONS = [
    'float32/float64 byte encodings are numpy`s (tobytes / frombuffer, little endian); values are opaque cells in the model',
    'integer coordinates are generated below 2^24 in magnitude so that the cast the constructor applies (astype(float32), undocumented, lossy from 2^24) is exact; larger integers are rounded silently and are NOT covered',
    'measurement values are single precision by the IOD (FloatingPointValues is OF): the oracle compares with float32(input)',
    'no negative zero among z coordinates (numpy.unique identifies -0.0 and 0.0; cell equality in the model is identity)',
    'NaN payloads are not distinguished: an absent measurement is any NaN',
    'the caller does not modify, after construction, the arrays it handed to the constructor (a fresh group returns those very arrays: open '
    'finding C18-accessor-hands-out-internals); every ARRAY a parsed object hands out is read-only or a fresh copy and every LIST is a new list '
    '(scribbled over / emptied between reads)',
]
MODELLED_NOT_VERIFIED = ['numpy concatenate/flatten/tobytes/frombuffer/split/unique', 'pydicom writer and reader (OF/OD/OL/FD elements)',
                         'copy.deepcopy', 'SOPClass base constructor and the attribute-table shim']

GTYPES = ['POINT', 'POLYLINE', 'POLYGON', 'ELLIPSE', 'RECTANGLE']
MIN_PTS = {'POINT': 1, 'POLYLINE': 2, 'POLYGON': 3, 'ELLIPSE': 4, 'RECTANGLE': 4}
FIXED = {'POINT': 1, 'ELLIPSE': 4, 'RECTANGLE': 4}
CODES = [  # (value, scheme, meaning)
    ('91723000', 'SCT', 'Anatomical Structure'), ('49755003', 'SCT', 'Morphologically Abnormal Structure'),
    ('4421005', 'SCT', 'Cell'), ('84640000', 'SCT', 'Nucleus'), ('108369006', 'SCT', 'Neoplasm'),
]
MEAS_NAMES = [('42798000', 'SCT', 'Area'), ('81827009', 'SCT', 'Diameter'), ('410668003', 'SCT', 'Length'),
              ('42798000', '99HDV', 'Area')]        # the last one: value of the first under another scheme (a different name)
UNITS = [('um2', 'UCUM', 'square micrometer'), ('um', 'UCUM', 'micrometer')]
FAMILIES = [('123109', 'DCM', 'Manual Processing'), ('123110', 'DCM', 'Artificial Intelligence')]


# ------------------------------------------------------------------ small helpers
def _try(fn, *a, **k):
    try:
        return ('ok', fn(*a, **k))
    except Exception as e:  # noqa: BLE001
        return ('err', type(e).__name__)


def _kind(name):
    return {'IndexError': 'index', 'ValueError': 'value', 'TypeError': 'type', 'RuntimeError': 'runtime',
            'KeyError': 'key', 'AttributeError': 'attribute'}.get(name, 'other')


def _tok(a):
    """exact identity of every float as an integer token: the float64 bit pattern; non-finite values are negative."""
    a = np.asarray(a)
    f = a.astype(np.float64)
    t = f.view(np.uint64).astype(object)
    t = np.where(np.isnan(f), -1, np.where(np.isposinf(f), -2, np.where(np.isneginf(f), -3, t)))
    return t.tolist()


def _same(got, want):
    """bitwise-level sameness of two float arrays after widening (shape, values; NaN == NaN)."""
    got = np.asarray(got)
    want = np.asarray(want)
    return got.shape == want.shape and np.array_equal(got.astype(np.float64), want.astype(np.float64), equal_nan=True)


def _buf(x):
    """pydicom reads a zero-length binary element back as None"""
    return b'' if x is None else x


def _code(t):
    from pydicom.sr.coding import Code
    return Code(*t)


# ------------------------------------------------------------------ generators
def _gen_counts(r, gtype):
    n = r.choice([1, 1, 2, 2, 3, 3, 4, 5, 6, 7, 8, 9]) if r.random() < 0.93 else r.randint(10, 40)
    if gtype in FIXED:
        return [FIXED[gtype]] * n
    lo = MIN_PTS[gtype]
    return [r.choice([lo, lo, lo + 1, lo + 2, lo + 3, lo + 5]) if r.random() < 0.9 else r.randint(lo, 30) for _ in range(n)]


def _neighbour_shape(r, gtype, a, variant):
    """VALID shapes that a refusal rule of a NEIGHBOURING graphic type would refuse: the open-polygon rule does not apply to
    polylines, rectangles or ellipses (closed = last point equals first point in every coordinate); a polygon may repeat its
    first point in the middle or agree with it in all coordinates but one; a polyline may consist of one repeated point."""
    if variant == 'closed' and gtype in ('POLYLINE', 'RECTANGLE', 'ELLIPSE'):
        a[-1] = a[0]
    elif variant == 'degenerate' and gtype == 'POLYLINE':
        a[:] = a[0]
    elif variant == 'almost-closed' and gtype == 'POLYGON':
        a[-1] = a[0]
        a[-1, r.randrange(a.shape[1])] += 1
        if len(a) > 3:
            a[1] = a[0]                      # first point repeated in the middle
    return a


def _gen_coords(r, nr, gtype, counts, dim, zclass, dtype, variant=None):
    arrays = []
    zconst = None
    for i, c in enumerate(counts):
        if dtype in ('i4', 'i8', 'u2', '>i4'):
            hi = 60000 if dtype == 'u2' else 1 << 20
            lo = 0 if dtype == 'u2' else -(1 << 20)
            a = nr.integers(lo, hi, size=(c, dim)).astype({'i4': np.int32, 'i8': np.int64, 'u2': np.uint16, '>i4': '>i4'}[dtype])
        elif dtype == 'f2':
            # half precision: multiples of 1/2 below 512 are exact
            a = (nr.integers(-1000, 1000, size=(c, dim)) / 2.0).astype(np.float16)
        else:
            a = nr.uniform(-5000.0, 5000.0, size=(c, dim))
            if r.random() < 0.3:
                a = np.round(a * 4) / 4          # dyadic values, exact in float32
            dt = {'f4': np.float32, 'f8': np.float64, '>f4': '>f4', '>f8': '>f8'}.get(dtype)
            if dtype == 'mixed':
                dt = np.float32 if i % 2 == 0 else np.float64
            a = a.astype(dt)
        if dim == 3:
            if zclass == 'const':
                if zconst is None:
                    zconst = a[0, 2]
                a[:, 2] = zconst
            elif zclass == 'per-annotation':
                a[:, 2] = a[0, 2]
        if variant and (variant != 'closed-some' or i % 2 == 0):
            a = _neighbour_shape(r, gtype, a, 'closed' if variant == 'closed-some' else variant)
        if gtype == 'POLYGON' and np.array_equal(a[0], a[-1]):
            a[-1, 0] = a[0, 0] + 1
        arrays.append(a)
    if dim == 3 and zclass != 'const':
        # make sure z really varies somewhere
        allz = np.concatenate([a[:, 2].astype(np.float64) for a in arrays])
        if len(np.unique(allz)) == 1:
            if len(allz) == 1:
                zclass = 'const'
            else:
                arrays[-1][-1, 2] = arrays[-1][-1, 2] + 1
                if gtype == 'POLYGON' and np.array_equal(arrays[-1][0], arrays[-1][-1]):
                    arrays[-1][-1, 0] += 1
    # layout variety: Fortran order / strided views must not matter
    if r.random() < 0.2:
        arrays = [np.asfortranarray(a) for a in arrays]
    return arrays, zclass


def _gen_meas(r, nr, n):
    out = []
    for j in range(r.choice([0, 0, 1, 1, 2, 3])):
        pat = r.choice(['none', 'some', 'some', 'first', 'last', 'all'])
        vals = nr.uniform(0.0, 1000.0, size=n)
        if r.random() < 0.5:
            vals = vals.astype(np.float32).astype(np.float64)
        mask = np.zeros(n, bool)
        if pat == 'some':
            mask = nr.random(n) < 0.4
            if n > 1 and not mask.any():
                mask[r.randrange(n)] = True
        elif pat == 'first':
            mask[0] = True
        elif pat == 'last':
            mask[-1] = True
        elif pat == 'all':
            mask[:] = True
        vals = vals.copy()
        vals[mask] = np.nan
        if r.random() < 0.3:
            vals = vals.astype(np.float32)
        elif not mask.any() and r.random() < 0.3:
            vals = np.round(vals).astype(np.int64)       # integer measurement values (no NaN possible)
        # names are drawn with replacement: several vectors may carry the same name (the filter must return all of them, in order)
        out.append({'name': r.choice([j % 3, j % 3, 0, 3, r.randrange(len(MEAS_NAMES))]), 'unit': r.randrange(len(UNITS)), 'values': vals,
                    'pattern': 'none' if not mask.any() else ('all' if mask.all() else pat)})
    return out


def _gen_group(ctx, stream, idx, number, dim):
    r = ctx.rng(stream, idx * 16 + number)
    nr = ctx.np_rng(stream, idx * 16 + number)
    gtype = GTYPES[(idx + number + r.randrange(2)) % 5]
    dtype = r.choice(['f4', 'f4', 'f8', 'f8', 'i4', 'i8', 'u2', 'mixed', 'f2', '>f4', '>f8', '>i4'])
    zclass = r.choice(['const', 'vary', 'per-annotation']) if dim == 3 else '-'
    counts = _gen_counts(r, gtype)
    variant = None
    if r.random() < 0.3:
        variant = {'POLYLINE': r.choice(['closed', 'closed', 'closed-some', 'degenerate']), 'RECTANGLE': r.choice(['closed', 'closed-some']),
                   'ELLIPSE': r.choice(['closed', 'closed-some']), 'POLYGON': 'almost-closed'}.get(gtype)
    coords, zclass = _gen_coords(r, nr, gtype, counts, dim, zclass, dtype, variant)
    manual = r.random() < 0.5
    spec = {
        'number': number, 'uid': f'1.2.826.0.1.3680043.10.511.3.{idx}.{number}.{r.randrange(10 ** 6)}',
        'label': r.choice(['nuclei', 'cells', 'tumor', 'nuclei']) + ('' if r.random() < 0.6 else str(number)),
        'gtype': gtype, 'dim': dim, 'zclass': zclass, 'dtype': dtype, 'counts': counts, 'coords': coords,
        'category': r.randrange(2), 'ptype': 2 + r.randrange(3),
        'algorithm_type': 'MANUAL' if manual else r.choice(['AUTOMATIC', 'SEMIAUTOMATIC']),
        'alg': None if (manual and r.random() < 0.7) else (r.choice(['algoA', 'algoB']), r.choice(['1.0', '2.0']), r.randrange(2)),
        'meas': _gen_meas(r, nr, len(counts)),
        'description': None if r.random() < 0.5 else 'd',
        'variant': variant or '-',
    }
    return spec


def _build_group(spec, measurements='spec', graphic_data=None, graphic_type=None, number=None):
    import highdicom as hd
    from highdicom.ann import AnnotationGroup, Measurements
    meas = None
    if measurements == 'spec':
        if spec['meas']:
            meas = [Measurements(_code(MEAS_NAMES[m['name']]), m['values'], _code(UNITS[m['unit']])) for m in spec['meas']]
    else:
        meas = measurements
    alg = None
    if spec['alg'] is not None:
        alg = hd.AlgorithmIdentificationSequence(name=spec['alg'][0], version=spec['alg'][1], family=_code(FAMILIES[spec['alg'][2]]))
    return AnnotationGroup(
        number=spec['number'] if number is None else number, uid=spec['uid'], label=spec['label'],
        annotated_property_category=_code(CODES[spec['category']]), annotated_property_type=_code(CODES[spec['ptype']]),
        graphic_type=spec['gtype'] if graphic_type is None else graphic_type,
        graphic_data=spec['coords'] if graphic_data is None else graphic_data,
        algorithm_type=spec['algorithm_type'], algorithm_identification=alg, measurements=meas, description=spec['description'])


_SRC = {}


def _source():
    if 'img' not in _SRC:
        from gen.sources import slide_image
        _SRC['img'] = slide_image(8, 8, 4, 4)[0]
    return _SRC['img']


def _build_sop(groups, ct, ts=None):
    import highdicom as hd
    from highdicom.ann import MicroscopyBulkSimpleAnnotations
    from pydicom.uid import ExplicitVRLittleEndian
    return MicroscopyBulkSimpleAnnotations(
        source_images=[_source()], annotation_coordinate_type=ct, annotation_groups=groups,
        series_instance_uid=hd.UID(), series_number=1, sop_instance_uid=hd.UID(), instance_number=1,
        manufacturer='verif', manufacturer_model_name='harness', software_versions='0', device_serial_number='1',
        transfer_syntax_uid=ts or ExplicitVRLittleEndian)


# ------------------------------------------------------------------ expectations (from construction parameters only)
def _expected_arrays(spec):
    """what must come back: the inputs, integers after the constructor's cast to float32; dtype of the parsed arrays."""
    kinds = {a.dtype.kind for a in spec['coords']}
    if kinds <= {'i', 'u'}:
        return [a.astype(np.float32) for a in spec['coords']], np.float32
    dt = np.result_type(*[a.dtype for a in spec['coords']])
    # values are what counts (byte order and half precision are representation); parsed arrays are float64 iff the input is
    return [np.ascontiguousarray(a) for a in spec['coords']], (np.float64 if np.dtype(dt).itemsize == 8 else np.float32)


def _standard_decode(item, ct):
    """Independent reading of one Annotation Group Sequence item the way a third party would (PS3.3 C.37.1.2):
    returns (list of per-annotation arrays, dtype)."""
    if 'DoublePointCoordinatesData' in item:
        vals = np.frombuffer(item.DoublePointCoordinatesData, '<f8')
        dt = np.float64
    else:
        vals = np.frombuffer(item.PointCoordinatesData, '<f4')
        dt = np.float32
    dim = 2 if ct == '2D' else 3
    stored = 2 if 'CommonZCoordinateValue' in item else dim
    pts = vals.reshape(-1, stored)
    if 'CommonZCoordinateValue' in item:
        z = np.full((len(pts), 1), float(item.CommonZCoordinateValue), dt)
        pts = np.concatenate([pts, z], axis=1)
    n = int(item.NumberOfAnnotations)
    gt = item.GraphicType
    if gt in FIXED:
        k = FIXED[gt]
        if len(pts) != n * k:
            raise ValueError('number of points does not match NumberOfAnnotations')
        return [pts[i * k:(i + 1) * k] for i in range(n)], dt
    idx = np.frombuffer(item.LongPrimitivePointIndexList, '<i4').astype(np.int64)
    if len(idx) != n:
        raise ValueError('index list length does not match NumberOfAnnotations')
    starts = (idx - 1)
    if (starts % stored).any():
        raise ValueError('index list entry not at a point boundary')
    starts = list(starts // stored) + [len(pts)]
    return [pts[starts[i]:starts[i + 1]] for i in range(n)], dt


def _expected_meas(spec):
    return [np.asarray(m['values']).astype(np.float32) for m in spec['meas']]


def _scribble(res):
    """the caller edits what it was given in place (every array it is ALLOWED to write to); returns how many arrays took the edit"""
    n = 0
    for a in (res if isinstance(res, (list, tuple)) else [res]):
        if isinstance(a, np.ndarray) and a.size and a.flags.writeable:
            try:
                a[...] = a.dtype.type(-777)
                n += 1
            except Exception:  # noqa: BLE001
                pass
    if isinstance(res, list):
        del res[:]              # ... and empties the list it was given
    return n


# ------------------------------------------------------------------ observations on one group through one path
def _histories(ctx, spec, g, path, ct, reqs, pending, case):
    """call-order histories on copies of a parsed group that has NOT been decoded yet: per-annotation access first (last,
    first, middle, then every number), then the whole group, then per-annotation again; outside numbers in between;
    measurement accessors in both orders.  Everything is compared with the stored input and with the model's history."""
    from copy import deepcopy
    want, _ = _expected_arrays(spec)
    n = len(want)
    wm = _expected_meas(spec)
    r = ctx.rng('hist', hash((case.get('idx', 0), case.get('gidx', 0), spec['number'], path)) % (1 << 30))
    ks = [n, 1, (n + 1) // 2] + ([k for k in range(1, n + 1)] if n <= 8 else r.sample(range(1, n + 1), 6))
    other = '3D' if ct == '2D' else '2D'
    orders = {
        'nth-first': [('nth', k) for k in ks] + [('whole',)] + [('nth', n), ('nth', 1)],
        'outside-first': [('nth', 0), ('nth', n + 1), ('nth', n), ('whole',), ('nth', n)],
        'last-only': [('nth', n)],
        # the other coordinate type first (open finding C18-wrong-coordinate-type), then the group's own
        'wrong-type-first': [('whole', other), ('whole',), ('nth', 1)],
        'wrong-type-nth': [('nth', 1, other), ('nth', n), ('whole',)],
        'wrong-type-last': [('whole',), ('whole', other), ('nth', 1, other), ('whole',)],
    }
    if n > 1:
        orders['shuffled'] = [('nth', k) for k in r.sample(range(1, n + 1), min(n, 5))] + [('whole',)]
    if path not in ('annread', 'group.from_dataset') and ctx.tier == 'quick':
        # quick tier: the other parsing paths run the three orders that distinguish them (thorough: all)
        orders = {k: orders[k] for k in ('nth-first', 'wrong-type-first', 'wrong-type-last')}
    sv = None
    for oname, acc in orders.items():
        d = deepcopy(g)
        if len(getattr(d, '_graphic_data', {})) != 0:
            ctx.note('history: group already decoded, skipped')
            return
        if sv is None:
            st0, sv = _try(_stored_view, d)
            if st0 != 'ok':
                return
        impl = []
        # a group read through its instance knows its coordinate type (handed down by the SOP class), one parsed on its own
        # only when it stores a common z (3-D only): everywhere else the wrong type must be refused without side effect; the
        # remaining region (parsed on its own, no common z) is the open finding C18-wrong-coordinate-type
        standalone = path == 'group.from_dataset'
        unknown_type = standalone and 'CommonZCoordinateValue' not in d
        wsite = ('history-wrong-type' if unknown_type else 'history-wrong-type-known') if oname.startswith('wrong-type') else 'history'
        real_fail = ctx.fail

        def fail(c, detail, site=None):
            # failures of the open finding are counted but only a dozen are kept, so that they cannot crowd out others
            if site and site.startswith('history-wrong-type/'):
                ctx.hist('known_finding_failures', 'C18-wrong-coordinate-type')
                ctx._wt = getattr(ctx, '_wt', 0) + 1
                if ctx._wt > 12:
                    return
            real_fail(c, detail, site=site)
        seen_wrong = False
        base_wsite = wsite
        for a in acc:
            # only a failure AT or AFTER the first access with the other coordinate type can belong to the open finding
            a_act = a[-1] if a[-1] in ('2D', '3D') else ct
            wsite = base_wsite if (seen_wrong or a_act != ct) else 'history'
            seen_wrong = seen_wrong or a_act != ct
            c2 = dict(case, what='history', order=oname, access=list(a))
            ctx.case(path=path + '/history', history=oname, nontrivial_key=('hist', oname, spec['gtype'], spec['zclass'], min(n, 6), path),
                     history_type_known=('own parse, unknown' if unknown_type else 'own parse, common z' if standalone else 'via instance'))
            act = a[-1] if a[-1] in ('2D', '3D') else ct
            if act != ct:
                # the other coordinate type must be refused (and must not change what later accesses return)
                st, res = _try(d.get_graphic_data, act) if a[0] == 'whole' else _try(d.get_coordinates, a[1], act)
                if st == 'ok':
                    fail(c2, f'access with coordinate type {act} on {ct} data accepted on a parsed group', site=f'{wsite}/{path}')
                if a[0] == 'whole':
                    impl.append(['ok', [[_tok(row) for row in np.asarray(x)] for x in res]] if st == 'ok' else ['err', _kind(res)])
                else:
                    impl.append(['ok', [_tok(row) for row in np.asarray(res)]] if st == 'ok' else ['err', _kind(res)])
                continue
            if a[0] == 'whole':
                st, res = _try(d.get_graphic_data, ct)
                if st != 'ok' or len(res) != n or any(not _same(x, w) for x, w in zip(res, want)):
                    fail(c2, f'whole-group access after {oname} differs from the stored input ({res if st != "ok" else ""})',
                             site=f'{wsite}/{path}')
                impl.append(['ok', [[_tok(row) for row in np.asarray(x)] for x in res]] if st == 'ok' else ['err', _kind(res)])
                if st == 'ok':
                    ctx.hist('scribbled_arrays', 'get_graphic_data', _scribble(res))
            else:
                k = a[1]
                st, res = _try(d.get_coordinates, k, ct)
                if 1 <= k <= n:
                    if st != 'ok' or not _same(res, want[k - 1]):
                        fail(c2, {'what': f'annotation {k} of {n} read first on a freshly parsed group ({oname})',
                                      'got': res if st != 'ok' else np.asarray(res).tolist(), 'want': want[k - 1].tolist()},
                                 site=f'{wsite}/{path}')
                elif st == 'ok':
                    fail(c2, f'annotation number {k} outside 1..{n} accepted on a freshly parsed group', site=f'history/{path}')
                impl.append(['ok', [_tok(row) for row in np.asarray(res)]] if st == 'ok' else ['err', _kind(res)])
                if st == 'ok':
                    ctx.hist('scribbled_arrays', 'get_coordinates', _scribble(res))
        reqs.append(('history', {'gtype': spec['gtype'], 'enc': sv, 'ct': ct, 'via': None if standalone else ct,
                                 'accesses': [['whole', a[-1] if a[-1] in ('2D', '3D') else ct] if a[0] == 'whole' else
                                              ['nth', a[1], a[-1] if a[-1] in ('2D', '3D') else ct] for a in acc]}))
        pending.append((dict(case, what='history', order=oname), ('ok', impl)))
    # measurement accessors: by name first, then all; per item get_values first, then the matrix
    if spec['meas']:
        for oname in ('name-first', 'values-first'):
            d = deepcopy(g)
            c2 = dict(case, what='history-meas', order=oname)
            ctx.case(path=path + '/history-meas', history=oname)
            ok = True
            if oname == 'name-first':
                for t in range(len(MEAS_NAMES)):
                    st, res = _try(d.get_measurements, _code(MEAS_NAMES[t]))
                    sel = [j for j, m in enumerate(spec['meas']) if m['name'] == t]
                    ok &= st == 'ok' and np.asarray(res[1]).shape == (n, len(sel)) and \
                        all(_same(np.asarray(res[1])[:, q], wm[j]) for q, j in enumerate(sel))
                    if st == 'ok':
                        ctx.hist('scribbled_arrays', 'get_measurements', _scribble(res[1]))
            else:
                for j, ms in enumerate(d.MeasurementsSequence):
                    st, v = _try(ms.get_values, n)
                    ok &= st == 'ok' and _same(v, wm[j])
                    if st == 'ok':
                        ctx.hist('scribbled_arrays', 'get_values', _scribble(v))
            st, res = _try(d.get_measurements)
            ok &= st == 'ok' and np.asarray(res[1]).shape == (n, len(wm)) and all(_same(np.asarray(res[1])[:, j], w) for j, w in enumerate(wm))
            st2, gd = _try(d.get_graphic_data, ct)
            ok &= st2 == 'ok' and len(gd) == n and all(_same(x, w) for x, w in zip(gd, want))
            if not ok:
                ctx.fail(c2, 'measurement accessors in this order (on a freshly parsed group) differ from the stored input',
                         site=f'history-meas/{path}')


def _observe_group(ctx, spec, g, path, ct, reqs, pending, base):
    """g: AnnotationGroup (fresh or parsed).  Oracle on graphic data, per-annotation access and measurements."""
    want, want_dt = _expected_arrays(spec)
    n = len(want)
    case = dict(base, path=path, group=spec['number'])
    if not path.startswith('fresh'):
        hist_model = path in ('annread', 'group.from_dataset')
        _histories(ctx, spec, g, path, ct, reqs if hist_model else [], pending if hist_model else [], case)
    prof = (min(spec['counts']), max(spec['counts']))
    key = (spec['gtype'], spec['dim'], spec['zclass'], spec['dtype'], min(n, 10), prof, path)
    ctx.case(sample=dict(case, gtype=spec['gtype'], counts=spec['counts'][:8], dtype=spec['dtype'], zclass=spec['zclass'])
             if ctx.evaluations % 211 == 0 else None, nontrivial_key=key,
             gtype=spec['gtype'], dim=f"{spec['dim']}D/{spec['zclass']}", dtype=spec['dtype'], path=path,
             shape_variant=f"{spec['gtype']}/{spec.get('variant', '-')}",
             n_annotations=(n if n < 10 else '10+'))
    st, gd = _try(g.get_graphic_data, ct)
    if st != 'ok':
        ctx.fail(case, f'get_graphic_data refused: {gd}', site=f'get_graphic_data/{path}')
        return
    if len(gd) != n:
        ctx.fail(case, f'{len(gd)} annotations returned, {n} stored', site=f'get_graphic_data/{path}')
    else:
        for i, (a, w) in enumerate(zip(gd, want)):
            if not _same(a, w):
                ctx.fail(dict(case, annotation=i + 1), {'got': np.asarray(a).tolist(), 'want': w.tolist()}, site=f'get_graphic_data/{path}')
                break
            if not path.startswith('fresh') and np.asarray(a).dtype != want_dt:
                ctx.fail(dict(case, annotation=i + 1), f'dtype {np.asarray(a).dtype} returned for {np.dtype(want_dt)} input',
                         site=f'get_graphic_data/{path}')
                break
    st, na = _try(lambda: g.number_of_annotations)
    if st != 'ok' or na != n:
        ctx.fail(case, f'number_of_annotations = {na}, stored {n}', site=f'number_of_annotations/{path}')
    # per annotation number (all of them when small, a sample otherwise) and numbers outside
    ks = list(range(1, n + 1)) if n <= 12 else sorted({1, 2, n // 2, n - 1, n})
    for k in ks:
        st, a = _try(g.get_coordinates, k, ct)
        ctx.case(path=path + '/get_coordinates')
        if st != 'ok':
            ctx.fail(dict(case, annotation=k), f'get_coordinates refused: {a}', site=f'get_coordinates/{path}')
        elif not _same(a, want[k - 1]):
            ctx.fail(dict(case, annotation=k), {'got': np.asarray(a).tolist(), 'want': want[k - 1].tolist()}, site=f'get_coordinates/{path}')
    for k in (0, -1, n + 1):
        st, a = _try(g.get_coordinates, k, ct)
        ctx.case(path=path + '/get_coordinates-outside')
        if st == 'ok':
            ctx.fail(dict(case, annotation=k), 'annotation number outside 1..n accepted', site=f'get_coordinates/{path}')
    # measurements
    wm = _expected_meas(spec)
    st, res = _try(g.get_measurements)
    if st != 'ok':
        ctx.fail(case, f'get_measurements refused: {res}', site=f'get_measurements/{path}')
    else:
        names, vals, units = res
        vals = np.asarray(vals)
        if vals.shape != (n, len(wm)) or len(names) != len(wm) or len(units) != len(wm):
            ctx.fail(case, f'measurement matrix has shape {vals.shape}, expected {(n, len(wm))}', site=f'get_measurements/{path}')
        else:
            for j, (m, w) in enumerate(zip(spec['meas'], wm)):
                ctx.case(path=path + '/measurement', nan_pattern=m['pattern'],
                         nontrivial_key=('meas', m['pattern'], min(n, 10), path))
                if not _same(vals[:, j], w):
                    ctx.fail(dict(case, measurement=j), {'got': vals[:, j].tolist(), 'want': w.tolist()}, site=f'get_measurements/{path}')
                if not (names[j] == _code(MEAS_NAMES[m['name']])) or not (units[j] == _code(UNITS[m['unit']])):
                    ctx.fail(dict(case, measurement=j), 'name / unit of a measurement not returned', site=f'get_measurements/{path}')
            # filter by name: exactly the vectors with that name, in order
            for t in range(len(MEAS_NAMES)):
                # the name is asked for as a pydicom Code or as a CodedConcept under ANOTHER meaning (names are codes: C17)
                if (t + n) % 2:
                    from highdicom.sr.coding import CodedConcept
                    q = CodedConcept(MEAS_NAMES[t][0], MEAS_NAMES[t][1], 'asked under another meaning')
                else:
                    q = _code(MEAS_NAMES[t])
                st2, res2 = _try(g.get_measurements, q)
                sel = [j for j, m in enumerate(spec['meas']) if m['name'] == t]
                ctx.case(path=path + '/measurement-filter', meas_filter_hits=min(len(sel), 3))
                if st2 != 'ok':
                    ctx.fail(dict(case, name=t), f'get_measurements(name) refused: {res2}', site=f'get_measurements/{path}')
                    continue
                v2 = np.asarray(res2[1])
                if v2.shape != (n, len(sel)) or any(not _same(v2[:, q], wm[j]) for q, j in enumerate(sel)):
                    ctx.fail(dict(case, name=t), 'measurements filtered by name differ from the stored vectors of that name',
                             site=f'get_measurements/{path}')
    # model: L0 decode of what is stored + L1 stored attributes
    _model_group(ctx, spec, g, path, ct, reqs, pending, case)
    if path == 'annread' and spec['gtype'] in ('POLYLINE', 'POLYGON'):
        _corrupt_index_list(ctx, spec, g, ct, reqs, pending, case)


def _corrupt_index_list(ctx, spec, g, ct, reqs, pending, case):
    """a parsed group whose LongPrimitivePointIndexList is damaged must refuse to return graphic data"""
    from copy import deepcopy
    il = np.frombuffer(g.LongPrimitivePointIndexList, '<i4').astype(np.int64)
    n = len(il)
    sv = _stored_view(g)
    stored = 2 if (sv['commonZ'] is not None or ct == '2D') else 3
    total = len(sv['coords'])
    variants = {'first-not-one': il + stored, 'entry-zero': np.where(np.arange(n) == n - 1, 0, il),
                'off-boundary': np.where(np.arange(n) == n // 2, il + 1, il), 'last-beyond': np.append(il[:-1], total + 1),
                'empty': il[:0], 'negative': np.where(np.arange(n) == n - 1, -il, il)}
    if n >= 2:
        sw = il.copy()
        sw[0 if n == 2 else 1], sw[-1] = il[-1], il[0 if n == 2 else 1]
        variants['not-increasing'] = sw
        dup = il.copy()
        dup[-1] = il[-2]
        variants['duplicate'] = dup
    for name, bad in variants.items():
        if np.array_equal(bad, il):
            continue
        d = deepcopy(g)
        d.LongPrimitivePointIndexList = bad.astype('<i4').tobytes()
        d._graphic_data = {}
        st, res = _try(d.get_graphic_data, ct)
        c2 = dict(case, what='corrupt-index-list', variant=name, index_list=bad.tolist())
        ctx.case(path='annread/corrupt-index-list', corrupt_variant=name, nontrivial_key=('corrupt', name, stored, min(n, 5)))
        if st == 'ok':
            ctx.fail(c2, f'corrupted index list {bad.tolist()[:8]} (valid {il.tolist()[:8]}) accepted; annotations of '
                         f'{[len(a) for a in res][:8]} points returned', site='corrupt-index-list')
        reqs.append(('decode', {'gtype': spec['gtype'], 'enc': dict(sv, indexList=bad.tolist()), 'ct': ct}))
        pending.append((c2, ('ok', [[_tok(row) for row in np.asarray(a)] for a in res]) if st == 'ok' else ('err', _kind(res))))


def _stored_view(item):
    """L1: the stored attributes as a third party sees them (tokens / ints)."""
    if 'DoublePointCoordinatesData' in item:
        vals = np.frombuffer(item.DoublePointCoordinatesData, '<f8')
        dbl = True
    else:
        vals = np.frombuffer(item.PointCoordinatesData, '<f4')
        dbl = False
    out = {'coords': _tok(vals), 'double': dbl,
           'commonZ': _tok([float(item.CommonZCoordinateValue)])[0] if 'CommonZCoordinateValue' in item else None,
           'indexList': np.frombuffer(item.LongPrimitivePointIndexList, '<i4').tolist() if 'LongPrimitivePointIndexList' in item else None,
           'numAnn': int(item.NumberOfAnnotations), 'both': 'DoublePointCoordinatesData' in item and 'PointCoordinatesData' in item}
    return out


def _model_group(ctx, spec, g, path, ct, reqs, pending, case):
    want, want_dt = _expected_arrays(spec)
    gd_tok = [[_tok(row) for row in a] for a in want]
    if path == 'fresh':
        margs = _model_args(spec['gtype'], spec['coords'], [m['values'] for m in spec['meas']])
        reqs.append(('construct', margs))
        pending.append((dict(case, what='construct'), ('ok', None)))
        # L1: the attributes written by the constructor are the model's encoding of the input
        reqs.append(('encode', {'gtype': spec['gtype'], 'gd': gd_tok, 'double': want_dt is np.float64}))
        st, sv = _try(_stored_view, g)
        pending.append((dict(case, what='encode', layer='L1'), ('ok', sv) if st == 'ok' else ('err', 'other')))
        for j, m in enumerate(spec['meas']):
            v32 = np.asarray(m['values']).astype(np.float32)
            reqs.append(('encodeMeas', {'values': [None if np.isnan(x) else t for x, t in zip(v32, _tok(v32))]}))
            it = g.MeasurementsSequence[j].MeasurementValuesSequence[0]
            pending.append((dict(case, what='encodeMeas', measurement=j, layer='L1'),
                            ('ok', {'values': _tok(np.frombuffer(_buf(it.FloatingPointValues), '<f4')),
                                    'indices': np.frombuffer(_buf(it.AnnotationIndexList), '<i4').tolist() if 'AnnotationIndexList' in it else None})))
    else:
        # L0: decoding what is stored, whole and per annotation number
        st, sv = _try(_stored_view, g)
        if st != 'ok':
            return
        n = sv['numAnn']
        reqs.append(('decode', {'gtype': spec['gtype'], 'enc': sv, 'ct': ct}))
        stg, gd = _try(g.get_graphic_data, ct)
        pending.append((dict(case, what='decode'), ('ok', [[_tok(row) for row in np.asarray(a)] for a in gd]) if stg == 'ok' else ('err', _kind(gd))))
        for k in (0, 1, n, n + 1):
            reqs.append(('coordinates', {'gtype': spec['gtype'], 'enc': sv, 'ct': ct, 'k': k}))
            stc, a = _try(g.get_coordinates, k, ct)
            pending.append((dict(case, what='coordinates', annotation=k),
                            ('ok', [_tok(row) for row in np.asarray(a)]) if stc == 'ok' else ('err', _kind(a))))
        if 'MeasurementsSequence' in g:
            items = []
            for j, ms in enumerate(g.MeasurementsSequence):
                it = ms.MeasurementValuesSequence[0]
                items.append({'name': spec['meas'][j]['name'] if j < len(spec['meas']) else 99,
                              'values': _tok(np.frombuffer(_buf(it.FloatingPointValues), '<f4')),
                              'indices': np.frombuffer(_buf(it.AnnotationIndexList), '<i4').tolist() if 'AnnotationIndexList' in it else None})
            for name in [None] + list(range(len(MEAS_NAMES))):
                reqs.append(('getMeasurements', {'items': items, 'n': n, 'name': name}))
                stm, res = _try(g.get_measurements, None if name is None else _code(MEAS_NAMES[name]))
                if stm == 'ok':
                    cols = np.asarray(res[1]).T
                    impl = ('ok', [[None if np.isnan(x) else t for x, t in zip(col, _tok(col))] for col in cols])
                else:
                    impl = ('err', _kind(res))
                pending.append((dict(case, what='getMeasurements', name=name), impl))
                if name in (None, 0):
                    # the value array itself, row by row (n rows also when no item matches)
                    reqs.append(('getMeasurementMatrix', {'items': items, 'n': n, 'name': name}))
                    if stm == 'ok':
                        arr = np.asarray(res[1])
                        rows = [[None if np.isnan(x) else t for x, t in zip(row, _tok(row))] for row in arr] if arr.ndim == 2 else 'not 2-D'
                        pending.append((dict(case, what='getMeasurementMatrix', name=name), ('ok', rows)))
                    else:
                        pending.append((dict(case, what='getMeasurementMatrix', name=name), ('err', _kind(res))))
            for j, ms in enumerate(g.MeasurementsSequence):
                it = ms.MeasurementValuesSequence[0]
                reqs.append(('decodeMeas', {'values': _tok(np.frombuffer(_buf(it.FloatingPointValues), '<f4')),
                                            'indices': np.frombuffer(_buf(it.AnnotationIndexList), '<i4').tolist() if 'AnnotationIndexList' in it else None,
                                            'n': n}))
                stv, v = _try(ms.get_values, n)
                pending.append((dict(case, what='decodeMeas', measurement=j),
                                ('ok', [None if np.isnan(x) else t for x, t in zip(v, _tok(v))]) if stv == 'ok' else ('err', _kind(v))))
                # repeated reads of ONE item with different arguments (n, n + 2, n - 1, n again), writing into every array
                # that came back: each answer must be what a first read with that argument gives (no memo, no aliasing)
                if j < len(spec['meas']) and (ctx.evaluations + j) % 3 == 0:
                    v32 = np.asarray(spec['meas'][j]['values']).astype(np.float32)
                    present = np.where(~np.isnan(v32))[0]
                    for step, m in enumerate((n, n + 2, max(n - 1, 0), n)):
                        stv, v = _try(ms.get_values, m)
                        if len(present) == len(v32):
                            want = v32 if m == n else None
                        elif len(present) and present.max() >= m:
                            want = None
                        else:
                            want = np.full(m, np.nan, np.float32)
                            want[present] = v32[present]
                        ctx.case(path=path + '/meas-history', meas_history_arg=('n', 'n+2', 'n-1', 'n again')[step],
                                 meas_history_expect=('refused' if want is None else 'values'))
                        if (stv == 'ok') != (want is not None) or (want is not None and not _same(v, want)):
                            ctx.fail(dict(case, what='meas-history', measurement=j, step=step, n_arg=m),
                                     f'get_values({m}) as call {step + 1} on one Measurements item of {n} annotations: '
                                     f'{"values" if stv == "ok" else v}, a first read gives {"a refusal" if want is None else "other values"}',
                                     site=f'meas-history/{path}')
                        reqs.append(('decodeMeas', {'values': _tok(np.frombuffer(_buf(it.FloatingPointValues), '<f4')),
                                                    'indices': np.frombuffer(_buf(it.AnnotationIndexList), '<i4').tolist() if 'AnnotationIndexList' in it else None,
                                                    'n': m}))
                        pending.append((dict(case, what='decodeMeas', measurement=j, step=step),
                                        ('ok', [None if np.isnan(x) else t for x, t in zip(v, _tok(v))]) if stv == 'ok' else ('err', _kind(v))))
                        if stv == 'ok' and len(v) and v.flags.writeable:
                            v[:] = np.float32(-12345.0)


# ------------------------------------------------------------------ interleaved reads of the groups of one instance
def _instance_history(ctx, specs, inst, ct, base, r, reqs, pending):
    """inst: a freshly parsed instance nobody has read yet.  Whole-group and per-annotation accesses to its groups in a random
    interleaving, own and other coordinate type: every answer must be what the stored input says (the other type: refused),
    whatever was read before from this or from another group."""
    groups = list(inst.AnnotationGroupSequence)
    if len(groups) != len(specs):
        return
    svs = []
    for g in groups:
        st, sv = _try(_stored_view, g)
        if st != 'ok':
            return
        svs.append(sv)
    other = '3D' if ct == '2D' else '2D'
    accs, impl = [], []
    bad = None
    for step in range(r.choice([4, 8, 12])):
        gi = r.randrange(len(groups))
        want, _ = _expected_arrays(specs[gi])
        n = len(want)
        act = other if r.random() < 0.2 else ct
        g = groups[gi] if r.random() < 0.5 else inst.get_annotation_group(number=specs[gi]['number'])
        if r.random() < 0.4:
            accs.append([gi, 'whole', act])
            st, res = _try(g.get_graphic_data, act)
            good = (st != 'ok') if act != ct else (st == 'ok' and len(res) == n and all(_same(x, w) for x, w in zip(res, want)))
            impl.append(['ok', [[_tok(row) for row in np.asarray(x)] for x in res]] if st == 'ok' else ['err', _kind(res)])
            if st == 'ok':
                _scribble(res)
        else:
            k = r.choice([0, 1, n, n + 1, r.randint(1, max(n, 1))])
            accs.append([gi, 'nth', k, act])
            st, res = _try(g.get_coordinates, k, act)
            if act != ct or not 1 <= k <= n:
                good = st != 'ok'
            else:
                good = st == 'ok' and _same(res, want[k - 1])
            impl.append(['ok', [_tok(row) for row in np.asarray(res)]] if st == 'ok' else ['err', _kind(res)])
            if st == 'ok':
                _scribble(res)
        if not good and bad is None:
            bad = (step, accs[-1])
    case = dict(base, what='instance-history', accesses=accs)
    ctx.case(path='annread/instance-history', instance_history_groups=len(groups), instance_history_len=len(accs),
             nontrivial_key=('inst-hist', len(groups), len(accs), tuple(a[1] for a in accs[:4])))
    if bad is not None:
        ctx.fail(case, f'access {bad[0] + 1} of an interleaved history on one parsed instance ({bad[1]}) does not give what the stored input '
                       f'says (own type: the data / refusal of an outside number; other type: refusal)', site='instance-history/annread')
    reqs.append(('instHistory', {'via': ct, 'groups': [{'gtype': s['gtype'], 'enc': sv} for s, sv in zip(specs, svs)], 'accesses': accs}))
    pending.append((dict(case, what='history', order='instance'), ('ok', impl)))


# ------------------------------------------------------------------ group lookup
def _matches(spec, f):
    """declarative predicate over the construction parameters"""
    if 'category' in f and f['category'] != spec['category']:
        return False
    if 'ptype' in f and f['ptype'] != spec['ptype']:
        return False
    if 'label' in f and f['label'] != spec['label']:
        return False
    if 'gtype' in f and f['gtype'] != spec['gtype']:
        return False
    if 'algorithm_type' in f and f['algorithm_type'] != spec['algorithm_type']:
        return False
    for k, pos in (('algorithm_name', 0), ('algorithm_version', 1), ('algorithm_family', 2)):
        if k in f:
            stored = _stored_alg(spec)
            if stored is None or stored[pos] != f[k]:
                return False
    return True


def _stored_alg(spec):
    """algorithm identification is only stored for non-MANUAL groups"""
    return spec['alg'] if spec['algorithm_type'] != 'MANUAL' else None


def _filter_kwargs(f):
    kw = {}
    if 'category' in f:
        kw['annotated_property_category'] = _code(CODES[f['category']])
    if 'ptype' in f:
        from highdicom.sr.coding import CodedConcept
        kw['annotated_property_type'] = CodedConcept(*CODES[f['ptype']][:2], 'another meaning')
    for k in ('label', 'algorithm_type', 'algorithm_name', 'algorithm_version'):
        if k in f:
            kw[k] = f[k]
    if 'gtype' in f:
        kw['graphic_type'] = f['gtype']
    if 'algorithm_family' in f:
        kw['algorithm_family'] = _code(FAMILIES[f['algorithm_family']])
    return kw


def _gen_filters(r, specs):
    out = [{}]
    for _ in range(6):
        f = {}
        s = r.choice(specs)
        for k in ('category', 'ptype', 'label', 'gtype', 'algorithm_type'):
            if r.random() < 0.35:
                f[k] = s[k] if r.random() < 0.75 else {'category': 1 - s['category'], 'ptype': 2 + (s['ptype'] - 1) % 3,
                                                       'label': s['label'] + 'x', 'gtype': GTYPES[(GTYPES.index(s['gtype']) + 1) % 5],
                                                       'algorithm_type': 'AUTOMATIC' if s['algorithm_type'] != 'AUTOMATIC' else 'MANUAL'}[k]
        if r.random() < 0.4:
            alg = _stored_alg(s) or ('algoA', '1.0', 0)
            k = r.choice(['algorithm_name', 'algorithm_version', 'algorithm_family'])
            pos = ['algorithm_name', 'algorithm_version', 'algorithm_family'].index(k)
            f[k] = alg[pos] if r.random() < 0.7 else {'algorithm_name': 'none', 'algorithm_version': '9', 'algorithm_family': 1 - alg[2]}[k]
        out.append(f)
    return out


def _observe_lookup(ctx, specs, ann, path, base, r, reqs, pending):
    n = len(specs)
    uids = [s['uid'] for s in specs]
    mgroups = [{'number': s['number'], 'uid': s['uid'], 'label': s['label'], 'category': s['category'], 'ptype': s['ptype'],
                'gtype': s['gtype'], 'algorithm_type': s['algorithm_type'],
                'alg': None if _stored_alg(s) is None else [s['alg'][0], s['alg'][1], s['alg'][2]]} for s in specs]
    for k in range(-1, n + 2):
        st, g = _try(ann.get_annotation_group, number=k)
        ctx.case(path=path + '/lookup-number', nontrivial_key=('lookup-number', n, k, path) if 1 <= k <= n else None)
        case = dict(base, path=path, lookup={'number': k})
        if 1 <= k <= n:
            if st != 'ok' or int(g.AnnotationGroupNumber) != k or str(g.AnnotationGroupUID) != uids[k - 1]:
                ctx.fail(case, f'group number {k} not found / wrong group ({g if st != "ok" else g.AnnotationGroupNumber})', site='get_annotation_group')
        elif st == 'ok':
            ctx.fail(case, 'non-existent group number found', site='get_annotation_group')
        reqs.append(('getGroup', {'groups': mgroups, 'number': k, 'uid': None}))
        pending.append((dict(case, what='getGroup'), ('ok', int(g.AnnotationGroupNumber)) if st == 'ok' else ('err', _kind(g))))
    for k, u in list(enumerate(uids, 1)) + [(0, '1.2.3.4'), (0, uids[0] + '.1'), (0, uids[0][:-1])]:
        st, g = _try(ann.get_annotation_group, uid=u)
        ctx.case(path=path + '/lookup-uid')
        case = dict(base, path=path, lookup={'uid': u})
        if k:
            if st != 'ok' or int(g.AnnotationGroupNumber) != k:
                ctx.fail(case, 'group uid not found / wrong group', site='get_annotation_group')
        elif st == 'ok':
            ctx.fail(case, 'unknown uid found', site='get_annotation_group')
        reqs.append(('getGroup', {'groups': mgroups, 'number': None, 'uid': u}))
        pending.append((dict(case, what='getGroup'), ('ok', int(g.AnnotationGroupNumber)) if st == 'ok' else ('err', _kind(g))))
    st, g = _try(ann.get_annotation_group)
    if st == 'ok':
        ctx.fail(dict(base, path=path, lookup={}), 'lookup without number and uid succeeded', site='get_annotation_group')
    reqs.append(('getGroup', {'groups': mgroups, 'number': None, 'uid': None}))
    pending.append((dict(base, path=path, what='getGroup', lookup={}), ('ok', 0) if st == 'ok' else ('err', _kind(g))))
    for f in _gen_filters(r, specs):
        want = [s['number'] for s in specs if _matches(s, f)]
        st, gs = _try(lambda: ann.get_annotation_groups(**_filter_kwargs(f)))
        ctx.case(path=path + '/lookup-filter', filter_keys='+'.join(sorted(f)) or '(none)', filter_hits=len(want),
                 nontrivial_key=('filter', tuple(sorted(f)), len(want), n, path))
        case = dict(base, path=path, lookup={'filter': f})
        got = [int(g.AnnotationGroupNumber) for g in gs] if st == 'ok' else gs
        if st != 'ok' or got != want:
            ctx.fail(case, f'filter {f} returned groups {got}, construction parameters say {want}', site='get_annotation_groups')
        reqs.append(('getGroups', {'groups': mgroups, 'filter': f}))
        pending.append((dict(case, what='getGroups'), ('ok', got) if st == 'ok' else ('err', _kind(gs))))


# ------------------------------------------------------------------ one object
def _object(ctx, idx, reqs, pending, stream='obj'):
    import pydicom
    from pydicom.uid import ExplicitVRLittleEndian, ImplicitVRLittleEndian
    from highdicom.ann import AnnotationGroup, MicroscopyBulkSimpleAnnotations, annread
    r = ctx.rng(stream, idx)
    ct = '2D' if r.random() < 0.45 else '3D'
    dim = 2 if ct == '2D' else 3
    ng = r.choice([1, 1, 2, 2, 3, 4])
    specs = [_gen_group(ctx, stream, idx, k + 1, dim) for k in range(ng)]
    base = {'what': 'object', 'stream': stream, 'idx': idx}
    _run_object(ctx, specs, ct, base, idx, r, reqs, pending, stream)


GRID = [(g, dz, dt, n, prof) for g in GTYPES for dz in ('2', '3c', '3p', '3v') for dt in ('f4', 'f8', 'i4', 'i8', 'u2', 'mixed')
        for n in (1, 2, 3) for prof in ({'POINT': ('min',), 'RECTANGLE': ('min', 'closed'), 'ELLIPSE': ('min', 'closed'),
                                         'POLYLINE': ('min', 'mixed', 'closed', 'degenerate'), 'POLYGON': ('min', 'mixed', 'almost-closed')}[g])]


def _grid_spec(ctx, gidx):
    gtype, dz, dtype, n, prof = GRID[gidx]
    r = ctx.rng('grid', gidx)
    nr = ctx.np_rng('grid', gidx)
    dim = 2 if dz == '2' else 3
    zclass = {'2': '-', '3c': 'const', '3p': 'per-annotation', '3v': 'vary'}[dz]
    lo = MIN_PTS[gtype]
    counts = [FIXED[gtype]] * n if gtype in FIXED else ([lo] * n if prof == 'min' else [lo + 2, lo, lo + 1][:n])
    variant = prof if prof in ('closed', 'degenerate', 'almost-closed') else None
    if variant == 'almost-closed' and gtype == 'POLYGON':
        counts = [4, 3, 5][:n]
    coords, zclass = _gen_coords(r, nr, gtype, counts, dim, zclass, dtype, variant)
    spec = {'number': 1, 'uid': f'1.2.826.0.1.3680043.10.511.4.{gidx}', 'label': 'grid', 'gtype': gtype, 'dim': dim, 'zclass': zclass,
            'dtype': dtype, 'counts': counts, 'coords': coords, 'category': 0, 'ptype': 2, 'algorithm_type': 'MANUAL', 'alg': None,
            'meas': _gen_meas(r, nr, n) if gidx % 3 == 0 else [], 'description': None, 'variant': variant or '-'}
    return spec, ('2D' if dim == 2 else '3D')


def _grid(ctx, reqs, pending, only=None):
    """systematic sub-domain: every graphic type x {2-D, 3-D const / per-annotation / varying z} x dtype x n in 1..3 x count profile"""
    for gidx in range(len(GRID)):
        if only is not None and gidx != only:
            continue
        spec, ct = _grid_spec(ctx, gidx)
        _run_object(ctx, [spec], ct, {'what': 'grid', 'gidx': gidx}, gidx, ctx.rng('grid-o', gidx), reqs, pending, 'grid')
    if only is None:
        ctx.exhaustive.append(f'{len(GRID)} single-group objects: all graphic types x (2-D, 3-D shared / per-annotation / varying z) x '
                              '(float32, float64, int32, int64, uint16, mixed) x 1..3 annotations x (minimal, mixed) point counts')


def _run_object(ctx, specs, ct, base, idx, r, reqs, pending, stream):
    import pydicom
    from pydicom.uid import ExplicitVRLittleEndian, ImplicitVRLittleEndian
    from highdicom.ann import AnnotationGroup, MicroscopyBulkSimpleAnnotations, annread
    ng = len(specs)
    groups = []
    for s in specs:
        st, g = _try(_build_group, s)
        if st != 'ok':
            ctx.fail(dict(base, group=s['number']), f'well-formed group refused: {g}', site='AnnotationGroup')
            return
        groups.append(g)
    for s, g in zip(specs, groups):
        _observe_group(ctx, s, g, 'fresh', ct, reqs, pending, base)
    ts = r.choice([ExplicitVRLittleEndian, ImplicitVRLittleEndian])
    st, ann = _try(_build_sop, groups, ct, ts)
    if st != 'ok':
        ctx.fail(base, f'well-formed annotation object refused: {ann}', site='MicroscopyBulkSimpleAnnotations')
        return
    _observe_lookup(ctx, specs, ann, 'fresh', base, ctx.rng(stream + '-f', idx), reqs, pending)
    for s in specs:
        st, g = _try(ann.get_annotation_group, number=s['number'])
        if st == 'ok':
            _observe_group(ctx, s, g, 'fresh-sop', ct, [], [], base)
    # written and parsed
    buf = io.BytesIO()
    st, e = _try(ann.save_as, buf)
    if st != 'ok':
        ctx.fail(base, f'object could not be written: {e}', site='save_as')
        return
    blob = buf.getvalue()
    paths = {
        'annread': lambda: annread(io.BytesIO(blob)),
        'from_dataset-copy': lambda: MicroscopyBulkSimpleAnnotations.from_dataset(pydicom.dcmread(io.BytesIO(blob)), copy=True),
    }
    if idx % 4 == 1:
        # parsing the in-memory object itself (no file in between)
        paths['from_dataset-memory'] = lambda: MicroscopyBulkSimpleAnnotations.from_dataset(ann, copy=True)
    if idx % 3 == 0:
        paths['from_dataset-nocopy'] = lambda: MicroscopyBulkSimpleAnnotations.from_dataset(pydicom.dcmread(io.BytesIO(blob)), copy=False)
    for pname, mk in paths.items():
        st, a2 = _try(mk)
        if st != 'ok':
            ctx.fail(dict(base, path=pname), f'written object could not be parsed: {a2}', site=pname)
            continue
        if str(a2.AnnotationCoordinateType) != ct or len(a2.AnnotationGroupSequence) != ng:
            ctx.fail(dict(base, path=pname), 'coordinate type / number of groups changed', site=pname)
            continue
        for s in specs:
            st, g = _try(a2.get_annotation_group, number=s['number'])
            if st != 'ok':
                ctx.fail(dict(base, path=pname, group=s['number']), f'group lost: {g}', site=pname)
                continue
            # L1: a third party reading the same item per the standard gets the input back
            stD, dec = _try(_standard_decode, g, ct)
            want, want_dt = _expected_arrays(s)
            if stD != 'ok' or len(dec[0]) != len(want) or any(not _same(a, w) for a, w in zip(dec[0], want)) or dec[1] is not want_dt:
                ctx.fail(dict(base, path=pname, group=s['number']), f'stored attributes do not decode to the input per the standard ({dec if stD != "ok" else ""})',
                         site='stored-encoding')
            if pname == 'annread':
                _observe_group(ctx, s, g, pname, ct, reqs, pending, base)
            else:
                _observe_group(ctx, s, g, pname, ct, [], [], base)
        if pname == 'annread':
            _observe_lookup(ctx, specs, a2, pname, base, ctx.rng(stream + '-p', idx), reqs, pending)
            _instance_history(ctx, specs, annread(io.BytesIO(blob)), ct, base, ctx.rng(stream + '-ih', idx), reqs, pending)
            if idx % 3 == 0:
                # the parsed groups handed to a NEW instance of the same coordinate type: accepted, and they read back what was stored
                again = annread(io.BytesIO(blob))
                st9, re9 = _try(_build_sop, list(again.AnnotationGroupSequence), ct)
                ctx.case(path='annread/reassembled', reassembled=(st9 if st9 == 'ok' else re9))
                ok9 = st9 == 'ok'
                if ok9:
                    for s in specs:
                        want, _ = _expected_arrays(s)
                        stg, gd = _try(re9.get_annotation_group(number=s['number']).get_graphic_data, ct)
                        ok9 &= stg == 'ok' and len(gd) == len(want) and all(_same(x, w) for x, w in zip(gd, want))
                if not ok9:
                    ctx.fail(dict(base, path='annread/reassembled'), f'parsed groups of a {ct} instance are not accepted by / not readable from a new '
                                                                     f'{ct} instance ({re9 if st9 != "ok" else "data differ"})', site='reassembled')
                reqs.append(('sopParsed', {'ct': ct, 'groups': [{'via': ct, 'commonZ': 'CommonZCoordinateValue' in g} for g in again.AnnotationGroupSequence]}))
                pending.append((dict(base, what='sopParsed', path='annread/reassembled'), ('ok', st9 == 'ok')))
    # group-level parse without the file
    for s, g in zip(specs, groups):
        if (idx + s['number']) % 2 == 0:
            st, g2 = _try(AnnotationGroup.from_dataset, g, copy=True)
            if st != 'ok':
                ctx.fail(dict(base, path='group.from_dataset', group=s['number']), f'group dataset could not be parsed: {g2}', site='AnnotationGroup.from_dataset')
            else:
                _observe_group(ctx, s, g2, 'group.from_dataset', ct, reqs, pending, base)


# ------------------------------------------------------------------ malformed input

def _model_args(gtype, gd, meas_values=()):
    """arguments of the model's `construct` (2-D arrays) / `constructArrs` (some 1-D array); None if not representable."""
    arrs = [np.asarray(a) for a in gd]
    if any(a.ndim not in (1, 2) for a in arrs) or any(a.dtype.kind in 'OUSV' for a in arrs):
        return None
    dt = np.result_type(*[a.dtype for a in arrs]) if arrs else np.dtype(np.float64)
    meas = [[None if np.isnan(x) else t for x, t in zip(np.asarray(v, np.float32), _tok(np.asarray(v, np.float32)))] for v in meas_values]

    def tok2(a):
        if a.dtype.kind == 'c':
            a = a.real
        return _tok(a.astype(np.float64)) if a.ndim == 1 else [_tok(row.astype(np.float64)) for row in a]
    if any(a.ndim == 1 for a in arrs):
        return ('constructArrs', {'gtype': gtype, 'kind': dt.kind, 'itemsize': int(dt.itemsize),
                                  'arrs': [{'vals': tok2(a)} if a.ndim == 1 else {'rows': tok2(a)} for a in arrs]})
    return {'gtype': gtype, 'kind': dt.kind, 'itemsize': int(dt.itemsize), 'gd': [tok2(a) for a in arrs], 'meas': meas}


def _malformed_cases(ctx, idx):
    """(descr, builder) where builder() must raise."""
    r = ctx.rng('bad', idx)
    dim = r.choice([2, 3])
    s = _gen_group(ctx, 'bad', idx, 1, dim)
    kind = ['closed-polygon', 'point-count', 'non-finite', 'meas-more', 'meas-fewer', 'meas-single', 'meas-nan-padded',
            'meas-nan-short', 'mixed-dims', 'wrong-columns', 'one-dimensional', 'number', 'empty', 'unknown-type',
            'sop-numbering', 'meas-wrong-type', 'meas-parsed-single', 'meas-parsed-count', 'non-finite-shared-z',
            'bad-dtype', 'compensating-counts', 'sop-type-mismatch', 'sop-parsed-type-mismatch'][idx % 23]
    from highdicom.ann import Measurements
    n = len(s['counts'])

    def coords_copy():
        return [a.copy() for a in s['coords']]

    def meas(values):
        return [Measurements(_code(MEAS_NAMES[0]), np.asarray(values, np.float64), _code(UNITS[0]))]
    d = {'kind': kind, 'gtype': s['gtype'], 'dim': dim, 'n': n}
    if kind == 'closed-polygon':
        s['gtype'] = 'POLYGON'
        cnt = _gen_counts(r, 'POLYGON')
        s['counts'] = cnt
        s['coords'], _ = _gen_coords(r, ctx.np_rng('bad', idx), 'POLYGON', cnt, dim, 'vary' if dim == 3 else '-', s['dtype'])
        s['meas'] = []
        j = r.randrange(len(cnt))
        gd = [a.copy() for a in s['coords']]
        gd[j][-1] = gd[j][0]
        d.update(gtype='POLYGON', n=len(cnt), which=j)
        return d, lambda: _build_group(s, graphic_data=gd), _model_args('POLYGON', gd)
    if kind == 'point-count':
        gt = r.choice(GTYPES)
        bad = {'POINT': [0, 2, 3], 'POLYLINE': [0, 1], 'POLYGON': [0, 1, 2], 'ELLIPSE': [0, 1, 2, 3, 5, 8], 'RECTANGLE': [0, 1, 2, 3, 5, 8]}[gt]
        c = r.choice(bad)
        cnt = _gen_counts(r, gt)
        gd, _ = _gen_coords(r, ctx.np_rng('bad', idx), gt, cnt, dim, 'vary' if dim == 3 else '-', 'f4')
        j = r.randrange(len(cnt))
        gd[j] = np.arange(c * dim, dtype=np.float32).reshape(c, dim) + 0.5
        s['meas'] = []
        d.update(gtype=gt, n=len(cnt), which=j, count=c)
        return d, lambda: _build_group(s, graphic_data=gd, graphic_type=gt), _model_args(gt, gd)
    if kind == 'non-finite':
        gd = [a.astype(np.float64 if r.random() < 0.5 else np.float32) for a in coords_copy()]
        j = r.randrange(n)
        bad = r.choice([np.nan, np.inf, -np.inf])
        gd[j][r.randrange(gd[j].shape[0]), r.randrange(dim)] = bad
        s['meas'] = []
        d.update(which=j, value=str(bad))
        return d, lambda: _build_group(s, graphic_data=gd), _model_args(s['gtype'], gd)
    if kind == 'non-finite-shared-z':
        # 3-D data whose z is the SAME non-finite value for every point of the group (it would become CommonZCoordinateValue)
        gt = GTYPES[(idx // 21) % 5]
        cnt = _gen_counts(r, gt)
        if (idx // 105) % 2 == 0:
            cnt = cnt[:1]
        fdt = np.float64 if r.random() < 0.5 else np.float32
        gd, _ = _gen_coords(r, ctx.np_rng('bad', idx), gt, cnt, 3, 'const', 'f8')
        bad = [np.nan, np.inf, -np.inf][(idx // 21) % 3]
        gd = [a.astype(fdt) for a in gd]
        for a in gd:
            a[:, 2] = bad
        s['meas'] = []
        d.update(gtype=gt, dim=3, n=len(cnt), value=str(bad))
        return d, lambda: _build_group(s, graphic_data=gd, graphic_type=gt), _model_args(gt, gd)
    if kind == 'compensating-counts':
        # fixed-size graphic types: at least two annotations have a wrong number of points but the TOTAL is k * n
        gt = ['RECTANGLE', 'ELLIPSE', 'POINT'][(idx // 21) % 3]
        k = FIXED[gt]
        n2 = r.choice([2, 2, 3, 4, 6])
        cnt = [k] * n2
        i, j = r.sample(range(n2), 2)
        delta = r.randint(1, k)                     # k itself: an empty array next to a double one (8+0, 2+0)
        cnt[i] += delta
        cnt[j] -= delta
        fdt = r.choice([np.float32, np.float64])
        gd = [(ctx.np_rng('bad', idx * 64 + q).integers(-2000, 2000, size=(c, dim)) / 4.0).astype(fdt) for q, c in enumerate(cnt)]
        if dim == 3 and r.random() < 0.5:
            for a in gd:
                a[:, 2] = 7.5
        s['meas'] = []
        d.update(gtype=gt, n=n2, counts=cnt)
        return d, lambda: _build_group(s, graphic_data=gd, graphic_type=gt), _model_args(gt, gd)
    if kind == 'bad-dtype':
        # dtypes that are neither integer nor float of at most double precision
        bd = ['c8', 'c16', 'g', '?', 'O', 'U8', 'M8[s]'][(idx // 21) % 7]
        src = [np.round(a.astype(np.float64)) for a in s['coords']]
        if bd == '?':
            gd = [(a > 0) for a in src]
        elif bd == 'M8[s]':
            gd = [np.abs(a).astype('i8').astype(bd) for a in src]
        else:
            gd = [a.astype(bd) for a in src]
        if s['gtype'] == 'POLYGON':
            for a in gd:
                if np.array_equal(a[0], a[-1]):
                    a[-1] = a[-1] if bd in ('O', 'U8', 'M8[s]') else a[-1]
        s['meas'] = []
        d.update(dtype=bd)
        margs = _model_args(s['gtype'], gd) if bd in ('c8', 'c16', 'g') else None
        return d, lambda: _build_group(s, graphic_data=gd), margs
    if kind == 'meas-more':
        extra = r.choice([1, 2, n])
        return dict(d, values=n + extra), lambda: _build_group(s, measurements=meas(np.arange(n + extra) + 1.0)), \
            _model_args(s['gtype'], s['coords'], [np.arange(n + extra) + 1.0])
    if kind == 'meas-fewer':
        if n == 1:
            return dict(d, values=0), lambda: _build_group(s, measurements=meas(np.zeros(0))), _model_args(s['gtype'], s['coords'], [np.zeros(0)])
        k = r.randrange(0, n) if n > 2 else 0
        if k == 1:
            k = 0 if n == 2 else 2
        return dict(d, values=k), lambda: _build_group(s, measurements=meas(np.arange(k) + 1.0)), _model_args(s['gtype'], s['coords'], [np.arange(k) + 1.0])
    if kind == 'meas-single':
        if n == 1:
            n2 = 3
            cnt = [MIN_PTS[s['gtype']]] * n2
            gd, _ = _gen_coords(r, ctx.np_rng('bad', idx), s['gtype'], cnt, dim, 'vary' if dim == 3 else '-', 'f4')
            return dict(d, n=n2, values=1), lambda: _build_group(s, graphic_data=gd, measurements=meas([5.0])), _model_args(s['gtype'], gd, [[5.0]])
        return dict(d, values=1), lambda: _build_group(s, measurements=meas([5.0])), _model_args(s['gtype'], s['coords'], [[5.0]])
    if kind == 'meas-nan-padded':
        v = np.full(n + r.choice([1, 3]), np.nan)
        v[:max(1, n // 2)] = 1.5
        return dict(d, values=len(v), nan=True), lambda: _build_group(s, measurements=meas(v)), _model_args(s['gtype'], s['coords'], [v])
    if kind == 'meas-nan-short':
        if n == 1:
            return dict(d, values=0), lambda: _build_group(s, measurements=meas(np.zeros(0))), _model_args(s['gtype'], s['coords'], [np.zeros(0)])
        v = np.full(n - 1, np.nan)
        v[0] = 2.5
        return dict(d, values=len(v), nan=True), lambda: _build_group(s, measurements=meas(v)), _model_args(s['gtype'], s['coords'], [v])
    if kind == 'mixed-dims':
        gd = coords_copy()
        if len(gd) == 1:
            gd = gd + [gd[0].copy()]
        j = r.randrange(len(gd))
        other = 5 - dim
        gd[j] = np.ones((gd[j].shape[0], other), np.float32) * np.arange(1, gd[j].shape[0] + 1)[:, None]
        s['meas'] = []
        return d, lambda: _build_group(s, graphic_data=gd), _model_args(s['gtype'], gd)
    if kind == 'wrong-columns':
        c = r.choice([1, 4])
        gd = [np.arange(a.shape[0] * c, dtype=np.float32).reshape(a.shape[0], c) + 0.25 for a in s['coords']]
        s['meas'] = []
        return dict(d, columns=c), lambda: _build_group(s, graphic_data=gd), _model_args(s['gtype'], gd)
    if kind == 'one-dimensional':
        gd = [a.reshape(-1).astype(np.float32) for a in s['coords']]
        s['meas'] = []
        if idx % 2:
            gd = gd[:1] + [a for a in s['coords'][1:]]      # mixed ranks
        return d, lambda: _build_group(s, graphic_data=gd), _model_args(s['gtype'], gd)
    if kind == 'number':
        k = r.choice([0, -1, -5])
        return dict(d, number=k), lambda: _build_group(s, number=k), None
    if kind == 'empty':
        s['meas'] = []
        return d, lambda: _build_group(s, graphic_data=[]), _model_args(s['gtype'], [])
    if kind == 'unknown-type':
        s['meas'] = []
        bad_type = r.choice(['CIRCLE', 'MULTIPOINT', 'polygon', ''])
        return d, lambda: _build_group(s, graphic_type=bad_type), _model_args(bad_type, s['coords'])
    if kind == 'sop-numbering':
        s2 = _gen_group(ctx, 'bad2', idx, 2, dim)
        order = r.choice([(2, 1), (1, 3), (2, 3), (1, 1)])
        return dict(d, numbers=list(order)), lambda: _build_sop([_build_group(s, number=order[0]), _build_group(s2, number=order[1])], '2D' if dim == 2 else '3D'), \
            ('sopNumbers', {'numbers': list(order)})
    if kind == 'sop-type-mismatch':
        # groups built with the other coordinate type than the instance's: first, second or both of two groups; a PARSED group
        # (type unknown to the constructor) next to it does not excuse the built one
        s2 = _gen_group(ctx, 'bad2', idx, 2, dim)
        other_dim = 5 - dim
        so = _gen_group(ctx, 'bad3', idx, 1, other_dim)
        so2 = _gen_group(ctx, 'bad4', idx, 2, other_dim)
        ct = '2D' if dim == 2 else '3D'
        variant = r.choice(['first', 'second', 'both', 'only', 'parsed-then-built'])
        from highdicom.ann import AnnotationGroup

        def build():
            if variant == 'first':
                gs = [_build_group(so), _build_group(s2)]
            elif variant == 'second':
                gs = [_build_group(s), _build_group(so2)]
            elif variant == 'both':
                gs = [_build_group(so), _build_group(so2)]
            elif variant == 'only':
                gs = [_build_group(so)]
            else:
                gs = [AnnotationGroup.from_dataset(_build_group(s), copy=True), _build_group(so2)]
            return _build_sop(gs, ct)
        built = {'first': [other_dim, dim], 'second': [dim, other_dim], 'both': [other_dim, other_dim], 'only': [other_dim],
                 'parsed-then-built': [None, other_dim]}[variant]
        return dict(d, variant=variant), build, ('sopTypes', {'ct': ct, 'built': built})
    if kind == 'sop-parsed-type-mismatch':
        # PARSED groups (no cached input) handed to the constructor of an instance of the other coordinate type: a group read
        # through its instance knows that instance's type; a group parsed on its own with a common z can only be 3-D
        from highdicom.ann import AnnotationGroup, annread
        ct = '2D' if dim == 2 else '3D'
        other = '3D' if dim == 2 else '2D'
        variant = r.choice(['via-instance', 'via-instance-second', 'own-common-z'] if dim == 3 else ['via-instance', 'via-instance-second'])
        s2 = _gen_group(ctx, 'bad2', idx, 2, dim)

        def build():
            if variant == 'own-common-z':
                pts = [np.array([[1.0 + k, 2.0, 7.5]] * MIN_PTS[s['gtype']], np.float32) + np.array([[0, q, 0] for q in range(MIN_PTS[s['gtype']])], np.float32)
                       for k in range(2)]
                g0 = AnnotationGroup.from_dataset(_build_group(s, graphic_data=pts, measurements=None), copy=True)
                assert 'CommonZCoordinateValue' in g0
                return _build_sop([g0], '2D')
            buf = io.BytesIO()
            _build_sop([_build_group(s), _build_group(s2)], ct).save_as(buf)
            parsed = annread(io.BytesIO(buf.getvalue()))
            gs = list(parsed.AnnotationGroupSequence)
            if variant == 'via-instance-second':
                so = _gen_group(ctx, 'bad3', idx, 1, 5 - dim)
                return _build_sop([_build_group(so), gs[1]], other)
            return _build_sop(gs, other)
        groups = {'via-instance': [{'via': ct, 'commonZ': False}, {'via': ct, 'commonZ': False}],
                  'via-instance-second': [{'via': ct, 'commonZ': False}],
                  'own-common-z': [{'via': None, 'commonZ': True}]}[variant]
        return dict(d, variant=variant), build, ('sopParsed', {'ct': '2D' if variant == 'own-common-z' else other, 'groups': groups})
    if kind in ('meas-parsed-single', 'meas-parsed-count'):
        # a Measurements item that was parsed from a dataset (it no longer knows how many values it was built from),
        # dense (no NaN), reused for a group with another number of annotations
        from copy import deepcopy
        from pydicom.dataset import Dataset
        gd, n2 = s['coords'], n
        if n2 == 1:
            n2 = 3
            cnt = [MIN_PTS[s['gtype']]] * n2
            gd, _ = _gen_coords(r, ctx.np_rng('bad', idx), s['gtype'], cnt, dim, 'vary' if dim == 3 else '-', 'f4')
        k = 1 if kind == 'meas-parsed-single' else r.choice([x for x in (2, n2 - 1, n2 + 1, n2 + 2, 2 * n2) if x not in (n2, 1) and x > 0])
        vals = np.arange(k) + 1.5
        plain = Dataset()
        for el in meas(vals)[0]:
            plain.add(deepcopy(el))
        parsed = Measurements.from_dataset(plain, copy=False)
        margs = _model_args(s['gtype'], gd)
        margs['meas_parsed'] = _model_args(s['gtype'], gd, [vals])['meas']
        return dict(d, n=n2, values=k, parsed=True), lambda: _build_group(s, graphic_data=gd, measurements=[parsed]), margs
    if kind == 'meas-wrong-type':
        from pydicom.dataset import Dataset
        return d, lambda: _build_group(s, measurements=[Dataset()]), None
    raise AssertionError(kind)


def _malformed(ctx, idx, reqs, pending):
    d, build, margs = _malformed_cases(ctx, idx)
    case = {'what': 'malformed', 'idx': idx, 'descr': d}
    st, res = _try(build)
    if isinstance(margs, tuple) and margs[0] in ('sopNumbers', 'sopTypes', 'sopParsed'):
        reqs.append(margs)
        pending.append((dict(case, what=margs[0]), ('ok', st == 'ok')))
    elif isinstance(margs, tuple):
        reqs.append(margs)
        pending.append((dict(case, what='construct'), ('ok', None) if st == 'ok' else ('err', _kind(res))))
    elif margs is not None:
        reqs.append(('construct', margs))
        pending.append((dict(case, what='construct'), ('ok', None) if st == 'ok' else ('err', _kind(res))))
    if 'which' in d and d.get('n', 0) >= 1:
        # where the offending annotation sits among the well-formed ones
        pos = 'only' if d['n'] == 1 else ('first' if d['which'] == 0 else 'last' if d['which'] == d['n'] - 1 else 'middle')
        ctx.hist('malformed_annotation_position', f"{d['kind']}/{pos}")
    ctx.case(sample=case if idx % 16 == 0 and idx < 64 else None, malformed=d['kind'], malformed_outcome=(st if st == 'ok' else res),
             nontrivial_key=('bad', d['kind'], d['gtype'], d['dim'], min(d.get('n', 0), 6)))
    if st == 'ok':
        ctx.fail(case, f'malformed input accepted ({d})', site='malformed/' + d['kind'])


# ------------------------------------------------------------------ run
def _compare(ctx, pending, answers):
    seen = {}
    for (case, impl), ans in zip(pending, answers):
        layer = case.get('layer', 'L0')
        what = case.get('what')

        def dis(kind, model):
            seen[(what, kind)] = seen.get((what, kind), 0) + 1
            if seen[(what, kind)] <= 3:
                ctx.disagree(layer, case, impl, model, f'{what}:{kind}')
        if 'proto_err' in ans:
            dis('model protocol error', ans)
            continue
        model = ('ok', ans['ok']) if 'ok' in ans else ('err', ans['err'])
        if impl[0] != model[0]:
            dis('ok-vs-error', model)
        elif impl[0] == 'ok':
            a, b = impl[1], model[1]
            if what == 'construct':
                continue
            if what == 'history':
                b = [x if x[0] == 'ok' else ['err', y[1] if y[0] == 'err' else x[1]] for x, y in zip(b, a)] if len(a) == len(b) else b
            if what == 'encode':
                a = {k: a[k] for k in ('coords', 'double', 'commonZ', 'indexList', 'numAnn')}
                if impl[1].get('both'):
                    dis('both coordinate attributes present', model)
            if a != b:
                dis('value', model)
    for (what, kind), v in seen.items():
        if v > 3:
            ctx.note(f'{v} disagreements {what}:{kind} (3 recorded)')


def run(ctx):
    import hd_env  # noqa: F401
    reqs, pending = [], []
    _grid(ctx, reqs, pending)
    for idx in range(ctx.n(150, 2000)):
        _object(ctx, idx, reqs, pending)
    for idx in range(ctx.n(320, 3200)):
        _malformed(ctx, idx, reqs, pending)
    answers = ctx.model(reqs)
    if answers is None:
        return
    _compare(ctx, pending, answers)


def _open_findings_fallback():
    import json
    import os
    p = os.path.join(os.path.dirname(os.path.dirname(os.path.dirname(os.path.abspath(__file__)))), 'findings', 'C18.json')
    try:
        return [f for f in json.load(open(p)) if f.get('status') == 'open']
    except Exception:  # noqa: BLE001
        return []


def attribute(failure, open_findings):
    """failures of the wrong-coordinate-type histories (and only those) belong to the open finding"""
    ids = {f['id'] for f in open_findings} | {f['id'] for f in _open_findings_fallback()}
    site = failure.get('site') or ''
    if site == 'history-wrong-type/group.from_dataset' and 'C18-wrong-coordinate-type' in ids:
        return 'C18-wrong-coordinate-type'
    return None


def _witness_wrong_coordinate_type():
    """three 2-D points, parsed: '3D' first, then '2D'"""
    import highdicom as hd
    from highdicom.ann import AnnotationGroup
    g = AnnotationGroup(number=1, uid=hd.UID(), label='w', annotated_property_category=_code(CODES[0]),
                        annotated_property_type=_code(CODES[2]), graphic_type='POINT',
                        graphic_data=[np.array([[1.0, 2.0]], np.float32), np.array([[3.0, 4.0]], np.float32), np.array([[5.0, 6.0]], np.float32)],
                        algorithm_type='MANUAL')
    p = AnnotationGroup.from_dataset(g, copy=True)
    st1, r1 = _try(p.get_graphic_data, '3D')
    st2, r2 = _try(p.get_graphic_data, '2D')
    if st1 == 'ok' or st2 != 'ok':
        return {'3D first': [np.asarray(a).tolist() for a in r1] if st1 == 'ok' else r1, 'then 2D': r2 if st2 != 'ok' else 'ok'}
    return None


def _witness_hands_out_internals():
    """(a) a freshly built group returns the caller's own arrays: editing them afterwards changes what the object reports while
    the encoded attributes keep the original; (b) [fixed in /repo] the list a parsed group hands out was its cached list"""
    import highdicom as hd
    from highdicom.ann import AnnotationGroup
    data = [np.array([[1.0, 2.0]], np.float32), np.array([[3.0, 4.0]], np.float32)]
    g = AnnotationGroup(number=1, uid=hd.UID(), label='w', annotated_property_category=_code(CODES[0]),
                        annotated_property_type=_code(CODES[2]), graphic_type='POINT', graphic_data=data, algorithm_type='MANUAL')
    out = {}
    got = g.get_graphic_data('2D')
    got[0][0, 0] = -777.0
    stored = np.frombuffer(g.PointCoordinatesData, '<f4').tolist()
    if float(g.get_coordinates(1, '2D')[0, 0]) == -777.0 and stored[0] == 1.0:
        out['fresh'] = {'reported after the edit': g.get_coordinates(1, '2D').tolist(), 'encoded': stored}
    p = AnnotationGroup.from_dataset(g, copy=True)
    lst = p.get_graphic_data('2D')
    lst.pop()
    if len(p.get_graphic_data('2D')) != 2:
        out['parsed list'] = {'annotations reported after pop() on the returned list': len(p.get_graphic_data('2D')), 'NumberOfAnnotations': int(p.NumberOfAnnotations)}
    return out or None


def replay(ctx, case):
    sub = type(ctx)(ctx.prop, ctx.tier, ctx.seed, 1, ctx.driver)
    if case.get('what') == 'wrong-coordinate-type':
        return _witness_wrong_coordinate_type()
    if case.get('what') == 'hands-out-internals':
        return _witness_hands_out_internals()
    if case.get('what') == 'object':
        _object(sub, case['idx'], [], [], stream=case.get('stream', 'obj'))
    elif case.get('what') == 'malformed':
        _malformed(sub, case['idx'], [], [])
    elif case.get('what') == 'grid':
        _grid(sub, [], [], only=case['gidx'])
    return sub.failures[:3] or None
