"""C08  Volume operations never move a voxel in physical space.

Tie T: T9a T9b T9c (per-axis bodies of pad_to / crop_to / pad_or_crop_to_spatial_shape), T9d (per-channel decision of
Volume.pad), T10a T10b T10c T10d
(size / emptiness arithmetic and the two bound checks of `_prepare_getitem_index`).
Tie C: random histories (length 1..12) on real `Volume` and `VolumeGeometry` objects against the
executable model `Model/Volume.lean` (driver `Drivers/C08.lean`): L0 = (shape, affine as exact rationals,
array, channel descriptors and values, ok-vs-refused) after every step; CPython `slice.indices` against the
hand-written `sliceIndices` exhaustively on a grid (L1: the array really is cut that way).
Oracle (independent of the model, a few lines of numpy per step): every output voxel whose physical
position (output affine) coincides with an in-range voxel of the input (input affine) must hold that
voxel's value; every other output voxel must be padding with the value of the pad mode and may only
appear in a padding operation; nothing retained is lost; the affine stays scaled orthogonal with last row
0 0 0 1; the input object (array bytes, affine, channels) is bit-identical after the call; channel
descriptors and values are carried along; the VolumeGeometry twin takes the same shape and affine and is
refused exactly when the volume is.  Over whole histories: voxel values are unique, every surviving value
sits at its original `map_indices_to_reference` position.
"""
from __future__ import annotations

import glob
import itertools
import json
import os
from fractions import Fraction

import numpy as np

PROP = 'C08'
TARGETS = ['T9a', 'T9b', 'T9c', 'T9d', 'T9e', 'T9f', 'T9g', 'T9h', 'T9i', 'T9j', 'T9k', 'T9l', 'T9m', 'T9n', 'T9o', 'T9p', 'T9q', 'T10a', 'T10b', 'T10c', 'T10d']
LEAN_MODULES = ['HdVerif.Props.C08']
MODEL_MODULES = ['HdVerif.Model.Volume', 'HdVerif.Model.VolumeMore']
NAMESPACE = 'HdVerif.C08'
DRIVER = 'Drivers/C08.lean'
RULE = ('one case = one history step (operation with arguments) applied to a real Volume and its VolumeGeometry twin; '
        'histories of 1..12 steps on volumes of spatial shape 1..6 (tail to 9), 0-2 channel dimensions, 48 axis-aligned '
        'orientations and 3-4-5 / 5-12-13 / 8-15-17 rational rotations, dyadic spacing/position, PATIENT and SLIDE; '
        'non-trivial = accepted step on a volume with more than one voxel; distinct by (op, argument form, mode, '
        'number of channel dims, orientation class, handedness, input shape, argument digest)')
ASSUMPTIONS = [
    'numpy slicing arr[slice] selects range(*slice.indices(n)) (CPython slice.indices is re-defined by hand in the model and compared with CPython on a grid every run)',
    'numpy transpose / pad semantics (constant, edge, per-axis clamping) as re-defined in the model; compared with numpy through Volume.pad on every run',
    'float arithmetic agrees with rational arithmetic: exactly for dyadic axis-aligned inputs, to 2^-40 relative for rational rotations',
    'spacing = norm of an affine column is not used by the operations modelled (the model keeps the affine itself)',
]
MODELLED_NOT_VERIFIED = ['numpy ndarray slicing / transpose / pad / min / max / mean / median', 'CPython slice.indices',
                         'numpy argsort (stable for 3 elements) in get_closest_patient_orientation',
                         'pydicom data dictionary look-ups behind ChannelDescriptor']

TWO40 = Fraction(1, 2 ** 40)
LETTERS = 'LRPAHF'
OPP = {'L': 'R', 'R': 'L', 'P': 'A', 'A': 'P', 'H': 'F', 'F': 'H'}
MODES = ['CONSTANT', 'EDGE', 'MINIMUM', 'MAXIMUM', 'MEAN', 'MEDIAN']


def _orientations():
    out = []
    for perm in itertools.permutations([('L', 'R'), ('P', 'A'), ('H', 'F')]):
        for signs in itertools.product([0, 1], repeat=3):
            out.append(''.join(p[s] for p, s in zip(perm, signs)))
    return out


ORIENTATIONS = _orientations()


# ------------------------------------------------------------------------------------------ generators
def _signed_perm(r):
    p = list(range(3))
    r.shuffle(p)
    m = [[Fraction(0)] * 3 for _ in range(3)]
    for col, row in enumerate(p):
        m[row][col] = Fraction(r.choice([1, -1]))
    return m


def _matmul(a, b):
    return [[sum(a[i][k] * b[k][j] for k in range(3)) for j in range(3)] for i in range(3)]


def _planar_rotation(r):
    c, s, h = r.choice([(3, 4, 5), (4, 3, 5), (5, 12, 13), (12, 5, 13), (8, 15, 17), (15, 8, 17), (7, 24, 25)])
    c, s = Fraction(c, h), Fraction(s, h) * r.choice([1, -1])
    ax = r.randrange(3)
    i, j = [k for k in range(3) if k != ax]
    m = [[Fraction(int(a == b)) for b in range(3)] for a in range(3)]
    m[i][i], m[i][j], m[j][i], m[j][j] = c, -s, s, c
    return m


def _has_tie(m):
    """Two entries of equal non-zero magnitude in a column (closest-orientation ties are decided by float noise)."""
    for col in range(3):
        mags = [abs(m[row][col]) for row in range(3)]
        nz = [x for x in mags if x != 0]
        if len(set(nz)) != len(nz):
            return True
    return False


def gen_volume_spec(ctx, r, idx):
    big = ctx.tier == 'thorough' and r.random() < 0.15
    shape = [r.choice([1, 1, 2, 2, 3, 3, 4, 5, 6]) if not big else r.randint(1, 9) for _ in range(3)]
    if r.random() < 0.06:
        shape = [1, 1, 1]
    oblique = r.random() < 0.3
    rot = _signed_perm(r)
    if oblique:
        for _ in range(20):
            cand = _matmul(_matmul(_signed_perm(r), _planar_rotation(r)), rot)
            if r.random() < 0.5:
                cand = _matmul(_planar_rotation(r), cand)
            if not _has_tie(cand):
                rot = cand
                break
        else:
            oblique = False
    spacing = [Fraction(r.choice([4, 6, 8, 8, 8, 10, 16, 20, 28, 3])) / 8 for _ in range(3)]
    pos = [Fraction(r.randint(-800, 800), 8) for _ in range(3)]
    lin = [[rot[i][j] * spacing[j] for j in range(3)] for i in range(3)]
    nch = r.choice([0, 0, 0, 1, 1, 2])
    pool = ['OpticalPathIdentifier', 'SegmentNumber', 'DiffusionBValue', 'custom_int', 'rgb']
    r.shuffle(pool)
    channels = []
    for k in range(nch):
        d = pool[k]
        size = r.choice([1, 2, 2, 3])
        if d == 'rgb':
            vals = r.sample(['R', 'G', 'B'], size)
        elif d == 'OpticalPathIdentifier':
            vals = r.sample(['op0', 'op1', 'op2', 'op3'], size)
        elif d == 'DiffusionBValue':
            vals = r.sample([0.0, 500.0, 1000.5, 2000.0], size)
        else:
            vals = r.sample([1, 2, 3, 5, 8], size)
        channels.append({'desc': d, 'values': vals})
    return {
        'idx': idx, 'shape': shape, 'lin': lin, 'pos': pos, 'oblique': oblique, 'channels': channels,
        'dtype': r.choice(['int64', 'int64', 'int32', 'float64', 'int64big']),
        'coord': 'PATIENT' if r.random() < 0.88 else 'SLIDE',
        'for_uid': r.choice([None, '1.2.826.0.1.3680043.8.498.1']),
        'layout': r.choice(['C', 'C', 'F', 'transposed', 'strided', 'negstride', 'readonly']),
    }


def _neg_form(r, i, n, allow_none_at=None):
    """Write index i (0 <= i < n or a stop position) in one of its equivalent spellings."""
    if allow_none_at is not None and i == allow_none_at and r.random() < 0.5:
        return None
    if r.random() < 0.35:
        return i - n
    return i


def gen_slice(r, n):
    if r.random() < 0.78:
        step = r.choice([None, 1, 1, 2, 3, -1, -1, -2, -3, 5])
        s = 1 if step is None else step
        i0 = r.randrange(n)
        i1 = r.randrange(i0, n)
        if s > 0:
            start = _neg_form(r, i0, n, allow_none_at=0)
            stop = i1 + 1
            if stop == n:
                stop = r.choice([None, n])
            elif r.random() < 0.35:
                stop = stop - n
        else:
            start = _neg_form(r, i1, n, allow_none_at=n - 1)
            if i0 == 0:
                stop = r.choice([None, None, -n - 1])
            else:
                stop = i0 - 1 if r.random() < 0.6 else i0 - 1 - n
        return [start, stop, step]
    lo, hi = -n - 3, n + 3
    return [r.choice([None, r.randint(lo, hi)]), r.choice([None, r.randint(lo, hi)]),
            r.choice([None, 1, 2, -1, -2, 0, 7, -7, r.randint(-4, 4)])]


def gen_item(r, n):
    if r.random() < 0.3:
        it = {'t': 'int', 'v': r.randint(-n, n - 1) if r.random() < 0.88 else r.choice([n, -n - 1, n + 2])}
    else:
        it = {'t': 'slice', 'v': gen_slice(r, n)}
    if r.random() < 0.15:
        it['sp'] = 'bool' if it['t'] == 'int' else r.choice(['int64', 'int32', 'int8'])
    return it


def _track_item(item, n):
    """Size of the axis after indexing with `item`, None when refused/empty (independent bookkeeping: CPython range)."""
    if item['t'] == 'int':
        k = item['v']
        return 1 if -n <= k < n else None
    a, b, c = item['v']
    if c == 0:
        return None
    if a is not None and not (-n <= a < n):
        return None
    if b is not None and not (-n - 1 <= b <= n):
        return None
    size = len(range(*slice(a, b, c).indices(n)))
    return size if size > 0 else None


def _np_shape(r, op):
    """a quarter of the to-shape requests spell the shape with numpy integers (array or list of scalars, signed / unsigned)"""
    if r.random() < 0.25:
        op['np_shape'] = [r.choice(['array', 'list']), r.choice(['uint8', 'uint16', 'int64', 'int32'])]
    return op


ARG_SPELLINGS = ['list', 'list', 'tuple', 'np-list', 'ndarray']


def gen_op(ctx, r, shape, cshape, coord):
    """One operation for a volume of the given spatial/channel shape; returns (op, new spatial shape, new channel shape)."""
    kinds = ['getitem'] * 5 + ['flip'] * 2 + ['permute'] * 2 + ['swap', 'pad', 'pad', 'pad', 'pad_to', 'crop_to',
                                                                'pad_or_crop_to', 'pad_or_crop_to', 'to_orientation',
                                                                'to_orientation', 'ensure_handedness', 'copy', 'with_array']
    if cshape:
        kinds += ['get_channel', 'permute_channels', 'permute_channels_by_id']
    kind = r.choice(kinds)
    bad = r.random() < 0.12
    n = list(shape)
    if kind == 'getitem':
        form = r.choice(['int', 'slice', 'tuple', 'tuple', 'tuple', 'tuple', 'tuple', 'tuple4'])
        if form == 'int':
            idx = gen_item(r, n[0])
            while idx['t'] != 'int':
                idx = gen_item(r, n[0])
            items = [idx]
        elif form == 'slice':
            idx = {'t': 'slice', 'v': gen_slice(r, n[0])}
            items = [idx]
        else:
            k = r.choice([1, 2, 3, 3, 3]) if form == 'tuple' else 4
            items = [gen_item(r, n[d]) for d in range(min(k, 3))]
            if k == 4:
                items.append({'t': 'slice', 'v': r.choice([[None, None, None], [None, None, -1], [None, None, 2], [0, None, None]])}
                             if r.random() < 0.8 else {'t': 'int', 'v': 0})
            idx = {'t': 'tuple', 'v': items}
        new = list(n)
        ok = len(items) <= 3
        for d, it in enumerate(items[:3]):
            s = _track_item(it, n[d])
            if s is None:
                ok = False
            else:
                new[d] = s
        return {'op': 'getitem', 'index': idx}, (new if ok else n), cshape
    if kind == 'flip':
        axes = r.sample([0, 1, 2], r.randint(1, 3))
        if bad:
            axes = r.choice([[3], [0, -1], [0, 0, 1, 2], 5])
        elif len(axes) == 1 and r.random() < 0.6:
            axes = axes[0]
        elif r.random() < 0.1:
            axes = r.choice([[], [axes[0], axes[0]]])
        return {'op': 'flip', 'axes': axes, 'arg_spelling': r.choice(ARG_SPELLINGS)}, n, cshape
    if kind == 'permute':
        p = [0, 1, 2]
        r.shuffle(p)
        if bad:
            p = r.choice([[0, 1], [0, 1, 1], [0, 1, 3], [1, 2, 3], [0, 1, 2, 2], [-1, 0, 1]])
            return {'op': 'permute', 'indices': p, 'arg_spelling': r.choice(ARG_SPELLINGS)}, n, cshape
        return {'op': 'permute', 'indices': p, 'arg_spelling': r.choice(ARG_SPELLINGS)}, [n[i] for i in p], cshape
    if kind == 'swap':
        a, b = r.sample([0, 1, 2], 2)
        if bad:
            a, b = r.choice([(0, 0), (1, 3), (-1, 2), (3, 3)])
            return {'op': 'swap', 'a': a, 'b': b, 'arg_spelling': r.choice(ARG_SPELLINGS)}, n, cshape
        new = list(n)
        new[a], new[b] = n[b], n[a]
        return {'op': 'swap', 'a': a, 'b': b, 'arg_spelling': r.choice(ARG_SPELLINGS)}, new, cshape
    if kind in ('pad', 'pad_to', 'pad_or_crop_to'):
        mode = r.choice(MODES + ['CONSTANT', 'constant', 'edge'])
        cval = r.choice([0, -1, -7, -1000, 99991, -3.5, 2.5])
        per_channel = r.random() < 0.45
        extra = {'mode': mode, 'cval': cval, 'per_channel': per_channel, 'mode_enum': r.random() < 0.3}
    if kind == 'pad':
        room = [max(0, 10 - x) for x in n]
        form = r.choice(['int', 'pair', 'nested1', 'nested2', 'nested2'])
        if form == 'int':
            w = r.randint(0, min(2, *room)) if min(room) > 0 else 0
            full = [[w, w]] * 3
            if bad:
                w = -1
        elif form == 'pair':
            w = [r.randint(0, min(2, min(room))), r.randint(0, min(2, min(room)))]
            full = [list(w)] * 3
            if bad:
                w = r.choice([[-1, 1], [1, -2], [1, 2, 3], [1]])
        elif form == 'nested1':
            w = [[r.randint(0, min(2, room[d]))] for d in range(3)]
            full = [[x[0], x[0]] for x in w]
            if bad:
                w = r.choice([[[1], [1]], [[1], [1, 2], [1]], [[-1], [0], [0]], [[1], [1], [1], [1]]])
        else:
            w = [[r.randint(0, min(3, room[d])), r.randint(0, min(3, room[d]))] for d in range(3)]
            full = [list(x) for x in w]
            if bad:
                w = r.choice([[[1, 1], [1, 1]], [[1, 1], [1], [1, 1]], [[0, -1], [0, 0], [0, 0]], [[-2, 0], [1, 0], [0, 0]],
                              [[1, 2, 3], [1, 2, 3], [1, 2, 3]]])
        op = {'op': 'pad', 'width': w, **extra}
        if not bad and r.random() < 0.25:
            op['np_width'] = r.choice(['uint8', 'uint16', 'int64', 'int32'])
            op['np_tuple'] = r.random() < 0.5
        if bad:
            return op, n, cshape
        return op, [n[d] + full[d][0] + full[d][1] for d in range(3)], cshape
    if kind == 'pad_to':
        tgt = [n[d] + r.choice([0, 0, 1, 2, 3]) for d in range(3)]
        if bad:
            d = r.randrange(3)
            tgt[d] = n[d] - r.randint(1, 2)
            if r.random() < 0.3:
                tgt = tgt[:2]
            return _np_shape(r, {'op': 'pad_to', 'shape': tgt, **extra}), n, cshape
        return _np_shape(r, {'op': 'pad_to', 'shape': tgt, **extra}), tgt, cshape
    if kind == 'crop_to':
        tgt = [r.randint(1, n[d]) if r.random() < 0.7 else n[d] for d in range(3)]
        if bad:
            d = r.randrange(3)
            tgt[d] = r.choice([n[d] + 1, 0, -1, n[d] + 3])
            return _np_shape(r, {'op': 'crop_to', 'shape': tgt}), n, cshape
        return _np_shape(r, {'op': 'crop_to', 'shape': tgt}), tgt, cshape
    if kind == 'pad_or_crop_to':
        tgt = [max(1, n[d] + r.choice([-3, -2, -1, 0, 0, 1, 2, 3])) for d in range(3)]
        if bad:
            tgt[r.randrange(3)] = r.choice([0, -1])
            if r.random() < 0.3:
                tgt = tgt + [1]
            return {'op': 'pad_or_crop_to', 'shape': tgt, **extra}, n, cshape
        return _np_shape(r, {'op': 'pad_or_crop_to', 'shape': tgt, **extra}), tgt, cshape
    if kind == 'to_orientation':
        o = r.choice(ORIENTATIONS)
        form = r.choice(['str', 'str', 'list', 'enum'])
        if bad:
            o = r.choice(['LLP', 'LRH', 'XYZ', 'LP', 'LPHF', 'lph'])
            form = 'str'
        # the resulting shape depends on the current orientation, tracked by the caller through `orient`
        return {'op': 'to_orientation', 'o': o, 'form': form}, None, cshape
    if kind == 'ensure_handedness':
        op = {'op': 'ensure_handedness', 'h': r.choice(['LEFT_HANDED', 'RIGHT_HANDED'])}
        if r.random() < 0.5:
            op['flip_axis'] = r.randrange(3) if not bad else r.choice([3, -1])
        else:
            op['swap_axes'] = r.sample([0, 1, 2], 2) if not bad else r.choice([[0, 0], [0, 1, 2], [0, 3]])
        if bad and r.random() < 0.4:
            op.pop('flip_axis', None)
            op.pop('swap_axes', None)
            if r.random() < 0.5:
                op['flip_axis'] = 0
                op['swap_axes'] = [0, 1]
        return op, None, cshape
    if kind == 'copy':
        return {'op': 'copy'}, n, cshape
    if kind == 'with_array':
        k = r.choice(['shift', 'shift', 'same', 'drop', 'bad'])
        if k == 'drop' and not cshape:
            k = 'shift'
        return {'op': 'with_array', 'kind': k}, n, ([] if k == 'drop' else cshape)
    if kind == 'get_channel':
        nsel = r.randint(1, len(cshape))
        dims = sorted(r.sample(range(len(cshape)), nsel))
        sel = {str(d): r.randrange(cshape[d]) if not bad else cshape[d] + 1 for d in dims}
        keep = r.random() < 0.5
        new_c = list(cshape)
        if not bad:
            if keep:
                for d in dims:
                    new_c[d] = 1
            else:
                new_c = [c for d, c in enumerate(cshape) if d not in dims]
        return {'op': 'get_channel', 'sel': sel, 'keepdims': keep}, n, new_c
    if kind in ('permute_channels', 'permute_channels_by_id'):
        p = list(range(len(cshape)))
        r.shuffle(p)
        if bad:
            p = r.choice([p + [0], p[:-1], [x + 1 for x in p]])
            return {'op': kind, 'indices': p}, n, cshape
        return {'op': kind, 'indices': p}, n, [cshape[i] for i in p]
    raise AssertionError(kind)


# ------------------------------------------------------------------------------------------ implementation side
DESC_IDS = {'OpticalPathIdentifier': 0, 'SegmentNumber': 1, 'DiffusionBValue': 2, 'custom_int': 3, 'rgb': 4}


def _descriptor(name):
    from highdicom.volume import RGB_COLOR_CHANNEL_DESCRIPTOR, ChannelDescriptor
    if name == 'rgb':
        return RGB_COLOR_CHANNEL_DESCRIPTOR
    if name == 'custom_int':
        return ChannelDescriptor('custom_int', is_custom=True, value_type=int)
    return name


def _desc_name(d):
    kw = d.keyword
    return {'RGBColorChannel': 'rgb'}.get(kw, kw)


def build(spec):
    """-> (Volume, VolumeGeometry, base array) for a volume spec; voxel values unique (1-based ids, channel-major last)."""
    from highdicom.volume import Volume, VolumeGeometry
    shape = spec['shape']
    cshape = [len(c['values']) for c in spec['channels']]
    total = int(np.prod(shape + cshape))
    arr = (np.arange(1, total + 1, dtype=np.int64).reshape(shape + cshape))
    if spec['dtype'] == 'float64':
        arr = arr.astype(np.float64) * 0.5
    elif spec['dtype'] == 'int64big':
        arr = arr + (2 ** 53 + 1)          # not representable in float64: a silent conversion alters them
    else:
        arr = arr.astype(spec['dtype'])
    arr = _with_layout(arr, spec.get('layout', 'C'))
    aff = _spec_affine(spec)
    channels = {}
    for c in spec['channels']:
        vals = c['values']
        channels[_descriptor(c['desc'])] = list(vals)
    # the affines handed to the constructors belong to the CALLER: float64 arrays that are overwritten in place right after the
    # construction - the objects must not be affected (run_history compares with the affine of the spec)
    av, ag = aff.copy(), aff.copy()
    v = Volume(arr, av, spec['coord'], frame_of_reference_uid=spec['for_uid'], channels=channels or None)
    g = VolumeGeometry(ag, shape, spec['coord'], frame_of_reference_uid=spec['for_uid'])
    av[...] = -4321.5
    ag[...] = 1234.25
    return v, g


def _spec_affine(spec):
    aff = np.eye(4)
    for i in range(3):
        for j in range(3):
            aff[i, j] = float(spec['lin'][i][j])
        aff[i, 3] = float(spec['pos'][i])
    return aff


ARRAY_ACCESSORS = ['affine', 'inverse_affine', 'direction', 'unit_vectors', 'spacing_vectors', 'get_affine']


def clobber_returned_arrays(ctx, case, obj, site):
    """Every accessor that hands out an array: the caller overwrites what it got in place; the object must not notice (its
    affine, its inverse map, its accessors stay what they were)."""
    aff_before = obj.affine.tobytes()
    inv_before = np.asarray(obj.inverse_affine).copy()
    for name in ARRAY_ACCESSORS:
        try:
            val = obj.get_affine(None) if name == 'get_affine' else getattr(obj, name)
            if callable(val):
                val = val()
        except Exception as e:  # noqa: BLE001
            ctx.fail(case, {'what': f'accessor {name} raised {type(e).__name__}: {e}'[:200]}, site=site + '/accessor')
            continue
        for a in (val if isinstance(val, (tuple, list)) else [val]):
            if isinstance(a, np.ndarray) and a.flags.writeable:
                a[...] = -777.125
    if obj.affine.tobytes() != aff_before:
        ctx.fail(case, {'what': 'overwriting an array returned by an accessor changed the affine of the object'}, site=site + '/accessor-alias')
    if not np.array_equal(np.asarray(obj.inverse_affine), inv_before):
        ctx.fail(case, {'what': 'overwriting an array returned by an accessor changed the inverse affine of the object '
                                '(a cached matrix was handed out)'}, site=site + '/accessor-alias')


def _spell_seq(xs, sp):
    if sp == 'tuple':
        return tuple(xs)
    if sp == 'np-list':
        return [np.int64(x) for x in xs]
    if sp == 'ndarray':
        return np.array(xs, dtype=np.int32) if len(xs) else xs
    return xs


def _with_layout(arr, layout):
    """the same values in another memory layout (guide 3a): Fortran order, a transposed view, a strided view into a larger
    buffer, a negative-stride view, a read-only array"""
    if layout == 'F':
        return np.asfortranarray(arr)
    if layout == 'transposed':
        perm = list(range(arr.ndim))[::-1]
        inv = np.argsort(perm)
        return np.ascontiguousarray(arr.transpose(perm)).transpose(inv)
    if layout == 'strided':
        big = np.zeros((2 * arr.shape[0],) + arr.shape[1:], dtype=arr.dtype)
        big[::2] = arr
        return big[::2]
    if layout == 'negstride':
        return np.ascontiguousarray(arr[::-1, :, ::-1])[::-1, :, ::-1]
    if layout == 'readonly':
        arr = arr.copy()
        arr.flags.writeable = False
        return arr
    return arr


def _py_index(idx):
    def item(it):
        sp = it.get('sp')
        if it['t'] == 'int':
            return bool(it['v']) if sp == 'bool' and it['v'] in (0, 1) else it['v']
        if sp in ('int64', 'int32', 'int8'):
            dt = getattr(np, sp)                     # slice components spelled with numpy integers
            return slice(*[None if x is None else dt(x) for x in it['v']])
        return slice(*it['v'])
    if idx['t'] == 'tuple':
        return tuple(item(i) for i in idx['v'])
    return item(idx)


def _orient_arg(op):
    from highdicom.enum import PatientOrientationValuesBiped as P
    if op['form'] == 'str':
        return op['o']
    if op['form'] == 'list':
        return list(op['o'])
    return tuple(P(c) for c in op['o'])


def apply_op(obj, op, is_volume, state=None):
    """Apply one op to a Volume (is_volume) or VolumeGeometry.  Returns the result or raises.  Ops that do not
    exist for geometries return the object itself."""
    k = op['op']
    pad_kw = {}
    if 'mode' in op:
        mode = op['mode']
        if op.get('mode_enum'):
            from highdicom.enum import PadModes
            mode = PadModes(mode.upper())
        pad_kw = {'mode': mode, 'constant_value': op['cval'], 'per_channel': op['per_channel']}
    if k == 'getitem':
        return obj[_py_index(op['index'])]
    sp = op.get('arg_spelling')        # list / tuple / ndarray of Python or numpy integers (guide 3a)
    if k == 'flip':
        return obj.flip_spatial(_spell_seq(op['axes'], sp) if isinstance(op['axes'], list) else op['axes'])
    if k == 'permute':
        return obj.permute_spatial_axes(_spell_seq(op['indices'], sp))
    if k == 'swap':
        if sp in ('np-list', 'ndarray', 'np-scalar'):
            return obj.swap_spatial_axes(np.int64(op['a']), np.int32(op['b']))
        return obj.swap_spatial_axes(op['a'], op['b'])
    if k == 'pad':
        w = op['width']
        if op.get('np_width'):
            dt = getattr(np, op['np_width'])      # every width form spelled with numpy integers (signed or unsigned)
            if isinstance(w, int):
                w = dt(w)
            elif w and isinstance(w[0], list):
                w = [[dt(x) for x in p] for p in w]
            else:
                w = [dt(x) for x in w]
                if op.get('np_tuple'):
                    w = tuple(w)
        return obj.pad(w, **pad_kw)
    if k in ('pad_to', 'crop_to', 'pad_or_crop_to'):
        shp = op['shape']
        if op.get('np_shape') and all(isinstance(x, int) and x >= 0 for x in shp):
            kind, dtname = op['np_shape']        # the requested shape spelled as numpy array / list of numpy scalars
            dt = getattr(np, dtname)
            shp = np.array(shp, dtype=dt) if kind == 'array' else [dt(x) for x in shp]
    if k == 'pad_to':
        return obj.pad_to_spatial_shape(shp, **pad_kw)
    if k == 'crop_to':
        return obj.crop_to_spatial_shape(shp)
    if k == 'pad_or_crop_to':
        return obj.pad_or_crop_to_spatial_shape(shp, **pad_kw)
    if k == 'to_orientation':
        return obj.to_patient_orientation(_orient_arg(op))
    if k == 'ensure_handedness':
        kw = {}
        if 'flip_axis' in op:
            kw['flip_axis'] = op['flip_axis']
        if 'swap_axes' in op:
            kw['swap_axes'] = op['swap_axes']
        return obj.ensure_handedness(op['h'], **kw)
    if k == 'copy':
        return obj.copy()
    if k == 'with_array':
        if is_volume:
            return obj.with_array(_with_array_arg(obj, op))
        return obj   # geometry twin: handled by the caller (geometry.with_array gives a Volume)
    if not is_volume:
        return obj
    if k == 'get_channel':
        descs = obj.channel_descriptors
        kw = {}
        for d, vi in op['sel'].items():
            d = int(d)
            vals = obj.get_channel_values(descs[d])
            kw[descs[d].keyword] = vals[vi] if vi < len(vals) else _missing_value(vals)
        return obj.get_channel(keepdims=op['keepdims'], **kw)
    if k == 'permute_channels':
        return obj.permute_channel_axes_by_index(op['indices'])
    if k == 'permute_channels_by_id':
        descs = obj.channel_descriptors
        idens = []
        for i in op['indices']:
            idens.append(descs[i] if 0 <= i < len(descs) else 'PatientName')
        return obj.permute_channel_axes(idens)
    raise AssertionError(k)


def _missing_value(vals):
    v = vals[0]
    from enum import Enum
    if isinstance(v, Enum):
        others = [m for m in type(v) if m not in vals]
        return others[0] if others else 'Q'
    if isinstance(v, str):
        return 'absent'
    return type(v)(987654)


def _with_array_arg(v, op):
    a = v.array
    if op['kind'] == 'shift':
        return a + (4096 if a.dtype.kind != 'f' else 2048.0)
    if op['kind'] == 'same':
        return a.copy()
    if op['kind'] == 'drop':
        return np.ascontiguousarray(a[(slice(None),) * 3 + (0,) * (a.ndim - 3)])
    return np.zeros((a.shape[0] + 1,) + a.shape[1:], dtype=a.dtype)


def _err_kind(e):
    return {'IndexError': 'index', 'ValueError': 'value', 'TypeError': 'type', 'RuntimeError': 'runtime',
            'KeyError': 'key', 'AttributeError': 'attribute'}.get(type(e).__name__, 'other')


def _snapshot(v):
    return (v.array.tobytes(), v.array.shape, str(v.array.dtype), v.affine.tobytes(),
            tuple((_desc_name(d), tuple(repr(x) for x in v.get_channel_values(d))) for d in v.channel_descriptors),
            str(v.coordinate_system), v.frame_of_reference_uid)


def _channels_obs(v):
    return [[_desc_name(d), [repr(x) for x in v.get_channel_values(d)]] for d in v.channel_descriptors]


# ------------------------------------------------------------------------------------------ oracle
def _exactness(aff):
    """True when every entry is a multiple of 2^-12 below 2^14 (then all float arithmetic below is exact)."""
    s = aff[:3] * 4096.0
    return bool(np.all(s == np.round(s)) and np.all(np.abs(aff[:3]) < 16384))


def _all_indices(shape):
    return np.indices(shape).reshape(3, -1).T


def _source_indices(a_in, a_out, out_shape, exact):
    """For every output voxel j: its position under the output affine expressed as an index of the input grid.
    Returns (float indices (n,3), on_grid mask, positions)."""
    j = _all_indices(out_shape).astype(np.float64)
    pos = j @ a_out[:3, :3].T + a_out[:3, 3]
    rel = pos - a_in[:3, 3]
    cols = a_in[:3, :3]
    n2 = (cols ** 2).sum(axis=0)
    num = rel @ cols                    # (n,3): projections on the input columns
    if exact:
        # num / n2 is an integer iff num is an exact multiple (all quantities exact dyadics)
        q = num / n2
        on = np.all(q == np.round(q), axis=1)
        # the voxel is on the grid only if the reconstruction is exact as well
        rec = np.round(q) @ cols.T
        on &= np.all(rec == rel, axis=1)
        return np.round(q), on, pos
    q = num / n2
    rq = np.round(q)
    scale = max(1.0, float(np.abs(a_in[:3]).max()), float(np.abs(pos).max()) if len(pos) else 1.0)
    rec = rq @ cols.T
    on = np.all(np.abs(rec - rel) <= scale * 2.0 ** -38, axis=1)
    return rq, on, pos


def _pad_value_expected(vout, op, jout, inr, new, in_dtype):
    """Expected values of the new voxels: the padding of the mode, computed from the retained block of the OUTPUT
    (for a plain pad that block is the whole input; pad_or_crop pads what is left after cropping)."""
    mode = op['mode'].upper()
    a = vout.array
    cshape = a.shape[3:]
    lo = jout[inr].min(axis=0)
    hi = jout[inr].max(axis=0)
    block = a[lo[0]:hi[0] + 1, lo[1]:hi[1] + 1, lo[2]:hi[2] + 1]
    per_channel = op['per_channel'] and mode in ('MINIMUM', 'MAXIMUM', 'MEAN', 'MEDIAN') and len(cshape) > 0 and cshape != (1,)
    n = int(new.sum())
    if mode == 'EDGE':
        cl = np.clip(jout[new], lo, hi)
        return a[cl[:, 0], cl[:, 1], cl[:, 2]]
    if mode == 'CONSTANT':
        val = np.array(op['cval']).astype(in_dtype).astype(a.dtype)
        return np.broadcast_to(val, (n,) + cshape)
    f = {'MINIMUM': np.min, 'MAXIMUM': np.max, 'MEAN': np.mean, 'MEDIAN': np.median}[mode]
    if per_channel:
        val = f(block, axis=(0, 1, 2))
        return np.broadcast_to(val.astype(in_dtype).astype(a.dtype), (n,) + cshape)
    val = np.array(f(block)).astype(in_dtype).astype(a.dtype)
    return np.broadcast_to(val, (n,) + cshape)


SPATIAL_BIJECTIVE = {'flip', 'permute', 'swap', 'to_orientation', 'ensure_handedness', 'copy', 'with_array',
                     'get_channel', 'permute_channels', 'permute_channels_by_id'}
PAD_OPS = {'pad', 'pad_to', 'pad_or_crop_to'}


def oracle_step(ctx, case, vin, vout, op, exact, site):
    """The property's statement for one accepted step, on the real objects."""
    ok = True
    a_in, a_out = vin.affine, vout.affine

    def fail(msg, **kw):
        nonlocal ok
        ok = False
        ctx.fail(case, {'what': msg, **kw}, site=site)

    # affine stays scaled orthogonal, last row fixed
    if not np.array_equal(a_out[3], np.array([0.0, 0.0, 0.0, 1.0])):
        fail('last row of the affine is not 0 0 0 1', affine=a_out.tolist())
    gram = a_out[:3, :3].T @ a_out[:3, :3]
    off = gram - np.diag(np.diag(gram))
    tol = 0.0 if exact else float(np.abs(gram).max()) * 2.0 ** -40
    if np.abs(off).max() > tol or np.any(np.diag(gram) <= 0):
        fail('affine is no longer scaled orthogonal', gram=gram.tolist())
    if not ok:
        return False
    sp_in, sp_out = tuple(vin.spatial_shape), tuple(vout.spatial_shape)
    if min(sp_out) < 1:
        fail('empty spatial shape', shape=list(sp_out))
        return False
    q, on, pos = _source_indices(a_in, a_out, sp_out, exact)
    inr = on & np.all((q >= 0) & (q < np.array(sp_in)), axis=1)
    jout = _all_indices(sp_out)
    kind = op['op']
    chan_op = kind in ('get_channel', 'permute_channels', 'permute_channels_by_id') or \
        (kind == 'with_array')
    # ---- retained voxels keep their value
    if not chan_op:
        if vout.array.shape[3:] != vin.array.shape[3:]:
            fail('channel shape changed by a spatial operation', before=list(vin.array.shape), after=list(vout.array.shape))
            return False
        src = q[inr].astype(int)
        got = vout.array[jout[inr, 0], jout[inr, 1], jout[inr, 2]]
        want = vin.array[src[:, 0], src[:, 1], src[:, 2]]
        if not (np.array_equal(got.astype(want.dtype), want) and np.array_equal(got, want.astype(got.dtype))):
            bad = np.argwhere(np.any((got.astype(want.dtype) != want).reshape(len(got), -1), axis=1)).ravel()[:3]
            fail('a retained voxel does not hold the value it had at this physical position',
                 examples=[{'out_index': jout[inr][b].tolist(), 'in_index': src[b].tolist(),
                            'got': np.asarray(got[b]).tolist(), 'want': np.asarray(want[b]).tolist()} for b in bad])
    else:
        if not inr.all() or sp_in != sp_out:
            fail('a channel / array operation changed the geometry', before=list(sp_in), after=list(sp_out))
    # ---- new voxels
    new = ~inr
    if new.any():
        if kind not in PAD_OPS:
            fail('voxels that were not in the input appear after a non-padding operation', count=int(new.sum()),
                 example={'out_index': jout[new][0].tolist(), 'position': pos[new][0].tolist()})
        elif not on[new].all():
            fail('padding voxels are not on the input lattice', count=int((~on[new]).sum()))
        elif not inr.any():
            fail('no voxel of the input survives the padding operation')
        else:
            want = _pad_value_expected(vout, op, jout, inr, new, vin.array.dtype)
            got = vout.array[jout[new, 0], jout[new, 1], jout[new, 2]]
            # float statistics of integers beyond 2**52 are rounded inside numpy (order of summation): tolerance there
            rounded = got.dtype.kind == 'f' or (op['mode'].upper() in ('MEAN', 'MEDIAN') and
                                                float(np.abs(vin.array).max()) > 2.0 ** 52)
            same = np.array_equal(got, want) if not rounded else \
                np.allclose(got.astype(np.float64), np.asarray(want, dtype=np.float64), rtol=2.0 ** -40, atol=0)
            if not same:
                fail('new voxels do not hold the padding value of the mode', mode=op['mode'],
                     got=np.asarray(got).reshape(len(got), -1)[:3].tolist(),
                     want=np.asarray(want).reshape(len(got), -1)[:3].tolist())
    # ---- nothing retained is lost / requested shapes
    n_ret = int(inr.sum())
    if kind in SPATIAL_BIJECTIVE or kind == 'pad' or kind == 'pad_to':
        if n_ret != int(np.prod(sp_in)):
            fail('voxels of the input are missing from the output', retained=n_ret, input=int(np.prod(sp_in)))
    if kind in ('pad_to', 'crop_to', 'pad_or_crop_to') and list(sp_out) != list(op['shape']):
        fail('result does not have the requested spatial shape', got=list(sp_out), want=list(op['shape']))
    if kind == 'pad_or_crop_to':
        want_ret = int(np.prod([min(a, b) for a, b in zip(sp_in, op['shape'])]))
        if n_ret != want_ret:
            fail('pad_or_crop keeps the wrong number of voxels', retained=n_ret, want=want_ret)
    if kind in ('crop_to', 'getitem') and n_ret != int(np.prod(sp_out)):
        fail('output of a cropping operation contains voxels that are not input voxels', retained=n_ret)
    # ---- pad: the documented meaning of the width forms - `before` voxels in front, `after` behind, per axis
    if kind == 'pad' and _valid_width(op['width']):
        w = op['width']
        full = [[w, w]] * 3 if isinstance(w, int) else ([list(w)] * 3 if isinstance(w[0], int) else
                                                         [[p[0], p[0]] if len(p) == 1 else list(p) for p in w])
        want_shape = [n + b + a for n, (b, a) in zip(sp_in, full)]
        origin = vout.map_indices_to_reference(np.array([[b for b, _ in full]]))[0]
        same = np.array_equal(origin, a_in[:3, 3]) if exact else np.allclose(origin, a_in[:3, 3], rtol=2.0 ** -40, atol=2.0 ** -36)
        if list(sp_out) != want_shape or not same:
            fail('pad did not put `before` voxels in front and `after` voxels behind each axis', width=w,
                 got_shape=list(sp_out), want_shape=want_shape)
    # ---- map_indices_to_reference agrees with the affine (the observation named in the property)
    mi = vout.map_indices_to_reference(jout[: min(len(jout), 64)])
    if exact:
        if not np.array_equal(mi, pos[: len(mi)]):
            fail('map_indices_to_reference disagrees with the affine')
    elif not np.allclose(mi, pos[: len(mi)], rtol=2.0 ** -40, atol=2.0 ** -40):
        fail('map_indices_to_reference disagrees with the affine')
    # ---- the inverse map of the result AND of the input (asked after the result was derived from it) invert their OWN affine
    probe = jout[: min(len(jout), 8)].astype(np.float64)
    for who, obj_, aff in (('result', vout, a_out), ('input', vin, a_in)):
        refp = probe @ aff[:3, :3].T + aff[:3, 3]
        try:
            back = obj_.map_reference_to_indices(refp)
        except Exception as e:  # noqa: BLE001
            fail(f'map_reference_to_indices of the {who} raised {type(e).__name__}: {e}'[:200])
            continue
        if not np.allclose(back, probe, rtol=0, atol=2.0 ** -20):
            fail(f'map_reference_to_indices of the {who} does not invert its own affine (after the operation)',
                 got=np.asarray(back).tolist()[:3], want=probe.tolist()[:3])
    # ---- op-specific postconditions
    if kind == 'to_orientation' and exact:
        got = ''.join(x.value for x in vout.get_closest_patient_orientation())
        if got != op['o']:
            fail('to_patient_orientation did not reach the requested orientation', got=got, want=op['o'])
    if kind == 'ensure_handedness' and vout.handedness.value != op['h']:
        fail('ensure_handedness did not produce the requested handedness', got=vout.handedness.value)
    # ---- channels carried along
    if not chan_op and _channels_obs(vin) != _channels_obs(vout):
        fail('channel descriptors / values changed by a spatial operation', before=_channels_obs(vin), after=_channels_obs(vout))
    if str(vin.coordinate_system) != str(vout.coordinate_system) or vin.frame_of_reference_uid != vout.frame_of_reference_uid:
        fail('coordinate system / frame of reference not carried along')
    return ok


def oracle_channel_op(ctx, case, vin, vout, op, site):
    """Channel selection / permutation: the array is the expected numpy selection and the descriptors follow the data."""
    a = vin.array
    before = _channels_obs(vin)
    k = op['op']
    if k == 'get_channel':
        idx = [slice(None)] * a.ndim
        want_ch = []
        for d, (name, vals) in enumerate(before):
            if str(d) in op['sel']:
                vi = op['sel'][str(d)]
                if op['keepdims']:
                    idx[3 + d] = slice(vi, vi + 1)
                    want_ch.append([name, [vals[vi]]])
                else:
                    idx[3 + d] = vi
            else:
                want_ch.append([name, vals])
        want = a[tuple(idx)]
    else:
        p = op['indices']
        want = np.transpose(a, [0, 1, 2] + [3 + i for i in p])
        want_ch = [before[i] for i in p]
    if vout.array.shape != want.shape or not np.array_equal(vout.array, want):
        ctx.fail(case, {'what': 'channel operation returned the wrong array', 'got_shape': list(vout.array.shape),
                        'want_shape': list(want.shape)}, site=site)
    if _channels_obs(vout) != want_ch:
        ctx.fail(case, {'what': 'channel descriptors do not follow the data', 'got': _channels_obs(vout), 'want': want_ch}, site=site)


# ------------------------------------------------------------------------------------------ independence of results
# copy() and the padding operations must hand back an array of their own (copy by name; numpy.pad always allocates):
# working in place on the result (documented usage: `vol.array /= 100`) must not reach the input.  Indexing, flipping,
# permuting, swapping, cropping, re-orienting, channel selection / permutation follow numpy's view semantics (the
# documentation promises "largely similar to any NumPy array", no independence), ensure_handedness may return the object
# itself ("returned unaltered"), with_array uses the caller's array: for those, sharing is recorded, not a failure.
FRESH_OPS = {'copy', 'pad', 'pad_to', 'pad_or_crop_to'}


def _valid_width(w):
    """one of the four documented forms with non-negative integers"""
    if isinstance(w, int):
        return w >= 0
    if not isinstance(w, list) or not w:
        return False
    if all(isinstance(x, int) for x in w):
        return len(w) == 2 and min(w) >= 0
    if all(isinstance(p, list) for p in w) and len(w) == 3:
        return len({len(p) for p in w}) == 1 and len(w[0]) in (1, 2) and all(isinstance(x, int) and x >= 0 for p in w for x in p)
    return False


def independence_probe(ctx, case, vin, vout, op, before, site):
    shares = bool(np.shares_memory(vout.array, vin.array))
    ctx.hist('result_shares_buffer_with_input', f"{op['op']}:{'shared' if shares else 'own'}")
    if op['op'] not in FRESH_OPS:
        return
    if vout is vin:
        ctx.fail(case, {'what': f"{op['op']} returned the input object itself"}, site=site + '/independence')
        return
    if shares:
        ctx.fail(case, {'what': f"the array of the result of {op['op']} shares its buffer with the input's array "
                                '(an in-place edit of the result changes the original)'}, site=site + '/independence')
    # behavioural confirmation on a second result of the same call (the first one goes on through the history)
    try:
        probe = apply_op(vin, op, True)
    except Exception:  # noqa: BLE001
        return
    out_before = vout.array.tobytes()
    a = probe.array
    if a.flags.writeable and a.size:
        if a.dtype.kind == 'b':
            np.logical_not(a, out=a)
        else:
            np.add(a, 1, out=a, casting='unsafe')
        if _snapshot(vin) != before:
            ctx.fail(case, {'what': f"editing the array of the result of {op['op']} in place changed the ORIGINAL volume"},
                     site=site + '/independence')
        if vout.array.tobytes() != out_before:
            ctx.fail(case, {'what': f"two results of the same {op['op']} call share their array"}, site=site + '/independence')
    elif not a.flags.writeable:
        ctx.hist('result_not_writeable', op['op'])


# ------------------------------------------------------------------------------------------ observations for the model
def _frac_str(x):
    f = Fraction(float(x))
    return str(f.numerator) if f.denominator == 1 else f'{f.numerator}/{f.denominator}'


def _fr(f):
    return str(f.numerator) if f.denominator == 1 else f'{f.numerator}/{f.denominator}'


def observe(v, chan_ids=None):
    a = v.affine
    arr = v.array
    if arr.dtype.kind == 'f':
        flat = [_frac_str(x) for x in arr.reshape(-1)]
    else:
        flat = [int(x) for x in arr.reshape(-1)]
    return {'shape': list(arr.shape), 'affine': [[_frac_str(a[i, j]) for j in range(4)] for i in range(3)], 'arr': flat,
            'isint': arr.dtype.kind != 'f', 'channels': _channels_obs(v)}


def observe_geom(g):
    a = g.affine
    return {'shape': list(g.spatial_shape), 'affine': [[_frac_str(a[i, j]) for j in range(4)] for i in range(3)]}


def _parse_fr(s):
    if isinstance(s, int):
        return Fraction(s)
    return Fraction(s)



# ------------------------------------------------------------------------------------------ end-of-history checks
class _RecordDraws:
    """records what numpy's global generator hands to the library during one call"""

    def __enter__(self):
        self.log = []
        self.o_randint, self.o_perm = np.random.randint, np.random.permutation

        def randint(*a, **k):
            x = self.o_randint(*a, **k)
            self.log.append(('randint', [int(t) for t in a], int(x)))
            return x

        def permutation(x):
            y = self.o_perm(x)
            self.log.append(('permutation', [int(t) for t in np.asarray(x).tolist()], [int(t) for t in np.asarray(y).tolist()]))
            return y
        np.random.randint, np.random.permutation = randint, permutation
        return self

    def __exit__(self, *exc):
        np.random.randint, np.random.permutation = self.o_randint, self.o_perm
        return False


def _geom_req(obj):
    a = obj.affine
    return {'affine': [[_frac_str(a[i, j]) for j in range(4)] for i in range(3)], 'shape': [int(x) for x in obj.spatial_shape]}


def _random_args(r, shape):
    """(method, python arguments, model request fields); a share of the arguments is invalid"""
    kind = r.choice(['crop', 'crop', 'flip', 'permute'])
    bad = r.random() < 0.15
    if kind == 'crop':
        tgt = [r.randint(1, n) for n in shape]
        if bad:
            k = r.randrange(3)
            tgt[k] = r.choice([shape[k] + 1, shape[k] + 3, 0])
        elif r.random() < 0.12:
            tgt = r.choice([tgt[:2], tgt + [7], tgt[:1]])     # zip() stops at the shorter sequence: accepted by the source
        sp = r.choice(['list', 'list', 'tuple', 'int64', 'uint8', 'int32arr'])
        arg = tgt
        if sp == 'tuple':
            arg = tuple(tgt)
        elif sp == 'int64':
            arg = [np.int64(x) for x in tgt]
        elif sp == 'uint8':
            arg = np.array(tgt, dtype=np.uint8)
        elif sp == 'int32arr':
            arg = np.array(tgt, dtype=np.int32)
        return 'random_spatial_crop', arg, {'kind': 'crop', 'crop': tgt}, sp
    axes = r.choice([(0, 1, 2), (0, 2), (1, 2), (0, 1), (2, 0), (2, 1, 0), (1, 0, 2), (1, 0)])
    if bad:
        axes = r.choice([(0,), (0, 0), (0, 3), (0, 1, 2, 0), (), (-1, 0), (1, 1, 2)])
    sp = r.choice(['tuple', 'list', 'default'])
    if sp == 'default':
        axes = (0, 1, 2)
    arg = list(axes) if sp == 'list' else tuple(axes)
    if kind == 'flip':
        return 'random_flip_spatial', arg, {'kind': 'flip', 'axes': list(axes)}, sp
    return 'random_permute_spatial_axes', arg, {'kind': 'permute', 'axes': list(axes)}, sp


def _call_random(obj, name, arg, sp, seed):
    np.random.seed(seed)
    with _RecordDraws() as rec:
        try:
            res = getattr(obj, name)() if sp == 'default' else getattr(obj, name)(arg)
            return res, None, rec.log
        except Exception as e:  # noqa: BLE001
            return None, e, rec.log


def random_conveniences(ctx, spec, v, g, r, exact, reqs, pending):
    before = _snapshot(v)
    for _ in range(2):
        name, arg, mreq, sp = _random_args(r, list(v.spatial_shape))
        seed = r.randrange(2 ** 31)
        case = {'hist': spec['idx'], 'step': 'end', 'op': {'op': name, 'arg': mreq, 'spelling': sp, 'np_seed': seed}}
        res, err, log = _call_random(v, name, arg, sp, seed)
        gres, gerr, glog = _call_random(g, name, arg, sp, seed)
        ctx.case(op=name, outcome='ok' if err is None else type(err).__name__, random_spelling=f'{name}/{sp}',
                 nontrivial_key=(name, tuple(v.spatial_shape), spec['idx'], json.dumps(mreq, sort_keys=True)) if err is None else None)
        if (err is None) != (gerr is None) or log != glog:
            ctx.fail(case, {'what': 'volume and geometry disagree on a random_* call with the same generator state',
                            'volume': 'ok' if err is None else f'{type(err).__name__}: {err}'[:200],
                            'geometry': 'ok' if gerr is None else f'{type(gerr).__name__}: {gerr}'[:200]}, site=name + '/geometry')
        # ---- what must be accepted (documented argument forms)
        shape = list(v.spatial_shape)
        if name == 'random_spatial_crop':
            tgt = mreq['crop']
            valid = len(tgt) == 3 and all(1 <= c <= n for c, n in zip(tgt, shape))
        else:
            ax = mreq['axes']
            valid = len(ax) in (2, 3) and len(set(ax)) == len(ax) and set(ax) <= {0, 1, 2}
        if valid and err is not None:
            ctx.fail(case, {'what': f'{name} refused valid arguments: {type(err).__name__}: {err}'[:300]}, site=name)
        if not valid and err is None and not (name == 'random_spatial_crop' and len(mreq['crop']) != 3):
            ctx.fail(case, {'what': f'{name} accepted invalid arguments', 'arg': mreq}, site=name)
        # ---- the values asked of the generator: randint(0, n - c + 1) per axis, randint(2) per listed axis, permutation(axes)
        draws = [x[2] for x in log]
        if err is None:
            if name == 'random_spatial_crop':
                want = [[0, n - c + 1] for c, n in zip(mreq['crop'], shape)]
                if [x[1] for x in log] != want:
                    ctx.fail(case, {'what': 'random_spatial_crop draws from the wrong range', 'asked': [x[1] for x in log], 'want': want}, site=name)
            elif name == 'random_flip_spatial':
                if [x[1] for x in log] != [[2]] * len(mreq['axes']):
                    ctx.fail(case, {'what': 'random_flip_spatial does not draw one bit per listed axis', 'asked': [x[1] for x in log]}, site=name)
            else:
                if len(log) != 1 or log[0][0] != 'permutation' or sorted(log[0][1]) != sorted(mreq['axes']):
                    ctx.fail(case, {'what': 'random_permute_spatial_axes does not permute `axes`', 'asked': log}, site=name)
            # ---- the property on the result
            rop = {'op': {'random_spatial_crop': 'getitem', 'random_flip_spatial': 'flip', 'random_permute_spatial_axes': 'permute'}[name]}
            oracle_step(ctx, case, v, res, rop, exact, name)
            if name != 'random_spatial_crop':
                # axes that are not listed keep their place, size and affine column (flip: also their direction)
                for d in range(3):
                    if d not in mreq['axes'] and (int(res.spatial_shape[d]) != int(v.spatial_shape[d])
                                                  or not np.array_equal(res.affine[:3, d], v.affine[:3, d])):
                        ctx.fail(case, {'what': f'{name} touched axis {d}, which is not listed in `axes`', 'axes': mreq['axes'],
                                        'drawn': log}, site=name)
                        break
            if name == 'random_spatial_crop' and list(res.spatial_shape)[:len(mreq['crop'])] != list(mreq['crop'])[:3]:
                ctx.fail(case, {'what': 'random_spatial_crop: result does not have the requested shape',
                                'got': list(res.spatial_shape), 'want': mreq['crop']}, site=name)
            if gerr is None:
                same = np.array_equal(gres.affine, res.affine) if exact else np.allclose(gres.affine, res.affine, rtol=2.0 ** -40, atol=2.0 ** -40)
                if tuple(gres.spatial_shape) != tuple(res.spatial_shape) or not same:
                    ctx.fail(case, {'what': 'geometry-only object did not undergo the same change (random_*)'}, site=name + '/geometry')
        # ---- the model with the recorded draws
        m = dict(_geom_req(v))
        m.update(mreq)
        if mreq['kind'] == 'permute':
            m['drawn'] = log[0][2] if log and log[0][0] == 'permutation' else list(mreq['axes'])
        else:
            m['draws'] = draws
        reqs.append(('randomOp', m))
        pending.append({'extra': 'random', 'case': case, 'exact': exact,
                        'impl': {'err': _err_kind(err)} if err is not None else {'ok': observe_geom(res)}})
    if _snapshot(v) != before:
        ctx.fail({'hist': spec['idx'], 'step': 'end'}, {'what': 'a random_* method modified its input'}, site='random')
    # a long axis (beyond the range of the narrow numpy integer types) with every spelling of the requested shape
    if r.random() < 0.2:
        from highdicom.volume import VolumeGeometry
        big = VolumeGeometry(g.affine, [r.choice([256, 300, 70000]), int(g.spatial_shape[1]), int(g.spatial_shape[2])],
                             str(g.coordinate_system.value))
        tgt = [r.randint(1, 200), r.randint(1, int(g.spatial_shape[1])), r.randint(1, int(g.spatial_shape[2]))]
        dt = r.choice(['uint8', 'int16', 'uint16', 'int64'])
        arg = np.array(tgt, dtype=getattr(np, dt)) if r.random() < 0.5 else [getattr(np, dt)(x) for x in tgt]
        case = {'hist': spec['idx'], 'step': 'end', 'op': {'op': 'random_spatial_crop', 'long_axis': int(big.spatial_shape[0]),
                                                            'crop': tgt, 'dtype': dt}}
        ctx.case(op='random_spatial_crop/long_axis', outcome='ok', random_spelling=f'random_spatial_crop/long/{dt}')
        try:
            res = big.random_spatial_crop(arg)
            if [int(x) for x in res.spatial_shape] != tgt:
                ctx.fail(case, {'what': 'random_spatial_crop: result does not have the requested shape', 'got': list(res.spatial_shape)},
                         site='random_spatial_crop')
        except Exception as e:  # noqa: BLE001
            ctx.fail(case, {'what': f'random_spatial_crop refused valid arguments: {type(e).__name__}: {e}'[:300]},
                     site='random_spatial_crop')


ACCESSORS = ['position', 'spacing', 'pixel_spacing', 'spacing_between_slices', 'direction_cosines', 'direction',
             'spacing_vectors', 'unit_vectors', 'voxel_volume', 'physical_extent', 'physical_volume', 'center_indices',
             'nearest_center_indices', 'affine', 'center_position']


def _flat(x):
    if isinstance(x, np.ndarray):
        return [y for row in x.tolist() for y in _flat(row)] if x.ndim > 0 else [x.item()]
    if isinstance(x, (list, tuple)):
        return [y for el in x for y in _flat(el)]
    return [x]


def accessors_check(ctx, spec, obj, who, exact, reqs, pending, r_conv=None, conv_spelling=None):
    """Oracle: every accessor recomputed from `affine` and `spatial_shape` by independent numpy; recomposition
    position + direction @ (spacing * index) = map_indices_to_reference(index); model: the regenerated accessor expressions."""
    case = {'hist': spec['idx'], 'step': 'end', 'op': {'op': 'accessors', 'on': who}}
    site = 'accessors'
    a = obj.affine
    shp = [int(x) for x in obj.spatial_shape]
    cols = a[:3, :3]
    norms = np.sqrt((cols * cols).sum(axis=0))
    unit = cols / norms
    got = {}
    for name in ACCESSORS:
        val = getattr(obj, name)
        got[name] = _flat(val() if callable(val) and name in ('spacing_vectors', 'unit_vectors') else val)
    got['affine'] = got['affine'][:12]
    want = {
        'position': a[:3, 3].tolist(), 'spacing': norms.tolist(), 'pixel_spacing': [norms[1], norms[2]],
        'spacing_between_slices': [norms[0]], 'direction_cosines': unit[:, 2].tolist() + unit[:, 1].tolist(),
        'direction': unit.reshape(-1).tolist(), 'spacing_vectors': cols.T.reshape(-1).tolist(),
        'unit_vectors': unit.T.reshape(-1).tolist(), 'voxel_volume': [float(np.prod(norms))],
        'physical_extent': [n * d for n, d in zip(shp, norms.tolist())],
        'physical_volume': [float(np.prod(norms)) * float(np.prod(shp))],
        'center_indices': [(n - 1) / 2 for n in shp], 'nearest_center_indices': [(n - 1) // 2 for n in shp],
        'affine': a[:3].reshape(-1).tolist(),
        'center_position': (a[:3, :3] @ np.array([(n - 1) / 2 for n in shp]) + a[:3, 3]).tolist(),
    }
    # get_affine(output_convention): the same physical points, coordinates along the three directions of the convention
    conv = r_conv if r_conv is not None else 'LPH'
    unitv = {'L': (0, 1.0), 'R': (0, -1.0), 'P': (1, 1.0), 'A': (1, -1.0), 'H': (2, 1.0), 'F': (2, -1.0)}
    want_conv = np.array([unitv[ch][1] * a[unitv[ch][0]] for ch in conv])
    spell = conv_spelling or 'str'
    if spell == 'list':
        carg = list(conv)
    elif spell == 'enum':
        from highdicom.enum import PatientOrientationValuesBiped as P_
        carg = tuple(P_(ch) for ch in conv)
    else:
        carg = conv
    try:
        got_conv = obj.get_affine(carg)
        if not np.array_equal(got_conv[:3], want_conv) or not np.array_equal(got_conv[3], np.array([0.0, 0.0, 0.0, 1.0])):
            ctx.fail(case, {'what': f'get_affine({conv!r}) is not the affine with the rows of the convention', 'got': got_conv.tolist(),
                            'want': want_conv.tolist()}, site='get_affine')
        if not np.array_equal(obj.get_affine(None), a):
            ctx.fail(case, {'what': 'get_affine(None) is not the affine'}, site='get_affine')
        if np.shares_memory(got_conv, obj._affine):
            ctx.fail(case, {'what': 'get_affine returns memory of the object'}, site='get_affine')
    except Exception as e:  # noqa: BLE001
        ctx.fail(case, {'what': f'get_affine({conv!r}) raised {type(e).__name__}: {e}'[:200]}, site='get_affine')
        got_conv = None
    ctx.hist('get_affine_convention', f'{spell}')
    for name in ACCESSORS:
        if name == 'center_position':
            got[name] = _flat(obj.center_position)
        g_, w_ = np.asarray(got[name], dtype=np.float64), np.asarray(want[name], dtype=np.float64)
        if g_.shape != w_.shape or not np.allclose(g_, w_, rtol=2.0 ** -45, atol=2.0 ** -45):
            ctx.fail(case, {'what': f'accessor {name} is not what the affine / shape say', 'got': got[name], 'want': want[name]}, site=site)
    # recomposition and centre
    idx = np.array([[0, 0, 0], [1, 2, 3], [shp[0] - 1, shp[1] - 1, shp[2] - 1], [-2, 5, 1]])
    rec = np.asarray(obj.position) + (idx * np.asarray(obj.spacing)) @ np.asarray(obj.direction).T
    ref = obj.map_indices_to_reference(idx)
    if not np.allclose(rec, ref, rtol=2.0 ** -40, atol=2.0 ** -36):
        ctx.fail(case, {'what': 'position + direction @ (spacing * index) differs from map_indices_to_reference'}, site=site)
    cen = obj.map_indices_to_reference(np.array([obj.center_indices]))[0]
    mid = (obj.map_indices_to_reference(np.array([[0, 0, 0]]))[0] + ref[2]) / 2
    if not (np.allclose(np.asarray(obj.center_position), cen, rtol=2.0 ** -40, atol=2.0 ** -36)
            and np.allclose(cen, mid, rtol=2.0 ** -40, atol=2.0 ** -36)):
        ctx.fail(case, {'what': 'center_position is not the midpoint of the first and the last voxel'}, site=site)
    det = float(np.linalg.det(cols))
    if (obj.handedness.value == 'LEFT_HANDED') != (det < 0):
        ctx.fail(case, {'what': 'handedness does not agree with the sign of the determinant', 'det': det}, site=site)
    # the constructor from components takes the accessors back to the same affine (position, or the centre instead; the closest
    # patient orientation instead of the direction when the axes lie along the patient axes)
    from highdicom.volume import VolumeGeometry
    scale = max(1.0, float(np.abs(a[:3]).max()))
    variants = [('position+direction', {'position': obj.position, 'direction': obj.direction}),
                ('center+direction', {'center_position': obj.center_position, 'direction': obj.direction}),
                ('position+flat-direction', {'position': list(obj.position), 'direction': np.asarray(obj.direction).reshape(-1).tolist()})]
    if exact and str(obj.coordinate_system.value) == 'PATIENT':
        variants.append(('position+orientation', {'position': obj.position,
                                                  'patient_orientation': ''.join(x.value for x in obj.get_closest_patient_orientation())}))
    for tag, kw in variants:
        try:
            rb = VolumeGeometry.from_components(spatial_shape=shp, spacing=obj.spacing, coordinate_system=obj.coordinate_system,
                                                frame_of_reference_uid=obj.frame_of_reference_uid, **kw)
        except Exception as e:  # noqa: BLE001
            ctx.fail(case, {'what': f'from_components({tag}) refused the accessors of a valid object: {type(e).__name__}: {e}'[:300]},
                     site='from_components')
            continue
        ctx.hist('from_components', tag)
        if not np.allclose(rb.affine, a, rtol=0, atol=scale * 2.0 ** -36) or tuple(rb.spatial_shape) != tuple(shp):
            ctx.fail(case, {'what': f'from_components({tag}) of the accessors does not give the affine back',
                            'got': rb.affine.tolist(), 'want': a.tolist()}, site='from_components')
    nc = got['nearest_center_indices']
    if any(not (0 <= k < n) for k, n in zip(nc, shp)):
        ctx.fail(case, {'what': 'nearest_center_indices is not a voxel', 'got': nc, 'shape': shp}, site=site)
    ctx.case(op='accessors', outcome='ok', nontrivial_key=('accessors', who, spec['idx']), accessor_on=who)
    mreq = _geom_req(obj)
    mreq['conv'] = ['LRPAHF'.index(ch) for ch in conv]
    got['get_affine'] = [] if got_conv is None else got_conv[:3].reshape(-1).tolist()
    reqs.append(('accessors', mreq))
    pending.append({'extra': 'accessors', 'case': case, 'exact': exact,
                    'impl': {k: ([int(x) for x in v_] if k == 'nearest_center_indices' else [_frac_str(x) for x in v_])
                             for k, v_ in got.items()},
                    'left_handed': obj.handedness.value == 'LEFT_HANDED'})


def _same_volume(a, b, exact):
    same_aff = np.array_equal(a.affine, b.affine) if exact else np.allclose(a.affine, b.affine, rtol=2.0 ** -40, atol=2.0 ** -36)
    return (tuple(a.spatial_shape) == tuple(b.spatial_shape) and same_aff and a.array.shape == b.array.shape
            and a.array.dtype == b.array.dtype and np.array_equal(a.array, b.array) and _channels_obs(a) == _channels_obs(b))


def inverse_pairs(ctx, spec, v, g, r, exact):
    """Oracle only: an operation followed by its inverse gives the volume back (shape, affine, array, channels); the
    geometry-only object likewise."""
    n = list(v.spatial_shape)
    kind = r.choice(['flip', 'permute', 'swap', 'pad_crop', 'pad_to_crop_to', 'orientation', 'pad_or_crop_back', 'handedness'])
    case = {'hist': spec['idx'], 'step': 'end', 'op': {'op': 'inverse_pair', 'kind': kind}}
    mode = r.choice(MODES)
    try:
        if kind == 'flip':
            axes = r.sample([0, 1, 2], r.randint(1, 3))
            case['op']['axes'] = axes
            f = lambda o: o.flip_spatial(axes).flip_spatial(list(reversed(axes)))  # noqa: E731
        elif kind == 'permute':
            p = [0, 1, 2]
            r.shuffle(p)
            inv = [p.index(k) for k in range(3)]
            case['op']['indices'] = p
            f = lambda o: o.permute_spatial_axes(p).permute_spatial_axes(inv)  # noqa: E731
        elif kind == 'swap':
            a, b = r.sample([0, 1, 2], 2)
            case['op']['axes'] = [a, b]
            f = lambda o: o.swap_spatial_axes(a, b).swap_spatial_axes(b, a)  # noqa: E731
        elif kind == 'pad_crop':
            w = [[r.randint(0, 3), r.randint(0, 3)] for _ in range(3)]
            case['op']['width'] = w
            f = lambda o: o.pad(w, **({'mode': mode} if hasattr(o, 'array') else {}))[  # noqa: E731
                w[0][0]:w[0][0] + n[0], w[1][0]:w[1][0] + n[1], w[2][0]:w[2][0] + n[2]]
        elif kind == 'pad_to_crop_to':
            tgt = [x + r.choice([0, 1, 2, 3, 4]) for x in n]
            case['op']['shape'] = tgt
            f = lambda o: o.pad_to_spatial_shape(tgt, **({'mode': mode} if hasattr(o, 'array') else {})).crop_to_spatial_shape(n)  # noqa: E731
        elif kind == 'pad_or_crop_back':
            tgt = [x + r.choice([0, 1, 2, 3]) for x in n]
            case['op']['shape'] = tgt
            f = lambda o: o.pad_or_crop_to_spatial_shape(tgt).pad_or_crop_to_spatial_shape(n)  # noqa: E731
        elif kind == 'handedness':
            other = 'LEFT_HANDED' if v.handedness.value == 'RIGHT_HANDED' else 'RIGHT_HANDED'
            ax = r.randrange(3)
            case['op']['flip_axis'] = ax
            f = lambda o: o.ensure_handedness(other, flip_axis=ax).ensure_handedness(v.handedness.value, flip_axis=ax)  # noqa: E731
        else:
            if spec['coord'] != 'PATIENT' or not exact:
                return
            cur = ''.join(x.value for x in v.get_closest_patient_orientation())
            o = r.choice(ORIENTATIONS)
            case['op']['via'] = o
            f = lambda o_: o_.to_patient_orientation(o).to_patient_orientation(cur)  # noqa: E731
        back = f(v)
        gback = f(g)
    except Exception as e:  # noqa: BLE001
        ctx.fail(case, {'what': f'an operation followed by its inverse was refused: {type(e).__name__}: {e}'[:300]}, site='inverse_pair')
        return
    ctx.case(op='inverse_pair/' + kind, outcome='ok', nontrivial_key=('inverse', kind, tuple(n), spec['idx']))
    if not _same_volume(v, back, exact):
        ctx.fail(case, {'what': 'an operation followed by its inverse does not give the volume back',
                        'shape': [list(v.array.shape), list(back.array.shape)],
                        'affine': [v.affine.tolist(), back.affine.tolist()]}, site='inverse_pair')
    same_aff = np.array_equal(g.affine, gback.affine) if exact else np.allclose(g.affine, gback.affine, rtol=2.0 ** -40, atol=2.0 ** -36)
    if tuple(g.spatial_shape) != tuple(gback.spatial_shape) or not same_aff:
        ctx.fail(case, {'what': 'an operation followed by its inverse does not give the geometry back'}, site='inverse_pair/geometry')


def foreign_index_items(ctx, spec, v, g, r, reqs, pending):
    """Index items that are neither int nor slice (None, Ellipsis, numpy integer, float, list): refused with TypeError by
    volume and geometry alike, nothing changes (the source only knows int and slice; bool is an int)."""
    n = list(v.spatial_shape)
    item = r.choice([None, Ellipsis, np.int64(0), 1.0, [0], np.uint8(0), 'a'])
    form = r.choice(['bare', 'first', 'second', 'last'])
    k0 = r.choice([0, 0, 0, n[0], -n[0] - 1])          # an int before the foreign item, sometimes out of range (refused first)
    F_ = {'foreign': True}
    if form == 'bare':
        idx, mitems = item, [F_]
    elif form == 'first':
        idx, mitems = (item, slice(None)), [F_, {'slice': [None, None, None]}]
    elif form == 'second':
        idx, mitems = (slice(None), item), [{'slice': [None, None, None]}, F_]
    else:
        idx, mitems = (k0, slice(0, 1), item), [{'int': k0}, {'slice': [0, 1, None]}, F_]
    case = {'hist': spec['idx'], 'step': 'end', 'op': {'op': 'getitem_foreign', 'item': repr(item), 'form': form, 'k0': k0}}
    before = _snapshot(v)
    outs = []
    for o in (v, g):
        try:
            o[idx]
            outs.append('ok')
        except Exception as e:  # noqa: BLE001
            outs.append(type(e).__name__)
    ctx.case(op='getitem_foreign', outcome=outs[0], foreign_item=type(item).__name__ + '/' + form)
    if outs[0] != outs[1]:
        ctx.fail(case, {'what': 'volume and geometry disagree on an index item of a foreign type', 'volume': outs[0], 'geometry': outs[1]},
                 site='getitem/geometry')
    if outs[0] == 'ok':
        ctx.fail(case, {'what': 'an index item that is neither int nor slice was accepted', 'shape': n}, site='getitem')
    if _snapshot(v) != before:
        ctx.fail(case, {'what': 'a refused index modified the volume'}, site='getitem')
    m = dict(_geom_req(g))
    m['items'] = mitems
    reqs.append(('getitemItems', m))
    pending.append({'extra': 'foreign', 'case': case, 'impl': {'err': {'TypeError': 'type', 'IndexError': 'index', 'ValueError': 'value'}.get(outs[1], 'other')}
                    if outs[1] != 'ok' else {'ok': True}})


def end_of_history(ctx, spec, v, g, r, exact, reqs, pending):
    u = r.random()
    if u < 0.5:
        random_conveniences(ctx, spec, v, g, r, exact, reqs, pending)
    rc_, cs_ = r.choice(ORIENTATIONS), r.choice(['str', 'list', 'enum'])
    if r.random() < 0.5:
        accessors_check(ctx, spec, v, 'volume', exact, reqs, pending, rc_, cs_)
    elif r.random() < 0.3:
        accessors_check(ctx, spec, g, 'geometry', exact, reqs, pending, rc_, cs_)
    if r.random() < 0.6:
        inverse_pairs(ctx, spec, v, g, r, exact)
    if r.random() < 0.15:
        foreign_index_items(ctx, spec, v, g, r, reqs, pending)


def compare_extra(ctx, pend, ans):
    case = pend['case']
    if 'proto_err' in ans:
        ctx.disagree('L0', case, 'n/a', ans, 'model protocol error')
        return
    if pend['extra'] == 'foreign':
        impl = pend['impl']
        if ('err' in impl) != ('err' in ans) or ('err' in impl and impl['err'] != ans['err']):
            ctx.disagree('L0', case, impl, ans, 'refusal of a foreign index item (kind of error included)')
        return
    if pend['extra'] == 'random':
        impl = pend['impl']
        ctx.hist('model_random', 'refused' if 'err' in impl else 'accepted')
        if ('err' in impl) != ('err' in ans):
            ctx.disagree('L0', case, impl if 'err' in impl else {'ok': impl['ok']['shape']}, ans, 'ok-vs-error (random_*)')
            return
        if 'ok' in impl:
            io, mo = impl['ok'], ans['ok']
            if io['shape'] != mo['shape'] or any(not _close(io['affine'][i][j], mo['affine'][i][j], pend['exact'])
                                                 for i in range(3) for j in range(4)):
                ctx.disagree('L0', case, io, mo, 'geometry after random_*')
        return
    mo = ans.get('ok')
    if mo is None:
        ctx.disagree('L0', case, 'accessors', ans, 'model refuses the geometry')
        return
    impl = pend['impl']
    if mo['left_handed'] != pend['left_handed']:
        ctx.disagree('L0', case, pend['left_handed'], mo['left_handed'], 'handedness')
    rootless = ['position', 'spacing_vectors', 'affine', 'center_indices', 'center_position', 'get_affine']
    names = (ACCESSORS + ['get_affine']) if mo['exact_sqrt'] else rootless + ['nearest_center_indices']
    ctx.hist('accessor_model', 'all (exact square roots)' if mo['exact_sqrt'] else 'root-free accessors only')
    for name in names:
        a, b = impl[name], mo[name]
        if name == 'nearest_center_indices':
            if a != b:
                ctx.disagree('L0', case, a, b, 'accessor nearest_center_indices')
            continue
        if b is None:
            ctx.disagree('L0', case, {name: a}, {name: None}, f'accessor {name}: the model has no such convention')
            return
        tight = (pend['exact'] or name in rootless) and name != 'center_position' or (pend['exact'] and name == 'center_position')
        if len(a) != len(b) or any(not _close(x, y, tight) for x, y in zip(a, b)):
            ctx.disagree('L0', case, {name: a}, {name: b}, f'accessor {name}')
            return


# ------------------------------------------------------------------------------------------ one history
def gen_case(ctx, idx):
    r = ctx.rng('hist', idx)
    spec = gen_volume_spec(ctx, r, idx)
    length = r.choice([1, 2, 3, 4, 5, 6, 8, 10, 12])
    return spec, length, r


def _model_op(op, vcur):
    """The op as sent to the model (with_array carries the array it installs)."""
    if op['op'] == 'with_array':
        try:
            a = _with_array_arg(vcur, op)
        except Exception:  # noqa: BLE001
            a = vcur.array
        flat = [_frac_str(x) for x in a.reshape(-1)] if a.dtype.kind == 'f' else [int(x) for x in a.reshape(-1)]
        return {'op': 'with_array', 'shape': list(a.shape), 'arr': flat, 'isint': a.dtype.kind != 'f'}
    if op['op'] == 'get_channel':
        return {'op': 'get_channel', 'sel': [[int(d), vi] for d, vi in sorted(op['sel'].items(), key=lambda t: int(t[0]))],
                'keepdims': op['keepdims']}
    if op['op'] == 'permute_channels_by_id':
        return {'op': 'permute_channels', 'indices': op['indices']}
    if op['op'] == 'getitem':
        idx = op['index']
        items = idx['v'] if idx['t'] == 'tuple' else [idx]
        return {'op': 'getitem', 'bare': idx['t'] != 'tuple',
                'items': [{'int': it['v']} if it['t'] == 'int' else {'slice': it['v']} for it in items]}
    if 'cval' in op:
        o = dict(op)
        o['cval'] = _frac_str(op['cval'])
        o['mode'] = op['mode'].upper()
        if o['op'] == 'pad':
            w = op['width']
            if isinstance(w, int):
                o['width'] = {'int': w}
            elif w and isinstance(w[0], int):
                o['width'] = {'flat': w}
            else:
                o['width'] = {'nested': w}
        return o
    if op['op'] == 'flip':
        return {'op': 'flip', 'axes': op['axes'] if isinstance(op['axes'], list) else [op['axes']],
                'bare': not isinstance(op['axes'], list)}
    if op['op'] == 'to_orientation':
        return {'op': 'to_orientation', 'o': op['o']}
    return op


def run_history(ctx, spec, length, r, reqs, pending):
    """Run one generated history on the implementation, apply the oracle, queue the model request."""
    v0, g0 = build(spec)
    want_aff = _spec_affine(spec)
    for who, o in (('Volume', v0), ('VolumeGeometry', g0)):
        if not np.array_equal(o.affine, want_aff):
            ctx.fail({'hist': spec['idx'], 'step': 'construct'},
                     {'what': f'{who} constructed from a float64 affine follows the caller\'s array: overwriting it in place after the '
                              'construction moved the object', 'got': o.affine.tolist(), 'want': want_aff.tolist()}, site='construct/alias')
            return
    clobber_returned_arrays(ctx, {'hist': spec['idx'], 'step': 'construct'}, v0, 'construct')
    clobber_returned_arrays(ctx, {'hist': spec['idx'], 'step': 'construct', 'on': 'geometry'}, g0, 'construct')
    exact = (not spec['oblique']) and _exactness(v0.affine)
    snap0 = _snapshot(v0)
    base = v0                 # baseline for the whole-history unique-value check
    base_ok = True            # all pads so far were CONSTANT with a value that is not a voxel id
    v, g = v0, g0
    shape = list(spec['shape'])
    cshape = [len(c['values']) for c in spec['channels']]
    model_ops, impl_obs = [], []
    oclass = 'oblique' if spec['oblique'] else 'axis'
    for step in range(length):
        op, new_shape, new_cshape = gen_op(ctx, r, shape, cshape, spec['coord'])
        case = {'hist': spec['idx'], 'step': step, 'op': op}
        site = op['op']
        before = _snapshot(v)
        mop = _model_op(op, v)
        try:
            g2 = apply_op(g, op, False)
            gerr = None
        except Exception as e:  # noqa: BLE001
            g2, gerr = None, e
        # the (cheap) geometry twin goes first: a result far larger than anything requested is reported at once and the
        # volume is not taken there (a wrapped unsigned size asks numpy for gigabytes)
        if gerr is None and op['op'] in PAD_OPS and int(np.prod([int(x) for x in g2.spatial_shape])) > 200000:
            ctx.fail(case, {'what': 'padding operation produced an absurdly large geometry', 'got': [int(x) for x in g2.spatial_shape],
                            'input_shape': list(v.spatial_shape), 'requested': op.get('shape', op.get('width'))}, site=site + '/geometry')
            model_ops.append(mop)
            impl_obs.append({'err': 'value', 'case': case})
            continue
        try:
            v2 = apply_op(v, op, True)
            err = None
        except Exception as e:  # noqa: BLE001
            v2, err = None, e
        # ---- original unchanged (also when the call was refused)
        if _snapshot(v) != before:
            ctx.fail(case, {'what': 'the input volume was modified by the call'}, site=site)
        nontriv = None
        hand = v.handedness.value[0]
        if err is None and int(np.prod(v.spatial_shape)) > 1:
            digest = json.dumps(op, sort_keys=True, default=str)
            nontriv = (op['op'], len(cshape), oclass, hand, tuple(v.spatial_shape), digest)
        form = ''
        if op['op'] == 'getitem':
            form = op['index']['t']
        elif op['op'] == 'pad':
            w = op['width']
            form = 'int' if isinstance(w, int) else ('pair' if w and isinstance(w[0], int) else f'nested{len(w[0]) if w else 0}')
        ctx.case(sample=case if (err is None and ctx.evaluations % 211 == 0) else None, nontrivial_key=nontriv,
                 op=op['op'], outcome='ok' if err is None else type(err).__name__, form=f"{op['op']}/{form}" if form else None,
                 mode=(op.get('mode') or '').upper() or None, channel_dims=len(cshape), orientation=oclass, handedness=hand,
                 shape_in='x'.join(map(str, sorted(v.spatial_shape))), coord=spec['coord'],
                 per_channel=op.get('per_channel'), layout=spec.get('layout', 'C'),
                 arg_spelling=(f"{op['op']}/{op['arg_spelling']}" if op.get('arg_spelling') else None),
                 index_spelling=('/'.join(sorted({it.get('sp', 'py') for it in (op['index']['v'] if op['index']['t'] == 'tuple'
                                                                                 else [op['index']])}))
                                 if op['op'] == 'getitem' else None))
        if op['op'] == 'copy' and err is not None:
            ctx.fail(case, {'what': f'copy() refused: {type(err).__name__}: {err}'[:300]}, site='copy')
        # ---- an index that selects at least one voxel per axis (CPython range) within the documented bounds is accepted
        if op['op'] == 'getitem':
            idx = op['index']
            items = idx['v'] if idx['t'] == 'tuple' else [idx]
            sizes = [_track_item(it, v.spatial_shape[d]) for d, it in enumerate(items[:3])]
            if len(items) <= 3 and all(x is not None for x in sizes):
                want_shape = sizes + list(v.spatial_shape[len(sizes):])
                if err is not None:
                    ctx.fail(case, {'what': f'a valid non-empty index was refused: {type(err).__name__}: {err}'[:300]}, site='getitem')
                elif list(v2.spatial_shape) != want_shape:
                    ctx.fail(case, {'what': 'result of indexing does not have the shape of the selection',
                                    'got': list(v2.spatial_shape), 'want': want_shape}, site='getitem')
        # ---- the four documented pad_width forms with non-negative integers (Python or numpy) are accepted
        if op['op'] == 'pad' and _valid_width(op['width']) and (err is not None or gerr is not None):
            e = err if err is not None else gerr
            ctx.fail(case, {'what': f'a valid pad_width was refused: {type(e).__name__}: {e}'[:300],
                            'spelling': op.get('np_width', 'int')}, site='pad')
        # ---- geometry twin is refused exactly when the volume is (spatial ops)
        spatial = op['op'] not in ('with_array', 'get_channel', 'permute_channels', 'permute_channels_by_id')
        if spatial and (err is None) != (gerr is None):
            ctx.fail(case, {'what': 'volume and geometry disagree on accepting the operation',
                            'volume': 'ok' if err is None else f'{type(err).__name__}: {err}'[:200],
                            'geometry': 'ok' if gerr is None else f'{type(gerr).__name__}: {gerr}'[:200]}, site=site + '/geometry')
        if err is None:
            if v2 is None or not hasattr(v2, 'affine'):
                ctx.fail(case, {'what': 'operation returned no volume'}, site=site)
                break
            independence_probe(ctx, case, v, v2, op, before, site)
            clobber_returned_arrays(ctx, case, v2, site)      # the caller overwrites what the accessors handed out, before the oracle
            good = oracle_step(ctx, case, v, v2, op, exact, site)
            if op['op'] in ('get_channel', 'permute_channels', 'permute_channels_by_id'):
                oracle_channel_op(ctx, case, v, v2, op, site)
            if op['op'] == 'with_array':
                want = _with_array_arg(v, op)
                if not np.array_equal(v2.array, want):
                    ctx.fail(case, {'what': 'with_array did not install the given array'}, site=site)
                if op['kind'] != 'drop' and _channels_obs(v2) != _channels_obs(v):
                    ctx.fail(case, {'what': 'with_array lost the channels'}, site=site)
            if spatial and gerr is None:
                same_aff = np.array_equal(g2.affine, v2.affine) if exact else \
                    np.allclose(g2.affine, v2.affine, rtol=2.0 ** -40, atol=2.0 ** -40)
                if tuple(g2.spatial_shape) != tuple(v2.spatial_shape) or not same_aff:
                    ctx.fail(case, {'what': 'geometry-only object did not undergo the same change',
                                    'volume': observe_geom(v2.get_geometry()), 'geometry': observe_geom(g2)}, site=site + '/geometry')
                vg2 = v2.get_geometry()
                if tuple(vg2.spatial_shape) != tuple(v2.spatial_shape) or not np.array_equal(vg2.affine, v2.affine) \
                        or str(vg2.coordinate_system) != str(v2.coordinate_system) \
                        or vg2.frame_of_reference_uid != v2.frame_of_reference_uid:
                    ctx.fail(case, {'what': 'get_geometry() of the result differs from the result'}, site=site + '/get_geometry')
                if type(g2).__name__ != 'VolumeGeometry' or type(v2).__name__ != 'Volume':
                    ctx.fail(case, {'what': 'result type changed'}, site=site)
            if op['op'] == 'with_array':
                # geometry.with_array(array) must give a volume at the geometry's place
                try:
                    vg = g.with_array(_with_array_arg(v, op), channels=None if v2.array.ndim == 3 else
                                      {d: v2.get_channel_values(d) for d in v2.channel_descriptors})
                    if not np.array_equal(vg.affine, g.affine) or tuple(vg.spatial_shape) != tuple(g.spatial_shape):
                        ctx.fail(case, {'what': 'VolumeGeometry.with_array changed shape or affine'}, site='with_array/geometry')
                except Exception as e:  # noqa: BLE001
                    ctx.fail(case, {'what': f'VolumeGeometry.with_array refused an array the volume accepts: {e}'[:200]},
                             site='with_array/geometry')
            elif op['op'] == 'with_array':
                pass
            # whole-history unique-value check
            if op['op'] in PAD_OPS:
                m = op['mode'].upper()
                if tuple(v2.spatial_shape) != tuple(v.spatial_shape):
                    # new voxels appear: their value must not be one of the (unique) values tracked from `base`
                    if m != 'CONSTANT' or bool(np.isin(np.array(op['cval']).astype(base.array.dtype), base.array)):
                        base_ok = False
            if op['op'] == 'with_array':
                base, base_ok = v2, True
            elif base_ok and good:
                _history_check(ctx, case, base, v2, exact, site)
            v = v2
            if spatial and gerr is None:
                g = g2
            if op['op'] == 'to_orientation' or op['op'] == 'ensure_handedness':
                new_shape = list(v.spatial_shape)   # bookkeeping only (depends on the current orientation)
            shape, cshape = list(v.spatial_shape), list(v.array.shape[3:])
        elif op['op'] == 'with_array' and op['kind'] == 'bad':
            # the geometry twin must refuse a mismatching array as the volume does
            try:
                g.with_array(_with_array_arg(v, op))
                ctx.fail(case, {'what': 'VolumeGeometry.with_array accepted an array of a different spatial shape '
                                        '(Volume.with_array refuses it)'}, site='with_array/geometry')
            except Exception:  # noqa: BLE001
                pass
        model_ops.append(mop)
        impl_obs.append({'err': _err_kind(err)} if err is not None else {'ok': observe(v2)})
        impl_obs[-1]['case'] = case
        if err is None and spatial and gerr is None:
            impl_obs[-1]['geom'] = observe_geom(g2)
    # end of the history: randomised conveniences (draws recorded, compared with the model), accessors, inverse pairs,
    # index items of other types
    if r is not None:
        try:
            end_of_history(ctx, spec, v, g, r, exact, reqs, pending)
        except Exception:  # noqa: BLE001
            import traceback
            ctx.fail({'hist': spec['idx'], 'step': 'end'}, {'what': 'harness could not run the end-of-history checks',
                                                            'error': traceback.format_exc()[-800:]}, site='harness')
    if _snapshot(v0) != snap0:
        ctx.fail({'hist': spec['idx'], 'step': 'end'}, {'what': 'the original volume changed during the history'}, site='original')
    # model request
    aff = [[_fr(spec['lin'][i][j]) for j in range(3)] + [_fr(spec['pos'][i])] for i in range(3)]
    o0 = observe(v0)
    reqs.append(('history', {'affine': aff, 'shape': o0['shape'], 'arr': o0['arr'], 'isint': o0['isint'],
                             'coord': spec['coord'], 'chan_ids': [DESC_IDS[c['desc']] for c in spec['channels']],
                             'ops': model_ops}))
    pending.append({'spec_idx': spec['idx'], 'exact': exact, 'obs': impl_obs,
                    'chan_values': {name: vals for name, vals in o0['channels']}, 'big': spec['dtype'] == 'int64big'})


def _history_check(ctx, case, base, v, exact, site):
    """Values are unique per (voxel, channel) in `base`: every value of `v` that is a base value sits at the position of the
    base voxel that held it, and comes from the same voxel for all channels (spans channel selection / permutation)."""
    b = base.array
    flat_b = b.reshape(int(np.prod(b.shape[:3])), -1)
    nvox_b, nch_b = flat_b.shape
    vals_b = flat_b.reshape(-1)
    vox_of = np.repeat(np.arange(nvox_b), nch_b)
    a = v.array
    flat = a.reshape(int(np.prod(a.shape[:3])), -1)
    if flat.shape[1] == 0:
        return
    order = np.argsort(vals_b, kind='stable')
    sorted_vals = vals_b[order]
    uniq_vals, counts = np.unique(vals_b, return_counts=True)
    dup = set(uniq_vals[counts > 1].tolist())

    def lookup(key):
        pos = np.clip(np.searchsorted(sorted_vals, key), 0, len(order) - 1)
        cand = order[pos]
        hit = (vals_b[cand] == key) & np.array([k not in dup for k in key.tolist()], dtype=bool)
        return vox_of[cand], hit
    src0, hit = lookup(flat[:, 0])
    if not hit.any():
        return
    jb = _all_indices(b.shape[:3])[src0[hit]]
    jv = _all_indices(a.shape[:3])[hit]
    pb = base.map_indices_to_reference(jb)
    pv = v.map_indices_to_reference(jv)
    same = np.array_equal(pb, pv) if exact else np.allclose(pb, pv, rtol=2.0 ** -40, atol=2.0 ** -36)
    if not same:
        d = np.argwhere(np.any(pb != pv, axis=1)).ravel()[:2] if exact else [0]
        ctx.fail(case, {'what': 'a surviving voxel value is no longer at its original physical position (whole history)',
                        'examples': [{'value': np.asarray(flat[hit][i, 0]).tolist(), 'was': pb[i].tolist(), 'is': pv[i].tolist()} for i in d]},
                 site=site + '/history')
    # every channel value of a surviving voxel comes from that same original voxel
    for col in range(1, flat.shape[1]):
        srck, hitk = lookup(flat[:, col])
        both = hit & hitk
        if both.any() and not np.array_equal(srck[both], src0[both]):
            ctx.fail(case, {'what': 'channel values of one voxel come from different original voxels (whole history)'},
                     site=site + '/history')
            break


# ------------------------------------------------------------------------------------------ comparison with the model
def _close(a, b, exact):
    if a == b:
        return True
    if exact:
        return False
    fa, fb = _parse_fr(a), _parse_fr(b)
    return abs(fa - fb) <= TWO40 * max(1, abs(fa), abs(fb))


def compare_history(ctx, pend, ans):
    if 'proto_err' in ans:
        ctx.disagree('L0', {'hist': pend['spec_idx']}, 'n/a', ans, 'model protocol error')
        return
    if 'err' in ans:
        ctx.disagree('L0', {'hist': pend['spec_idx']}, 'volume constructed', ans, 'model refuses the initial volume')
        return
    steps = ans['ok']
    exact_vals = True
    for obs, m in zip(pend['obs'], steps):
        case = obs['case']
        op = case['op']
        ctx.hist('model_steps', 'refused' if 'err' in obs else 'accepted')
        if 'err' in obs:
            if 'err' not in m:
                ctx.disagree('L0', case, {'err': obs['err']}, {'ok': {k: m['ok'][k] for k in ('shape',)}}, 'ok-vs-error')
                return   # states diverged
            continue
        if 'err' in m:
            ctx.disagree('L0', case, {'ok': {'shape': obs['ok']['shape']}}, m, 'ok-vs-error')
            return
        io, mo = obs['ok'], m['ok']
        if op.get('mode', '').upper() == 'MEAN' or op.get('mode', '').upper() == 'MEDIAN':
            if not io['isint'] or pend.get('big'):
                exact_vals = False     # numpy's float mean / median of these values is rounded (DESIGN 10)
        if io['shape'] != mo['shape']:
            ctx.disagree('L0', case, io['shape'], mo['shape'], 'shape')
            return
        for i in range(3):
            for j in range(4):
                if not _close(io['affine'][i][j], mo['affine'][i][j], pend['exact']):
                    ctx.disagree('L0', case, io['affine'], mo['affine'], 'affine')
                    return
        if 'geom' in obs:
            # the VolumeGeometry twin against the model (theorem history_geometry_twin: the model's volume geometry)
            gs = obs['geom']
            if gs['shape'] != mo['shape'][:3] or any(not _close(gs['affine'][i][j], mo['affine'][i][j], pend['exact'])
                                                     for i in range(3) for j in range(4)):
                ctx.disagree('L0', case, gs, {'shape': mo['shape'][:3], 'affine': mo['affine']}, 'geometry twin')
                return
        ma = mo['arr']
        if len(ma) != len(io['arr']) or any(not _close(str(x), str(y), exact_vals) for x, y in zip(io['arr'], ma)):
            k = next((k for k, (x, y) in enumerate(zip(io['arr'], ma)) if not _close(str(x), str(y), exact_vals)), None)
            ctx.disagree('L0', case, {'first_diff_at': k, 'impl': io['arr'][k] if k is not None else len(io['arr'])},
                         {'model': ma[k] if k is not None else len(ma)}, 'array')
            return
        mch = [[name, vals] for name, vals in mo['channels']]
        cv = pend['chan_values']
        ich = [[DESC_IDS.get(name, -1), [cv[name].index(x) if x in cv.get(name, []) else -1 for x in vals]]
               for name, vals in io['channels']]
        if mch != ich:
            ctx.disagree('L0', case, ich, mch, 'channel descriptors')
            return
        if io['isint'] != mo['isint']:
            ctx.disagree('L0', case, io['isint'], mo['isint'], 'integer-vs-float array')
            return


# ------------------------------------------------------------------------------------------ slice.indices grid (L1)
def slice_grid(ctx, reqs, pending):
    rng = range(-6, 7) if ctx.tier == 'quick' else range(-10, 11)
    steps = [None, 1, 2, 3, -1, -2, -3, 0, 7, -7] if ctx.tier == 'quick' else [None] + list(range(-8, 9))
    lens = range(0, 6) if ctx.tier == 'quick' else range(0, 9)
    vals = [None] + list(rng)
    n = 0
    for ln in lens:
        for a in vals:
            for b in vals:
                for c in steps:
                    try:
                        impl = {'ok': list(slice(a, b, c).indices(ln))}
                        impl['ok'].append(len(range(*impl['ok'])))
                    except ValueError:
                        impl = {'err': 'value'}
                    reqs.append(('sliceIndices', {'start': a, 'stop': b, 'step': c, 'n': ln}))
                    pending.append({'grid': {'start': a, 'stop': b, 'step': c, 'n': ln}, 'impl': impl})
                    n += 1
    ctx.exhaustive.append(f'CPython slice.indices and len(range) vs model sliceIndices/sliceLen: start,stop in None,{rng.start}..{rng.stop - 1}; '
                          f'{len(steps)} steps; lengths {lens.start}..{lens.stop - 1} ({n} cases)')
    ctx.hist('grid', 'slice.indices', n)


def helper_grid(ctx, reqs, pending):
    """L2: the translated per-axis helpers against the real methods on a dense grid (through the public API where possible)."""
    from highdicom.volume import VolumeGeometry
    rng = range(1, 7) if ctx.tier == 'quick' else range(1, 10)
    n = 0
    for insize in rng:
        g = VolumeGeometry(np.eye(4), [insize, 1, 1], 'PATIENT')
        for outsize in range(-2, 12):
            for fn, meth in (('padToAxis', 'pad_to_spatial_shape'), ('cropToAxis', 'crop_to_spatial_shape'),
                             ('padOrCropAxis', 'pad_or_crop_to_spatial_shape')):
                try:
                    res = getattr(g, meth)([outsize, 1, 1])
                    impl = {'ok': [int(res.spatial_shape[0]), _frac_str(res.affine[0, 3])]}
                except Exception as e:  # noqa: BLE001
                    impl = {'err': _err_kind(e)}
                reqs.append((fn, {'insize': insize, 'outsize': outsize}))
                pending.append({'helper': {'fn': fn, 'insize': insize, 'outsize': outsize}, 'impl': impl})
                n += 1
    ctx.exhaustive.append(f'pad_to / crop_to / pad_or_crop_to per-axis arithmetic: insize {rng.start}..{rng.stop - 1} x outsize -2..11 '
                          f'through VolumeGeometry ({n} cases)')
    ctx.hist('grid', 'pad/crop axis', n)
    # getitem per axis: every (start, stop, step) on small axes through VolumeGeometry.__getitem__
    vals = [None] + list(range(-7, 8))
    steps = [None, 1, 2, 3, -1, -2, -3, 0, 5, -5]
    m = 0
    for ln in (range(1, 5) if ctx.tier == 'quick' else range(1, 7)):
        g = VolumeGeometry(np.eye(4), [ln, 1, 1], 'PATIENT')
        for a in vals:
            for b in vals:
                for c in steps:
                    try:
                        res = g[slice(a, b, c)]
                        impl = {'ok': [int(res.spatial_shape[0]), _frac_str(res.affine[0, 3]), _frac_str(res.affine[0, 0])]}
                    except Exception as e:  # noqa: BLE001
                        impl = {'err': _err_kind(e)}
                    reqs.append(('getitemAxisSlice', {'start': a, 'stop': b, 'step': c, 'n': ln}))
                    pending.append({'helper': {'fn': 'getitemAxisSlice', 'start': a, 'stop': b, 'step': c, 'n': ln}, 'impl': impl})
                    m += 1
        for k in range(-ln - 2, ln + 3):
            try:
                res = g[k]
                impl = {'ok': [int(res.spatial_shape[0]), _frac_str(res.affine[0, 3]), _frac_str(res.affine[0, 0])]}
            except Exception as e:  # noqa: BLE001
                impl = {'err': _err_kind(e)}
            reqs.append(('getitemAxisInt', {'k': k, 'n': ln}))
            pending.append({'helper': {'fn': 'getitemAxisInt', 'k': k, 'n': ln}, 'impl': impl})
            m += 1
    ctx.exhaustive.append(f'VolumeGeometry[slice] / [int] on one axis against the per-axis model ({m} cases)')
    ctx.hist('grid', 'getitem axis', m)


def closest_grid(ctx, reqs, pending):
    """L2: get_closest_patient_orientation / handedness of the real code against the model on rational rotations"""
    from highdicom.volume import VolumeGeometry
    n = ctx.n(150, 1500)
    for k in range(n):
        r = ctx.rng('closest', k)
        rot = _signed_perm(r)
        if r.random() < 0.8:
            for _ in range(20):
                cand = _matmul(_matmul(_signed_perm(r), _planar_rotation(r)), rot)
                if r.random() < 0.5:
                    cand = _matmul(_planar_rotation(r), cand)
                if not _has_tie(cand):
                    rot = cand
                    break
        spacing = [Fraction(r.choice([1, 3, 4, 8, 10, 20])) / 8 for _ in range(3)]
        lin = [[rot[i][j] * spacing[j] for j in range(3)] for i in range(3)]
        aff = np.eye(4)
        for i in range(3):
            for j in range(3):
                aff[i, j] = float(lin[i][j])
        try:
            g = VolumeGeometry(aff, [1, 1, 1], 'PATIENT')
            impl = {'ok': [''.join(x.value for x in g.get_closest_patient_orientation()), g.handedness.value == 'LEFT_HANDED']}
        except Exception as e:  # noqa: BLE001
            impl = {'err': _err_kind(e)}
        reqs.append(('closest', {'lin': [[_fr(x) for x in row] for row in lin]}))
        pending.append({'helper': {'fn': 'closest', 'lin': [[_fr(x) for x in row] for row in lin]}, 'impl': impl})
    ctx.hist('grid', 'closest orientation / handedness', n)


def affine_helper_contract(ctx):
    """The affine helpers behind the operations are handed matrices that belong to an object (`_permute_affine` passes
    `self._affine` itself): whatever they are given must come back untouched and the result must live in memory of its own —
    otherwise an operation on one object reaches the affine of the object it was derived from.  Run-time counterpart of the
    regenerated tables T9g (`result_affine_is_fresh`, `ops_never_write_input`)."""
    from highdicom import spatial
    n = 0
    for k in range(ctx.n(40, 300)):
        r = ctx.rng('affine-helper', k)
        spec = gen_volume_spec(ctx, r, -1000 - k)
        _, g = build(dict(spec, channels=[]))
        stored = g.affine                     # stands for the matrix an object keeps
        before = stored.tobytes()
        shape = [int(x) for x in g.spatial_shape]
        off = [r.randint(-3, 3) for _ in range(3)]
        p = [0, 1, 2]
        r.shuffle(p)
        flips = [r.random() < 0.5 for _ in range(3)]
        calls = [('_translate_affine_matrix', lambda: spatial._translate_affine_matrix(stored, off), {'offset': off}),
                 ('_transform_affine_matrix/permute', lambda: spatial._transform_affine_matrix(affine=stored, shape=shape, permute_indices=p),
                  {'permute_indices': p}),
                 ('_transform_affine_matrix/flip', lambda: spatial._transform_affine_matrix(affine=stored, shape=shape, flip_indices=flips),
                  {'flip_indices': flips})]
        for name, call, args in calls:
            case = {'affine_helper': name, 'index': k, 'args': args}
            try:
                res = call()
            except Exception as e:  # noqa: BLE001
                ctx.fail(case, {'what': f'{name} refused valid arguments: {type(e).__name__}: {e}'[:200]}, site='affine-helper')
                continue
            n += 1
            ctx.case(op='affine-helper', outcome='ok', nontrivial_key=('affine-helper', name, k))
            if stored.tobytes() != before:
                ctx.fail(case, {'what': f'{name} modified the matrix it was given (an operation would change the affine of the object '
                                        'it was derived from)'}, site='affine-helper')
                stored = g.affine
                before = stored.tobytes()
            elif res is stored or np.shares_memory(res, stored):
                ctx.fail(case, {'what': f'{name} returned the matrix it was given / a view of it'}, site='affine-helper')
    ctx.hist('grid', 'affine helper contract', n)


def orientation_grid(ctx):
    """All 48 x 48 (current, desired) orientation pairs on a real volume: oracle only (finite, complete)."""
    from highdicom.volume import Volume
    n = 0
    arr = np.arange(1, 25, dtype=np.int64).reshape(2, 3, 4)
    for cur in ORIENTATIONS:
        m = np.zeros((4, 4))
        m[3, 3] = 1
        for col, ch in enumerate(cur):
            row = {'L': 0, 'R': 0, 'P': 1, 'A': 1, 'H': 2, 'F': 2}[ch]
            m[row, col] = (1.0 if ch in 'LPH' else -1.0) * [0.5, 1.25, 2.0][col]
        m[:3, 3] = [1.5, -2.0, 10.0]
        v = Volume(arr, m, 'PATIENT')
        got = ''.join(x.value for x in v.get_closest_patient_orientation())
        if got != cur:
            ctx.fail({'orientation': cur}, {'what': 'get_closest_patient_orientation of an axis-aligned volume', 'got': got}, site='closest')
        for des in (ORIENTATIONS if ctx.tier == 'thorough' else ORIENTATIONS[::5] + [cur]):
            case = {'orientation_pair': [cur, des]}
            op = {'op': 'to_orientation', 'o': des, 'form': 'str'}
            try:
                v2 = v.to_patient_orientation(des)
            except Exception as e:  # noqa: BLE001
                ctx.fail(case, {'what': f'refused: {e}'[:200]}, site='to_orientation')
                continue
            oracle_step(ctx, case, v, v2, op, True, 'to_orientation')
            ctx.case(op='to_orientation/grid', nontrivial_key=('grid', cur, des))
            n += 1
    ctx.exhaustive.append(f'to_patient_orientation on {n} (current, desired) pairs of the 48 orientations'
                          + (' (all 2304)' if ctx.tier == 'thorough' else ' (every 5th desired; all 2304 in the thorough tier)'))


# ------------------------------------------------------------------------------------------ entry points
def _run_cases(ctx, indices, reqs, pending):
    for idx in indices:
        spec, length, r = gen_case(ctx, idx)
        try:
            run_history(ctx, spec, length, r, reqs, pending)
        except Exception as e:  # noqa: BLE001
            import traceback
            ctx.fail({'hist': idx}, {'what': 'harness could not run the history', 'error': traceback.format_exc()[-800:]}, site='harness')


def _corpus(ctx):
    out = []
    for f in sorted(glob.glob(os.path.join(os.path.dirname(os.path.dirname(os.path.dirname(os.path.abspath(__file__)))),
                                           'corpus', 'C08', '*.json'))):
        try:
            out.append(json.load(open(f)))
        except Exception:  # noqa: BLE001
            ctx.note(f'corpus file {f} unreadable')
    return out


def run_fixed(ctx, entry, reqs, pending):
    """A stored history: {'spec': {...}, 'ops': [...]} with fractions as strings."""
    spec = dict(entry['spec'])
    spec['lin'] = [[Fraction(x) for x in row] for row in spec['lin']]
    spec['pos'] = [Fraction(x) for x in spec['pos']]

    class _Fixed:
        def __init__(self, ops):
            self.ops = list(ops)
    ops = list(entry['ops'])
    it = iter(ops)
    global gen_op
    saved = gen_op

    def fixed_gen(ctx_, r_, shape, cshape, coord):
        return next(it), None, cshape
    gen_op = fixed_gen
    try:
        run_history(ctx, spec, len(ops), None, reqs, pending)
    finally:
        gen_op = saved


def run(ctx):
    reqs, pending = [], []
    slice_grid(ctx, reqs, pending)
    helper_grid(ctx, reqs, pending)
    closest_grid(ctx, reqs, pending)
    n_grid = len(reqs)
    for entry in _corpus(ctx):
        run_fixed(ctx, entry, reqs, pending)
    orientation_grid(ctx)
    affine_helper_contract(ctx)
    n = ctx.n(1200, 24000)
    _run_cases(ctx, range(n), reqs, pending)
    answers = ctx.model(reqs)
    if answers is None:
        return
    for k, (pend, ans) in enumerate(zip(pending, answers)):
        if k < n_grid:
            impl = pend['impl']
            case = pend.get('grid') or pend.get('helper')
            layer = 'L1' if 'grid' in pend else 'L2'
            if 'proto_err' in ans:
                ctx.disagree(layer, case, impl, ans, 'model protocol error')
            elif ('err' in impl) != ('err' in ans):
                ctx.disagree(layer, case, impl, ans, 'ok-vs-error')
            elif 'ok' in impl and impl['ok'] != ans['ok']:
                ctx.disagree(layer, case, impl, ans, 'value')
        elif 'extra' in pend:
            compare_extra(ctx, pend, ans)
        else:
            compare_history(ctx, pend, ans)


def replay(ctx, case):
    """Re-run one stored case on the implementation; returns failure detail or None."""
    sub = type(ctx)(ctx.prop, ctx.tier, ctx.seed, 1, ctx.driver)
    if isinstance(case, dict) and 'spec' in case and 'ops' in case:
        run_fixed(sub, case, [], [])
    elif isinstance(case, dict) and 'hist' in case and isinstance(case['hist'], int) and case['hist'] < 0:
        for entry in _corpus(sub):          # stored histories carry negative ids
            if entry['spec'].get('idx') == case['hist']:
                run_fixed(sub, entry, [], [])
    elif isinstance(case, dict) and 'hist' in case:
        _run_cases(sub, [case['hist']], [], [])
    elif isinstance(case, dict) and 'orientation_pair' in case:
        orientation_grid(sub)
    elif isinstance(case, dict) and 'affine_helper' in case:
        affine_helper_contract(sub)
    return sub.failures[:3] or None
