"""C06  Pixel transforms follow the DICOM pipeline and the tri-state flags.

Oracle (independent of the model and of the library's own classification): the stages of the standard
(PS3.3 C.7.6.16.2.11 real-world value map | C.11.1 modality rescale/LUT -> C.11.2 VOI window/LUT ->
C.11.6 presentation shape; C.7.9 palette colour) evaluated per pixel over exact rationals
(`fractions.Fraction`), stage selection by the specification table "True = applied or refused,
False = never, None = iff present; real-world map over modality", parameters discovered most specific
first (per-frame, shared, image).  pydicom's apply_modality_lut / apply_windowing / apply_voi_lut /
apply_color_lut give a second opinion where they are defined.

Tie T: the flag logic, the window/inversion folding, the window function and the table index of
`apply_lut` are regenerated from /repo (targets T6a..T6f).  Tie C: the composed model
(Model/PixelPipeline.lean, `Drivers/C06.lean`) against `Image.get_frame(s)` & co. on the same cases.
"""
from __future__ import annotations

import io
import itertools
import math
from fractions import Fraction

import numpy as np

PROP = 'C06'
TARGETS = ['T6a', 'T6b', 'T6c', 'T6d', 'T6e', 'T6f']
LEAN_MODULES = ['HdVerif.Props.C06']
MODEL_MODULES = ['HdVerif.Model.PixelPipeline']
NAMESPACE = 'HdVerif.C06'
DRIVER = 'Drivers/C06.lean'
RULE = ''
ASSUMPTIONS = []
MODELLED_NOT_VERIFIED = []

TRI = (True, False, None)
MONO, COLOR, PALETTE = 'MONOCHROME', 'COLOR', 'PALETTE_COLOR'
ERR = ('err',)


def F(x):
    from gen.pixeltransforms import frac
    return frac(x)


# ============================================================================ specification
def spec_stages(flags, ctype, present):
    """The property's stage table.  flags: dict rw, mod, voi, pal, icc (True/False/None), pres (bool).
    present: dict rwvm, modality, voi, icc, inverse (bool).  Returns None (refusal) or the set of stages."""
    rw, mod, voi, pal, icc = (flags[k] for k in ('rw', 'mod', 'voi', 'pal', 'icc'))
    mono = ctype == MONO
    # documented preconditions between the flags
    if rw is True and mod is True:
        return None
    if rw is not True and voi is not False and mod is False:
        return None                                   # VOI is defined on modality output
    if icc is not False and pal is False:
        return None                                   # ICC is defined on (palette) colour output
    rwvm_on = mono and present['rwvm'] and (rw is True or (rw is None and mod is not True))
    if rw is True and not rwvm_on:
        return None
    mod_on = mono and not rwvm_on and mod is not False and rw is not True and present['modality']
    if mod is True and not mod_on:
        return None
    voi_on = mono and not rwvm_on and voi is not False and rw is not True and present['voi']
    if voi is True and not voi_on:
        return None
    inv_on = mono and not rwvm_on and bool(flags['pres']) and present['inverse']
    pal_on = ctype == PALETTE and pal is not False
    if pal is True and not pal_on:
        return None
    icc_on = (not mono) and icc is not False and present['icc']
    if icc is True and not icc_on:
        return None
    return {'rwvm': rwvm_on, 'modality': mod_on, 'voi': voi_on, 'invert': inv_on, 'palette': pal_on, 'icc': icc_on}


def color_type(photometric):
    if photometric in ('MONOCHROME1', 'MONOCHROME2'):
        return MONO
    if photometric == 'PALETTE COLOR':
        return PALETTE
    return COLOR


def discover(T, key, f):
    """parameters that apply to frame f: per-frame over shared over image level"""
    ent = {e['place']: e for e in (T.get(key) or [])}
    if 'perframe' in ent:
        return ent['perframe']['vals'][f]
    if 'shared' in ent:
        return ent['shared']['vals'][0]
    if 'image' in ent:
        return ent['image']['vals'][0]
    return None


def select_index(n, sel):
    if -n <= sel < n:
        return sel % n
    return None


def select_window(w, sel):
    n = len(w['c'])
    if isinstance(sel, str):
        ex = w.get('expl')
        if ex is None or sel not in ex:
            return None
        k = list(ex).index(sel)
    else:
        k = select_index(n, sel)
    if k is None or k >= n:
        return None
    return F(w['c'][k]), F(w['w'][k])


def select_lut(luts, sel):
    if isinstance(sel, str):
        ex = [v.get('expl') for v in luts]
        if sel not in ex:
            return None
        return luts[ex.index(sel)]
    k = select_index(len(luts), sel)
    return None if k is None else luts[k]


def select_rwvm(maps, sel):
    if isinstance(sel, int):
        k = select_index(len(maps), sel)
        return None if k is None else maps[k]
    if isinstance(sel, str):
        for m in maps:
            if m['label'] == sel:
                return m
        return None
    for m in maps:               # unit: (value, scheme) match
        if tuple(m['unit'][:2]) == tuple(sel[:2]):
            return m
    return None


def stored_range(P):
    bs = P.get('bits_stored') or P['bits']
    if P.get('signed'):
        return -(2 ** (bs - 1)), 2 ** (bs - 1) - 1
    return 0, 2 ** bs - 1


def lut_lookup(data, first, x):
    k = x - first
    k = 0 if k < 0 else (len(data) - 1 if k > len(data) - 1 else k)
    return data[k]


def window_value(fn, c, w, x, lo, hi, exp=None):
    """PS3.3 C.11.2.1.2.1 (LINEAR), C.11.2.1.3.2 (LINEAR_EXACT), C.11.2.1.3.1 (SIGMOID)"""
    if fn == 'LINEAR':
        if x <= c - Fraction(1, 2) - (w - 1) / 2:
            return lo
        if x > c - Fraction(1, 2) + (w - 1) / 2:
            return hi
        return ((x - (c - Fraction(1, 2))) / (w - 1) + Fraction(1, 2)) * (hi - lo) + lo
    if fn == 'LINEAR_EXACT':
        if x <= c - w / 2:
            return lo
        if x > c + w / 2:
            return hi
        return ((x - c) / w + Fraction(1, 2)) * (hi - lo) + lo
    if fn == 'SIGMOID':
        a = float(-4 * (x - c) / w)
        try:
            e = math.exp(a)
        except OverflowError:
            e = math.inf
        return float(hi - lo) / (1.0 + e) + float(lo)
    raise ValueError(fn)


def ref_frame(P, f, flags, opts):
    """Reference result for frame f.  Returns ('err', why) | ('ok', values(list), info dict)."""
    T = P.get('T') or {}
    ctype = color_type(P['photometric'])
    voi_user = opts.get('voi_user')
    rw_maps = discover(T, 'rwvm', f)
    resc = discover(T, 'rescale', f)
    win = discover(T, 'window', f)
    present = {
        'rwvm': rw_maps is not None,
        'modality': bool(T.get('mod_lut')) or resc is not None,
        'voi': voi_user is not None or bool(T.get('voi_luts')) or win is not None,
        'icc': bool(T.get('icc')),
        'inverse': (T.get('pres_shape') == 'INVERSE') or (not T.get('pres_shape') and P['photometric'] == 'MONOCHROME1'),
    }
    st = spec_stages(flags, ctype, present)
    if st is None:
        return ('err', 'flags')
    return ref_apply(P, f, st, opts)


def ref_apply(P, f, st, opts):
    """the stages `st` applied to frame f (parameters discovered most specific first)"""
    T = P.get('T') or {}
    ctype = color_type(P['photometric'])
    voi_user = opts.get('voi_user')
    rw_maps = discover(T, 'rwvm', f)
    resc = discover(T, 'rescale', f)
    win = discover(T, 'window', f)
    frame = np.asarray(P['frames'][f])
    info = {'stages': st, 'tolerated_refusal': None, 'exact': True, 'kind': []}
    if ctype != MONO:
        if st['palette']:
            p = T['palette']
            out = [[int(v) for v in lut_lookup(p['data'], p['first'], int(x))] for x in frame.reshape(-1)]
            info['kind'].append('palette')
            info['lut_bits'] = p['bits']
        else:
            out = [int(x) for x in frame.reshape(-1)] if ctype == PALETTE else \
                [[int(v) for v in px] for px in frame.reshape(-1, 3)]
        if st['icc']:
            if ctype == PALETTE and not st['palette']:
                return ('err', 'icc on indices')
            info['kind'].append('icc')
            out = [list(reversed(px)) for px in out]          # the test profile exchanges R and B
        info['color_out'] = ctype == COLOR or st['palette']
        return ('ok', out, info)
    lo, hi = (F(v) for v in opts.get('voi_output_range', (0, 1)))
    imin, imax = stored_range(P)
    vals = [int(x) for x in frame.reshape(-1)]
    if st['rwvm']:
        m = select_rwvm(rw_maps, opts.get('rwvm_selector', 0))
        if m is None:
            return ('err', 'selector')
        info['kind'].append('rwvm-lut' if 'lut' in m else 'rwvm-linear')
        out = []
        for x in vals:
            if x < F(m['first']) or x > F(m['last']):
                return ('err', 'range')
            out.append(F(m['lut'][x - int(m['first'])]) if 'lut' in m else F(m['slope']) * x + F(m['intercept']))
        if 'lut' not in m:
            info['affine'] = (F(m['slope']), F(m['intercept']))
        return ('ok', out, info)
    # ---- modality
    mlut = T.get('mod_lut') if st['modality'] else None
    if st['modality'] and mlut is None:
        slope = F(resc[0]) if resc[0] is not None else Fraction(1)
        icpt = F(resc[1]) if resc[1] is not None else Fraction(0)
        info['kind'].append('rescale')
    else:
        slope, icpt = Fraction(1), Fraction(0)
        if mlut is not None:
            info['kind'].append('modlut')
    if mlut is not None:
        xs = [Fraction(lut_lookup(mlut['data'], mlut['first'], x)) for x in vals]
        rng_sum = Fraction(min(mlut['data']) + max(mlut['data']))
    else:
        xs = [slope * x + icpt for x in vals]
        rng_sum = slope * (imin + imax) + 2 * icpt
    # ---- VOI
    if st['voi']:
        sel = opts.get('voi_selector', 0)
        vlut = None
        wsel = None
        if voi_user is not None:
            if voi_user['kind'] == 'lut':
                vlut = voi_user
            else:
                wsel = (F(voi_user['c']), F(voi_user['w']))
                fn = voi_user.get('fn') or 'LINEAR'
        elif T.get('voi_luts'):
            vlut = select_lut(T['voi_luts'], sel)
            if vlut is None:
                return ('err', 'selector')
        else:
            wsel = select_window(win, sel)
            fn = win.get('fn') or 'LINEAR'
            if wsel is None:
                return ('err', 'selector')
        if vlut is not None:
            info['kind'].append('voilut')
            d = vlut['data']
            vmin, vmax = min(d), max(d)
            if vmax == vmin:
                return ('skip', 'constant VOI LUT (scaling undefined)')
            if any(x.denominator != 1 for x in xs):
                info['tolerated_refusal'] = 'voilut-noninteger-input'
                return ('undefined', 'VOI LUT on non-integer modality output', info)
            if mlut is None and (slope.denominator != 1 or icpt.denominator != 1):
                info['tolerated_refusal'] = 'voilut-noninteger-rescale'
            elif mlut is None and ((F(vlut['first']) + (len(d) - 1 if slope < 0 else 0) - icpt) / slope).denominator != 1:
                # the table folded onto stored values needs its first (for a negative slope: last) entry to sit
                # on an integer stored value; the library refuses otherwise (no wrong value is returned)
                info['tolerated_refusal'] = 'voilut-fold-first-not-divisible'
            out = [(Fraction(lut_lookup(d, vlut['first'], int(x))) - vmin) / (vmax - vmin) * (hi - lo) + lo for x in xs]
            rng = vmax - vmin
            if rng & (rng - 1):
                info['exact'] = False
        else:
            c, w = wsel
            info['kind'].append('window-' + fn)
            # exact comparison only when every quantity a float implementation has to form is a short dyadic
            div = (w - 1) / slope if fn == 'LINEAR' else w / slope
            if fn == 'SIGMOID' or div == 0 or not all(small_dyadic(q) for q in (
                    (c - icpt) / slope, (c - Fraction(1, 2) - icpt) / slope, w / slope, div, (hi - lo) / div)):
                info['exact'] = False
            if (fn == 'LINEAR' and w <= 1) or w <= 0:
                return ('skip', 'degenerate window width')
            out = [window_value(fn, c, w, x, lo, hi) for x in xs]
        if st['invert']:
            info['kind'].append('invert')
            out = [(float(hi + lo) - y) if isinstance(y, float) else (hi + lo - y) for y in out]
        return ('ok', out, info)
    if st['invert']:
        info['kind'].append('invert')
        if mlut is None:
            info['affine'] = (-slope, rng_sum - icpt)
        return ('ok', [rng_sum - x for x in xs], info)
    if mlut is None and 'rescale' in info['kind']:
        info['affine'] = (slope, icpt)
    return ('ok', xs, info)


# ============================================================================ running the implementation
def err_kind(e):
    return {'IndexError': 'index', 'ValueError': 'value', 'TypeError': 'type', 'RuntimeError': 'runtime',
            'KeyError': 'key', 'AttributeError': 'attribute'}.get(type(e).__name__, 'other')


def call(fn, *a, **k):
    try:
        return ('ok', fn(*a, **k))
    except Exception as e:  # noqa: BLE001
        return ('err', err_kind(e), f'{type(e).__name__}: {e}'[:200])


def flag_kwargs(flags):
    return dict(apply_real_world_transform=flags['rw'], apply_modality_transform=flags['mod'],
                apply_voi_transform=flags['voi'], apply_palette_color_lut=flags['pal'],
                apply_icc_profile=flags['icc'], apply_presentation_lut=flags['pres'])


def opt_kwargs(opts):
    import highdicom as hd
    from gen.pixeltransforms import fl
    kw = {}
    if 'voi_output_range' in opts:
        kw['voi_output_range'] = tuple(fl(v) for v in opts['voi_output_range'])
    if 'dtype' in opts:
        kw['dtype'] = np.dtype(opts['dtype'])
    if opts.get('voi_user') is not None:
        u = opts['voi_user']
        if u['kind'] == 'lut':
            lut = hd.VOILUT(first_mapped_value=u['first'],
                            lut_data=np.asarray(u['data'], dtype=np.uint8 if u['bits'] == 8 else np.uint16))
            kw['voi_transform_selector'] = hd.VOILUTTransformation(voi_luts=[lut])
        else:
            kw['voi_transform_selector'] = hd.VOILUTTransformation(
                window_center=fl(u['c']), window_width=fl(u['w']), voi_lut_function=u.get('fn'))
    elif 'voi_selector' in opts:
        kw['voi_transform_selector'] = opts['voi_selector']
    if 'rwvm_selector' in opts:
        s = opts['rwvm_selector']
        if isinstance(s, (list, tuple)):
            from pydicom.sr.coding import Code
            s = Code(s[0], s[1], s[2])
        kw['real_world_value_map_selector'] = s
    return kw


def compare_values(got, want, info, dtype):
    """None if the implementation's array equals the reference, else a description."""
    a = np.asarray(got)
    flat = a.reshape(-1, 3) if info.get('color_out') else a.reshape(-1)
    if len(flat) != len(want):
        return f'shape {a.shape} does not match {len(want)} reference values'
    if info.get('color_out') is not None:          # colour types: integers
        tol = 1 if 'icc' in info['kind'] else 0
        for g, w in zip(flat.tolist(), want):
            gl = g if isinstance(g, list) else [g]
            wl = w if isinstance(w, list) else [w]
            if len(gl) != len(wl) or any(abs(x - y) > tol for x, y in zip(gl, wl)):
                return {'got': a.tolist(), 'want': want}
        return None
    kind = np.dtype(dtype).kind
    for g, w in zip(flat.tolist(), want):
        if kind in 'iu':
            ok = isinstance(w, Fraction) and w.denominator == 1 and int(g) == w
        elif isinstance(w, float) or not info['exact'] or np.dtype(dtype).itemsize < 8:
            wf = float(w)
            tol = 2.0 ** -40 if np.dtype(dtype).itemsize >= 8 else 2.0 ** -18
            if isinstance(w, float):
                tol = max(tol, 1e-12)
            ok = abs(g - wf) <= tol * (1 + abs(wf)) or (math.isnan(g) and math.isnan(wf))
        else:
            ok = (not math.isnan(g)) and (not math.isinf(g)) and Fraction(g) == w
        if not ok:
            return {'got': a.tolist(), 'want': [str(x) for x in want]}
    return None


def dtype_refusal_ok(P, info, want, dtype):
    """Refusals the property does not speak about: the requested output type cannot hold the result
    (decided, like the library documents, on the parameters and the full stored range)."""
    dt = np.dtype(dtype)
    kinds = info['kind']
    if dt.kind == 'f':
        if 'rwvm-lut' in kinds and dt.itemsize < 8:
            return 'float64 table into narrower float'
        return None
    if dt.kind not in 'iu':
        return 'unsuitable dtype'
    if any(k.startswith('window') for k in kinds) or 'voilut' in kinds or 'rwvm-lut' in kinds:
        return 'float result into integer type'
    if 'modlut' in kinds or 'palette' in kinds:
        bits = info.get('lut_bits') or ((P.get('T') or {}).get('mod_lut') or {}).get('bits', 16)
        src = np.uint8 if bits == 8 else np.uint16
        return None if np.can_cast(src, dt, 'safe') else 'unsafe cast of table'
    aff = info.get('affine')
    if aff is None:
        # no transform: the stored values themselves must fit
        ii = np.iinfo(dt)
        flat = [v for w in want for v in (w if isinstance(w, list) else [w])]
        if any(v < ii.min or v > ii.max for v in flat):
            return 'stored value outside the integer output type'
        return None
    a, b = aff
    if a.denominator != 1 or b.denominator != 1:
        return 'non-integer slope/intercept into integer type'
    imin, imax = stored_range(P)
    ii = np.iinfo(dt)
    ends = (a * imin + b, a * imax + b)
    if min(ends) < ii.min or max(ends) > ii.max:
        return 'integer type cannot hold the rescaled stored range'
    return None


# ============================================================================ generators
def fs(q):
    from gen.pixeltransforms import fstr
    return fstr(q)


def dyadic(r, lo, hi, den):
    return Fraction(r.randint(lo * den, hi * den), den)


SLOPES = [Fraction(1)] * 4 + [Fraction(2), Fraction(4), Fraction(1, 2), Fraction(1, 4), Fraction(3), Fraction(5),
                              Fraction(3, 2), Fraction(3, 4), Fraction(-1), Fraction(-2), Fraction(-1, 2), Fraction(-3)]
INT_SLOPES = [Fraction(1)] * 3 + [Fraction(2), Fraction(3), Fraction(4), Fraction(5), Fraction(7)]
UNITS = [['mm', 'UCUM', 'millimeter'], ['[hnsf\'U]', 'UCUM', 'Hounsfield unit'], ['1', 'UCUM', 'no units'],
         ['ml/s', 'UCUM', 'ml/s']]
EXPL = ['SOFT', 'BONE', 'LUNG', 'BRAIN']


def gen_lut(r, bits, first_range, max_len=12, pow2_range=False):
    n = r.choice([1, 2, 3, 4, 5, 7, 8, 9]) if r.random() < 0.85 else r.randint(10, max_len + 20)
    top = 2 ** bits - 1
    if pow2_range:
        k = r.randint(0, min(bits - 1, 10))
        base = r.randint(0, top - 2 ** k)
        n = max(n, 2)
        data = [base + r.randint(0, 2 ** k) for _ in range(n)]
        i, j = r.sample(range(n), 2)
        data[i], data[j] = base, base + 2 ** k
    else:
        data = [r.randint(0, top) for _ in range(n)]
        if r.random() < 0.3:
            data = sorted(data)
    first = r.randint(*first_range)
    return {'first': first, 'bits': bits, 'data': data}


def gen_window(r, m, b, nwin, fn):
    """windows whose folding through slope m / intercept b is exact in binary floating point"""
    cs, ws, us = [], [], []
    for _ in range(nwin):
        odd = r.choice([1, 1, 1, 3, 5, 7])
        u = Fraction(odd) * Fraction(2) ** r.randint(-2, 7)        # |effective divisor|
        v = dyadic(r, -40, 300, 4)                                   # effective centre term
        if fn in (None, 'LINEAR'):
            w = 1 + abs(m) * u
            c = Fraction(1, 2) + b + m * v
        else:
            w = abs(m) * u
            c = b + m * v
        cs.append(fs(c))
        ws.append(fs(w))
        us.append(odd)
    return cs, ws, us


def gen_pipeline_case(r, idx):
    """One image + call options.  Everything is JSON-able."""
    ctype = r.choices([MONO, PALETTE, COLOR], [0.84, 0.1, 0.06])[0]
    bits = r.choice([8, 16, 16])
    signed = ctype == MONO and r.random() < 0.3
    bits_stored = bits if r.random() < 0.7 else (bits - r.choice([1, 2, 4]))
    n = r.choice([1, 2, 3, 3])
    rows, cols = r.randint(1, 3), r.randint(1, 3)
    P = {'bits': bits, 'signed': signed, 'bits_stored': bits_stored, 'idx': idx}
    imin, imax = stored_range(P)
    T = {}
    opts = {}
    interesting = [imin, imax, 0, imin + 1, imax - 1]
    if ctype == COLOR:
        P['bits'] = bits = 8
        P['bits_stored'] = 8
        P['photometric'] = 'RGB'
        P['frames'] = [[[[r.randint(0, 255) for _ in range(3)] for _ in range(cols)] for _ in range(rows)] for _ in range(n)]
        if r.random() < 0.5:
            T['icc'] = True
        P['T'] = T
        return P, opts
    if ctype == PALETTE:
        P['photometric'] = 'PALETTE COLOR'
        pb = r.choice([8, 8, 16])
        k = r.choice([1, 2, 3, 4, 5, 8, 9, 16])
        first = r.randint(0, min(imax, 2 ** pb - 1) // 2) if not signed else r.randint(-5, 5)
        T['palette'] = {'first': first, 'bits': pb,
                        'data': [[r.randint(0, 2 ** pb - 1) for _ in range(3)] for _ in range(k)]}
        if pb == 8 and r.random() < 0.5:
            T['icc'] = True
        interesting += [first - 1, first, first + k - 1, first + k, first + k // 2]
    else:
        P['photometric'] = r.choice(['MONOCHROME2', 'MONOCHROME2', 'MONOCHROME1'])
        if r.random() < 0.3:
            T['pres_shape'] = r.choice(['IDENTITY', 'INVERSE'])
        places = ['image', 'shared', 'perframe']

        def place(key, make):
            # mostly one placement (as the standard demands); sometimes two, to observe precedence
            ps = [r.choice(places)] if r.random() < 0.85 else r.sample(places, 2)
            T[key] = [{'place': p, 'vals': [make() for _ in range(n if p == 'perframe' else 1)]} for p in ps]

        mk = r.choices(['none', 'rescale', 'lut'], [0.2, 0.55, 0.25])[0]
        vk = r.choices(['none', 'window', 'lut', 'both'], [0.2, 0.5, 0.22, 0.08])[0]
        m, b = Fraction(1), Fraction(0)
        if mk == 'rescale':
            pool = INT_SLOPES if vk in ('lut', 'both') and r.random() < 0.8 else SLOPES
            # a window folded through the rescale needs one (m, b) for exactness: share it between placements
            m = r.choice(pool)
            b = Fraction(r.randint(-50, 50)) if r.random() < 0.7 else dyadic(r, -50, 50, 8)

            first_call = [True]

            def mkres():
                if first_call[0] or r.random() < 0.5:
                    first_call[0] = False
                    mm, bb = m, b
                else:      # another frame / placement with its own parameters
                    mm = r.choice(pool)
                    bb = Fraction(r.randint(-50, 50))
                if r.random() < 0.12:
                    return [fs(mm), None] if r.random() < 0.5 else [None, fs(bb)]
                return [fs(mm), fs(bb)]
            place('rescale', mkres)
            # omitted attributes default to slope 1 / intercept 0: windows then fold inexactly; handled by `exact`
        elif mk == 'lut':
            lb = r.choice([8, 16])
            T['mod_lut'] = gen_lut(r, lb, (imin, max(imin, min(imax, 300))) if signed else (0, min(imax, 300)))
            ml = T['mod_lut']
            interesting += [ml['first'] - 1, ml['first'], ml['first'] + len(ml['data']) - 1, ml['first'] + len(ml['data'])]
        if vk in ('window', 'both'):
            fn = r.choice([None, 'LINEAR', 'LINEAR', 'LINEAR_EXACT', 'LINEAR_EXACT', 'SIGMOID'])
            nwin = r.choice([1, 1, 2, 3])
            with_expl = r.random() < 0.5

            def mkwin():
                cs, ws, _ = gen_window(r, m, b, nwin, fn)
                w = {'c': cs, 'w': ws, 'fn': fn}
                if with_expl:
                    w['expl'] = r.sample(EXPL, nwin)
                return w
            place('window', mkwin)
        if vk in ('lut', 'both'):
            nl = r.choice([1, 1, 2, 3])
            luts = []
            for _ in range(nl):
                vb = r.choice([8, 16])
                lut = gen_lut(r, vb, (-20, 200), pow2_range=r.random() < 0.8)
                if r.random() < 0.5:
                    lut['expl'] = r.choice(EXPL)
                luts.append(lut)
            T['voi_luts'] = luts
        if r.random() < 0.3:
            nm = r.choice([1, 1, 2, 3])
            labels = r.sample(['A', 'B', 'C', 'D'], nm)
            units = r.sample(UNITS, nm)

            def mkmaps():
                maps = []
                for j in range(nm):
                    mp = {'label': labels[j], 'unit': units[j]}
                    if r.random() < 0.6:
                        mp.update(first=imin, last=imax)
                    else:
                        a = r.randint(imin, imax - 1)
                        mp.update(first=a, last=min(imax, a + r.choice([1, 3, 8, 200])))
                    if r.random() < 0.6:
                        mp.update(slope=fs(r.choice(SLOPES)), intercept=fs(dyadic(r, -100, 100, 8)))
                    else:
                        mp['last'] = min(imax, mp['first'] + r.choice([1, 2, 4, 7]))
                        mp['lut'] = [fs(dyadic(r, -1000, 1000, 16)) for _ in range(mp['last'] - mp['first'] + 1)]
                    maps.append(mp)
                return maps
            place('rwvm', mkmaps)
            for e in T['rwvm']:
                for maps in e['vals']:
                    for mp in maps:
                        interesting += [mp['first'], mp['last']]
    # stored values
    interesting = [v for v in interesting if imin <= v <= imax]
    frames = []
    for _ in range(n):
        fr = []
        for _ in range(rows):
            row = []
            for _ in range(cols):
                u = r.random()
                if u < 0.35:
                    row.append(r.choice(interesting))
                elif u < 0.75:
                    row.append(max(imin, min(imax, r.randint(-30, 330))))
                else:
                    row.append(r.randint(imin, imax))
            fr.append(row)
        frames.append(fr)
    P['frames'] = frames
    P['T'] = T
    return P, opts


def gen_flags(r, P):
    """mostly flag tuples that can succeed, some arbitrary ones"""
    if r.random() < 0.08:
        return {'rw': r.choice(TRI), 'mod': r.choice(TRI), 'voi': r.choice(TRI), 'pal': r.choice(TRI),
                'icc': r.choice(TRI), 'pres': r.random() < 0.7}
    T = P['T']
    mono = P['photometric'].startswith('MONO')
    has = {'rw': bool(T.get('rwvm')), 'mod': bool(T.get('rescale') or T.get('mod_lut')),
           'voi': bool(T.get('window') or T.get('voi_luts')), 'pal': bool(T.get('palette')), 'icc': bool(T.get('icc'))}

    def tri(k, p_true=0.3):
        u = r.random()
        if u < p_true and (has[k] or r.random() < 0.1):
            return True
        return None if u < 0.85 else False
    fl = {'rw': tri('rw') if mono else None, 'mod': tri('mod') if mono else None,
          'voi': (tri('voi', 0.4) if r.random() < 0.85 else False) if mono else r.choice([None, False]),
          'pal': tri('pal'), 'icc': tri('icc'), 'pres': r.random() < 0.75}
    if fl['rw'] is True and fl['mod'] is True:
        fl[r.choice(['rw', 'mod'])] = None
    if fl['mod'] is False and fl['voi'] is not False and r.random() < 0.9:
        fl['voi'] = False
    if fl['pal'] is False and fl['icc'] is not False and r.random() < 0.9:
        fl['icc'] = False
    return fl


def gen_opts(r, P, flags):
    T = P['T']
    opts = {}
    odd = r.choice([1, 1, 3, 5, 7])
    j = r.randint(1, 8)
    rng = Fraction(odd * j) / Fraction(2) ** r.randint(0, 3)
    if r.random() < 0.6:
        lo = dyadic(r, -64, 64, 8)
        opts['voi_output_range'] = [fs(lo), fs(lo + rng)]
    if r.random() < 0.25:
        opts['dtype'] = r.choice(['float32', 'float32', 'int16', 'int32', 'uint8', 'uint16', 'int64'])
    # selectors
    wins = [v for e in T.get('window') or [] for v in e['vals']]
    nalt = len(T['voi_luts']) if T.get('voi_luts') else (len(wins[0]['c']) if wins else 1)
    u = r.random()
    if u < 0.35:
        opts['voi_selector'] = r.randint(-nalt - 1, nalt)
    elif u < 0.5:
        ex = [v.get('expl') for v in T.get('voi_luts') or []] if T.get('voi_luts') else (wins[0].get('expl') if wins else None)
        cand = [e for e in (ex or []) if e] + ['NOPE']
        opts['voi_selector'] = r.choice(cand)
    elif u < 0.6 and P['photometric'].startswith('MONO'):
        if r.random() < 0.5:
            opts['voi_user'] = dict(gen_lut(r, r.choice([8, 16]), (0, 200), pow2_range=True), kind='lut')
        else:
            fn = r.choice([None, 'LINEAR', 'LINEAR_EXACT', 'SIGMOID'])
            resc = [v for e in T.get('rescale') or [] for v in e['vals']]
            m = F(resc[0][0]) if resc and resc[0][0] is not None else Fraction(1)
            b = F(resc[0][1]) if resc and resc[0][1] is not None else Fraction(0)
            cs, ws, _ = gen_window(r, m, b, 1, fn)
            opts['voi_user'] = {'kind': 'window', 'c': cs[0], 'w': ws[0], 'fn': fn}
    maps = [m for e in T.get('rwvm') or [] for v in e['vals'] for m in v]
    if maps and r.random() < 0.6:
        k = r.random()
        if k < 0.4:
            opts['rwvm_selector'] = r.randint(-len(maps) - 1, len(maps))
        elif k < 0.7:
            opts['rwvm_selector'] = r.choice([m['label'] for m in maps] + ['Z'])
        else:
            opts['rwvm_selector'] = r.choice([m['unit'] for m in maps] + [['kg', 'UCUM', 'kg']])
    return opts


def small_dyadic(q, bits=34):
    q = Fraction(q)
    d = q.denominator
    return d & (d - 1) == 0 and abs(q.numerator).bit_length() <= bits and d.bit_length() <= 40


# ============================================================================ streams
def build(P, via_file=False):
    import highdicom as hd
    import pydicom
    from gen.images import to_bytes
    from gen.pixeltransforms import make_image
    ds = make_image(P)
    if via_file:
        return hd.imread(io.BytesIO(to_bytes(ds))), ds
    return hd.Image.from_dataset(ds), ds


def check_call(ctx, case, P, f, flags, opts, res, site, hist=True):
    """Judge one implementation result `res` = call(...) for frame f against the reference.  Returns the
    reference tuple (so the caller can also feed the model)."""
    ref = ref_frame(P, f, flags, opts)
    dtype = opts.get('dtype', 'float64')
    if ref[0] in ('skip',):
        return ref
    if ref[0] == 'undefined':
        if res[0] == 'ok':
            ctx.fail(case, {'why': 'result returned where the pipeline is undefined: ' + ref[1], 'got': np.asarray(res[1]).tolist()}, site=site)
        return ref
    if ref[0] == 'err':
        if res[0] == 'ok':
            ctx.fail(case, {'why': f'refusal expected ({ref[1]}) but a result was returned', 'got': np.asarray(res[1]).tolist()},
                     site=site + '/refusal')
        return ref
    _, want, info = ref
    if res[0] == 'err':
        tol = info.get('tolerated_refusal') or dtype_refusal_ok(P, info, want, dtype)
        if tol:
            if hist:
                ctx.hist('tolerated_refusals', tol)
        else:
            ctx.fail(case, {'why': 'refused although the pipeline is defined', 'error': res[2], 'stages': info['stages'],
                            'kinds': info['kind']}, site=site + '/refused')
        return ref
    got = np.asarray(res[1])
    if got.dtype != np.dtype(dtype):
        ctx.fail(case, {'why': f'dtype {got.dtype} instead of {dtype}'}, site=site + '/dtype')
        return ref
    diff = compare_values(got, want, info, dtype)
    if diff is not None:
        ctx.fail(case, {'why': 'values differ from the reference pipeline', 'kinds': info['kind'], 'stages': info['stages'], **diff},
                 site=site + '/' + '+'.join(info['kind'] or ['identity']))
    return ref


def stream_pipeline(ctx, reqs, pending):
    n_img = ctx.n(350, 6000)
    for idx in range(n_img):
        r = ctx.rng('pipe', idx)
        P, _ = gen_pipeline_case(r, idx)
        via_file = r.random() < 0.15
        st = call(build, P, via_file)
        if st[0] == 'err':
            ctx.note(f'generator could not build image {idx}: {st[2]}')
            continue
        im, ds = st[1]
        n = len(P['frames'])
        for rep in range(3):
            flags = gen_flags(r, P)
            opts = gen_opts(r, P, flags)
            kw = dict(flag_kwargs(flags), **opt_kwargs(opts))
            for f in range(n):
                case = {'stream': 'pipe', 'idx': idx, 'rep': rep, 'frame': f, 'flags': flags, 'opts': opts, 'P': P}
                res = call(im.get_frame, f + 1, **kw)
                ref = check_call(ctx, case, P, f, flags, opts, res, 'get_frame')
                mp = model_params(P, f, opts) if ref[0] in ('ok', 'err') and ref[1] != 'selector' else None
                if mp is not None and 'constant' not in str(ref[1]):
                    reqs.append(('pipeline', {'flags': [flags[k] for k in ('rw', 'mod', 'voi', 'pal', 'icc')], 'pres': flags['pres'],
                                              'ctype': MONO, 'present': [mp[1][k] for k in PRES_KEYS], 'params': mp[0],
                                              'xs': [int(x) for x in np.asarray(P['frames'][f]).reshape(-1)]}))
                    pending.append(('pipeline', {k: v for k, v in case.items() if k != 'P'} | {'T': P['T']}, res, ref,
                                    opts.get('dtype', 'float64')))
                kinds = '+'.join(ref[2]['kind']) if ref[0] == 'ok' else ref[0] + ':' + str(ref[1])[:30]
                places = ','.join(f"{k}:{'/'.join(e['place'] for e in P['T'][k])}" for k in ('rescale', 'window', 'rwvm') if P['T'].get(k))
                ctx.case(sample=case if (ref[0] == 'ok' and ctx.evaluations % 211 == 0) else None,
                         nontrivial_key=(kinds, places, opts.get('dtype'), P['bits'], P['signed'], idx) if ref[0] == 'ok' and ref[2]['kind'] else None,
                         pipeline=kinds, placement=places or '-', outcome=res[0] if res[0] == 'ok' else res[1],
                         dtype=opts.get('dtype', 'float64'), via_file=via_file,
                         flags=f"{flags['rw']},{flags['mod']},{flags['voi']},{flags['pal']},{flags['icc']},{flags['pres']}")
            # batch access = per-frame access
            res = call(im.get_frames, **kw)
            singles = [call(im.get_frame, f + 1, **kw) for f in range(n)]
            ctx.case(pipeline='batch')
            case = {'stream': 'pipe', 'idx': idx, 'rep': rep, 'frame': 'all', 'flags': flags, 'opts': opts, 'P': P}
            if all(s[0] == 'ok' for s in singles):
                if res[0] != 'ok':
                    ctx.fail(case, {'why': 'get_frames refused where every get_frame succeeds', 'error': res[2]}, site='get_frames')
                elif not np.array_equal(np.asarray(res[1]), np.stack([s[1] for s in singles]), equal_nan=True):
                    ctx.fail(case, {'why': 'get_frames differs from stacked get_frame', 'got': np.asarray(res[1]).tolist(),
                                    'want': np.stack([s[1] for s in singles]).tolist()}, site='get_frames')
            elif res[0] == 'ok':
                ctx.fail(case, {'why': 'get_frames succeeded although a single get_frame is refused'}, site='get_frames')


def settle(ctx, reqs, pending):
    answers = ctx.model(reqs)
    if answers is None:
        return
    for item, ans in zip(pending, answers):
        if item[0] == 'pipeline':
            _, case, res, ref, dtype = item
            compare_model(ctx, case, ans, res, ref, ref[0] == 'ok' and ref[2]['exact'], dtype)
        else:
            case, impl = item
            if 'proto_err' in ans:
                ctx.disagree('L0', case, impl, ans, 'model protocol error')
                continue
            model = 'err' if 'err' in ans else ans['ok']
            if model != impl:
                ctx.disagree(case.get('layer', 'L0') if isinstance(case, dict) else 'L0', case, impl, model, case.get('what', 'value'))


def run(ctx):
    reqs, pending = [], []
    stream_flags(ctx, reqs, pending)
    stream_pipeline(ctx, reqs, pending)
    settle(ctx, reqs, pending)


def replay(ctx, case):
    sub = type(ctx)(ctx.prop, ctx.tier, ctx.seed, 1, ctx.driver)
    if case.get('stream') == 'flags':
        P = flag_image(case['ctype'], case['present'])
        im, _ = build(P)
        res = call(im.get_frame, 1, **flag_kwargs(case['flags']))
        check_call(sub, case, P, 0, case['flags'], {}, res, 'flags', hist=False)
    if case.get('stream') == 'pipe':
        P, flags, opts = case['P'], case['flags'], case['opts']
        im, _ = build(P)
        kw = dict(flag_kwargs(flags), **opt_kwargs(opts))
        fr = range(len(P['frames'])) if case['frame'] == 'all' else [case['frame']]
        for f in fr:
            res = call(im.get_frame, f + 1, **kw)
            check_call(sub, case, P, f, flags, opts, res, 'get_frame', hist=False)
    return sub.failures[:3] or None


# ---------------------------------------------------------------------------- flag table
FLAG_RWVM = {'label': 'A', 'unit': ['1', 'UCUM', 'no units'], 'first': 0, 'last': 255, 'slope': '2', 'intercept': '1000'}
PRES_KEYS = ('rwvm', 'modality', 'voi', 'icc', 'inverse')


def flag_image(ctype, pres):
    """the image of one (colour type, presence pattern) row of the flag table; every stage changes the output visibly"""
    T = {}
    if pres['rwvm']:
        T['rwvm'] = [{'place': 'image', 'vals': [[FLAG_RWVM]]}]
    if pres['modality']:
        T['rescale'] = [{'place': 'image', 'vals': [['3', '7']]}]
    if pres['voi']:
        T['window'] = [{'place': 'image', 'vals': [{'c': ['20'], 'w': ['64'], 'fn': 'LINEAR_EXACT'}]}]
    if pres['inverse']:
        T['pres_shape'] = 'INVERSE'
    if pres['icc']:
        T['icc'] = True
    P = {'bits': 8, 'signed': False, 'bits_stored': 8, 'T': T}
    if ctype == MONO:
        P.update(photometric='MONOCHROME2', frames=[[[3, 9]]])
    elif ctype == PALETTE:
        P.update(photometric='PALETTE COLOR', frames=[[[3, 9]]])
        T['palette'] = {'first': 2, 'bits': 8, 'data': [[10 * k + 1, 100 + k, 200 - 7 * k] for k in range(12)]}
    else:
        P.update(photometric='RGB', frames=[[[[200, 10, 30], [0, 255, 7]]]])
    return P


def all_flag_tuples():
    for rw, mod, voi, pal, icc in itertools.product(TRI, repeat=5):
        for pres in (True, False):
            yield {'rw': rw, 'mod': mod, 'voi': voi, 'pal': pal, 'icc': icc, 'pres': pres}


def observe_stages(P, res):
    """which stage set reproduces the implementation's output (None if no candidate does)"""
    if res[0] != 'ok':
        return 'err'
    ctype = color_type(P['photometric'])
    cands = []
    if ctype == MONO:
        cands.append({'rwvm': True, 'modality': False, 'voi': False, 'invert': False})
        for m, v, i in itertools.product((False, True), repeat=3):
            cands.append({'rwvm': False, 'modality': m, 'voi': v, 'invert': i})
        for c in cands:
            c.update(palette=False, icc=False)
    else:
        for p_, i in itertools.product((False, True) if ctype == PALETTE else (False,), (False, True)):
            cands.append({'rwvm': False, 'modality': False, 'voi': False, 'invert': False, 'palette': p_, 'icc': i})
    got = np.asarray(res[1])
    hits = []
    T = P['T']
    for c in cands:
        if (c['rwvm'] and not T.get('rwvm')) or (c['modality'] and not T.get('rescale')) or (c['voi'] and not T.get('window')) \
                or (c['invert'] and T.get('pres_shape') != 'INVERSE') or (c['icc'] and not T.get('icc')):
            continue
        ref = ref_apply(P, 0, c, {})
        if ref[0] != 'ok':
            continue
        info = ref[2]
        shape_ok = (got.ndim == 3) == bool(info.get('color_out')) if ctype != MONO else got.ndim == 2
        if shape_ok and compare_values(got, ref[1], dict(info, kind=[k for k in info['kind'] if k != 'icc']), 'float64') is None:
            hits.append(c)
    return hits[0] if len(hits) == 1 else None


def stream_flags(ctx, reqs, pending):
    rows = [(ct, dict(zip(PRES_KEYS, bits))) for ct in (MONO, COLOR, PALETTE)
            for bits in itertools.product((False, True), repeat=5)]
    tuples = list(all_flag_tuples())
    full = ctx.tier == 'thorough' and not ctx.search_mode
    r = ctx.rng('flags', 0)
    budget = ctx.n(2500, len(rows) * len(tuples))
    per_row = len(tuples) if full else max(1, budget // len(rows))
    for ct, pres in rows:
        P = flag_image(ct, pres)
        st = call(build, P)
        if st[0] == 'err':
            ctx.note(f'flag image could not be built: {st[2]}')
            continue
        im = st[1][0]
        sel = tuples if full else r.sample(tuples, min(per_row, len(tuples)))
        for flags in sel:
            res = call(im.get_frame, 1, **flag_kwargs(flags))
            case = {'stream': 'flags', 'ctype': ct, 'present': pres, 'flags': flags}
            ref = check_call(ctx, case, P, 0, flags, {}, res, 'flags', hist=False)
            spec = 'err' if ref[0] == 'err' else ref[2]['stages']
            ctx.case(nontrivial_key=('flags', ct, tuple(pres.values()), tuple(flags.values())) if ref[0] == 'ok' else None,
                     flag_outcome=('refused' if res[0] != 'ok' else 'applied:' + '+'.join(k for k, v in spec.items() if v) if spec != 'err' else 'ok?'),
                     ctype=ct)
            obs = observe_stages(P, res)
            if obs is None:
                ctx.fail(case, {'why': 'output matches no combination of stages', 'got': np.asarray(res[1]).tolist()}, site='flags/decode')
                continue
            reqs.append(('flagOutcome', {'flags': [flags[k] for k in ('rw', 'mod', 'voi', 'pal', 'icc')], 'pres': flags['pres'],
                                         'ctype': ct, 'present': [pres[k] for k in PRES_KEYS]}))
            pending.append((case, obs if obs == 'err' else [obs[k] for k in ('rwvm', 'modality', 'voi', 'invert', 'palette', 'icc')]))
    if full:
        ctx.exhaustive.append(f'flag table: {len(rows)} (colour type x presence) rows x {len(tuples)} flag tuples = {len(rows) * len(tuples)} cells via get_frame')


# ============================================================================ model requests
def model_params(P, f, opts):
    """the parameters in force for frame f as the model's `Params` (selection and discovery by the oracle's
    own functions; the model's selectors / placement search are compared separately).  None if the case lies
    outside the model (colour types; selector refusals; constant / user-defined corner cases)."""
    T = P.get('T') or {}
    if color_type(P['photometric']) != MONO:
        return None
    imin, imax = stored_range(P)
    lo, hi = opts.get('voi_output_range', (0, 1))
    out = {'imin': imin, 'imax': imax, 'lo': fs(F(lo)), 'hi': fs(F(hi)), 'modality': None, 'voi': None, 'rwvm': None}
    present = {'rwvm': False, 'modality': False, 'voi': False}
    maps = discover(T, 'rwvm', f)
    if maps is not None:
        m = select_rwvm(maps, opts.get('rwvm_selector', 0))
        if m is None:
            return None
        present['rwvm'] = True
        if 'lut' in m:
            out['rwvm'] = {'k': 'lut', 'first': int(m['first']), 'data': [fs(F(v)) for v in m['lut']]}
        else:
            out['rwvm'] = {'k': 'linear', 'first': fs(F(m['first'])), 'last': fs(F(m['last'])), 'm': fs(F(m['slope'])), 'b': fs(F(m['intercept']))}
    if T.get('mod_lut'):
        present['modality'] = True
        out['modality'] = {'k': 'lut', 'first': T['mod_lut']['first'], 'data': T['mod_lut']['data']}
    else:
        resc = discover(T, 'rescale', f)
        if resc is not None:
            present['modality'] = True
            out['modality'] = {'k': 'rescale', 'm': fs(F(resc[0])) if resc[0] is not None else '1',
                               'b': fs(F(resc[1])) if resc[1] is not None else '0'}
    u = opts.get('voi_user')
    sel = opts.get('voi_selector', 0)
    if u is not None:
        present['voi'] = True
        out['voi'] = {'k': 'lut', 'first': u['first'], 'data': u['data']} if u['kind'] == 'lut' else \
            {'k': 'window', 'fn': u.get('fn') or 'LINEAR', 'c': fs(F(u['c'])), 'w': fs(F(u['w']))}
    elif T.get('voi_luts'):
        v = select_lut(T['voi_luts'], sel)
        if v is None:
            return None
        present['voi'] = True
        out['voi'] = {'k': 'lut', 'first': v['first'], 'data': v['data']}
    else:
        win = discover(T, 'window', f)
        if win is not None:
            cw = select_window(win, sel)
            if cw is None:
                return None
            present['voi'] = True
            out['voi'] = {'k': 'window', 'fn': win.get('fn') or 'LINEAR', 'c': fs(cw[0]), 'w': fs(cw[1])}
    present['icc'] = bool(T.get('icc'))
    present['inverse'] = (T.get('pres_shape') == 'INVERSE') or (not T.get('pres_shape') and P['photometric'] == 'MONOCHROME1')
    return out, present


def out_value(o):
    """a model `Out` as a number: exact Fraction, or float for a sigmoid"""
    if 'v' in o:
        return F(o['v'])
    k, off, arg = (float(F(x)) for x in o['s'])
    try:
        e = math.exp(arg)
    except OverflowError:
        e = math.inf
    return off + k / (1.0 + e)


def compare_model(ctx, case, ans, res, ref, info_exact, dtype):
    """model (`pipeline` answer) against implementation result `res` and against the oracle's reference `ref`"""
    if 'proto_err' in ans:
        ctx.disagree('L0', case, res[:2], ans, 'model protocol error')
        return
    impl_ok = res[0] == 'ok'
    if 'err' in ans:                       # the model refuses at the flag stage
        if impl_ok:
            ctx.disagree('L0', case, 'ok', ans, 'flags: model refuses, implementation returns a frame')
        return
    body = ans['ok']
    folded, mref = body['folded'], body['ref']
    # (1) Lean reference pipeline = oracle's reference pipeline
    if ref[0] == 'ok':
        want = ref[1]
        for o, w in zip(mref, want):
            if 'err' in o:
                ctx.disagree('L0', case, str(w), o, 'Lean reference pipeline refuses where the oracle has a value')
                break
            v = out_value(o['ok'])
            same = (v == w) if isinstance(w, Fraction) and isinstance(v, Fraction) else abs(float(v) - float(w)) <= 1e-9 * (1 + abs(float(w)))
            if not same:
                ctx.disagree('L0', case, str(w), o, 'Lean reference pipeline differs from the oracle')
                break
    # (2) folded model = implementation
    if any('err' in o for o in folded):
        if impl_ok:
            ctx.disagree('L0', case, 'ok', [o for o in folded if 'err' in o][:1], 'model refuses, implementation returns a frame')
        return
    if not impl_ok:
        # refusals because of the output dtype are outside the model
        if np.dtype(dtype).kind == 'f' and np.dtype(dtype).itemsize == 8:
            ctx.disagree('L0', case, res[:3], 'ok', 'implementation refuses, model returns values')
        return
    got = np.asarray(res[1]).reshape(-1).tolist()
    exact = info_exact and np.dtype(dtype) == np.float64
    for g, o in zip(got, folded):
        v = out_value(o['ok'])
        if np.dtype(dtype).kind in 'iu':
            same = isinstance(v, Fraction) and v == int(g)
        elif exact and isinstance(v, Fraction):
            same = not (math.isnan(g) or math.isinf(g)) and Fraction(g) == v
        else:
            tol = 2.0 ** -40 if np.dtype(dtype).itemsize >= 8 else 2.0 ** -18
            if not isinstance(v, Fraction):
                tol = max(tol, 1e-12)
            same = abs(g - float(v)) <= tol * (1 + abs(float(v)))
        if not same:
            ctx.disagree('L0', case, got, [str(out_value(o['ok'])) for o in folded], 'folded model differs from the implementation')
            return
