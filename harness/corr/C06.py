"""C06  Pixel transforms follow the DICOM pipeline and the tri-state flags.

Oracle (independent of the model and of the library's own classification): the stages of the standard
(PS3.3 C.7.6.16.2.11 real-world value map | C.11.1 modality rescale/LUT -> C.11.2 VOI window/LUT ->
C.11.6 presentation shape; C.7.9 palette colour) evaluated per pixel over exact rationals
(`fractions.Fraction`), stage selection by the specification table "True = applied or refused,
False = never, None = iff present; real-world map over modality", parameters discovered most specific
first (per-frame, shared, image).  pydicom's apply_modality_lut / apply_windowing / apply_voi_lut /
apply_color_lut give a second opinion where they are defined.

Tie T: the flag logic, the window/inversion folding, the window function and the table index of
`apply_lut` are regenerated from /repo (targets T6a..T6f).  Tie C: the composed model
(Model/PixelPipeline.lean, `Drivers/C06.lean`) against `Image.get_frame(s)` & co. on the same cases.
"""
from __future__ import annotations

import io
import itertools
import math
from fractions import Fraction

import numpy as np

PROP = 'C06'
TARGETS = ['T6a', 'T6b', 'T6c', 'T6d', 'T6e', 'T6f', 'T6g', 'T6h', 'T6i', 'T6j', 'T6k', 'T6m', 'T6n', 'T6p', 'T6q', 'T6r', 'T6s']
LEAN_MODULES = ['HdVerif.Props.C06']
MODEL_MODULES = ['HdVerif.Model.PixelPipeline', 'HdVerif.Generated.T6g', 'HdVerif.Generated.T6i']
NAMESPACE = 'HdVerif.C06'
DRIVER = 'Drivers/C06.lean'
RULE = ('streams: flags (every (colour type, presence pattern) row x flag tuples through get_frame: all 46 656 cells in thorough, a sample in '
        'quick), pipe (random images: 8/16 bit, signed/unsigned, BitsStored < BitsAllocated, MONOCHROME1/2 / PALETTE COLOR / RGB, presentation '
        'shape, rescale (dyadic slopes incl. negative and non-integer, one attribute omitted) or modality LUT, windows (1-3 alternatives, '
        'LINEAR / LINEAR_EXACT / SIGMOID / default, explanations) and/or VOI LUT sequence, real-world maps (linear / LUT, 1-3 maps), each '
        'placed at image / shared / per-frame level (15 % at two levels) x 3 flag tuples x selectors (index, negative index, name, unit, '
        'user-supplied VOILUTTransformation) x voi_output_range x output dtype, 15 % read back from a file), lut / palette (LUT objects: '
        'lengths 1..700, 255/256/257, 65535/65536/65537; first mapped values incl. refused ones), selectors and placement (exhaustive small '
        'grids), objects (standalone transformation classes), paths (get_volume / get_total_pixel_matrix / get_volume_from_series), asmcolour '
        '(colour type x palette flag through get_total_pixel_matrix), window edges (pixels on and next to both edges of every window kind), '
        'narrow (no transform x integer output types; L2 output-type rules and input type on real transform objects).  One '
        'case = one call judged against the reference pipeline; non-trivial = the call succeeds with at least one stage applied, distinct by '
        '(stages, placement, dtype, bits, signedness, image)')
ASSUMPTIONS = [
    'float64 arithmetic is exact on the generated dyadic parameters (compared exactly as fractions.Fraction where every intermediate '
    'quantity is a short dyadic, otherwise to 2^-40 relative; float32 outputs to 2^-18); numpy.exp only through a 1e-12 tolerance',
    'the laws of exp used by fold_sigmoid_inverted (exp(-a) exp(a) = 1, exp > 0) are exercised on numpy.exp by the inverted SIGMOID cases',
    'refusals the property does not speak about are tolerated and counted (histogram tolerated_refusals): integer / narrower output types '
    'that cannot hold the result, a VOI LUT behind a non-integer rescale or not starting on an integer stored value',
    'the ICC transform itself is littleCMS: the test profile exchanges the red and blue colorants so that its application is observable',
    'constant VOI LUTs (max = min: numpy divides by zero) and window widths < 1 (LINEAR; PS3.3 demands >= 1, pydicom refuses, the library '
    'computes with a negative divisor) / <= 0 (LINEAR_EXACT, SIGMOID) are outside the reference and skipped; width exactly 1 is inside '
    '(the step), except behind a negative slope (open finding)',
    'pydicom decodes pixel data and DS/FD/US values as written by the generator',
]
MODELLED_NOT_VERIFIED = ['numpy.exp / float rounding', 'ICC colour management (PIL ImageCms / littleCMS)',
                         'pydicom Dataset / MultiValue / ambiguous-VR handling', 'output dtype casts (numpy astype, casting="safe")',
                         'segmented palette colour LUTs (refused by the library)']

TRI = (True, False, None)
MONO, COLOR, PALETTE = 'MONOCHROME', 'COLOR', 'PALETTE_COLOR'
ERR = ('err',)


def F(x):
    from gen.pixeltransforms import frac
    return frac(x)


# ============================================================================ specification
def spec_stages(flags, ctype, present):
    """The property's stage table.  flags: dict rw, mod, voi, pal, icc (True/False/None), pres (bool).
    present: dict rwvm, modality, voi, icc, inverse (bool).  Returns None (refusal) or the set of stages."""
    rw, mod, voi, pal, icc = (flags[k] for k in ('rw', 'mod', 'voi', 'pal', 'icc'))
    mono = ctype == MONO
    # documented preconditions between the flags
    if rw is True and mod is True:
        return None
    if rw is not True and voi is not False and mod is False:
        return None                                   # VOI is defined on modality output
    if icc is not False and pal is False:
        return None                                   # ICC is defined on (palette) colour output
    rwvm_on = mono and present['rwvm'] and (rw is True or (rw is None and mod is not True))
    if rw is True and not rwvm_on:
        return None
    mod_on = mono and not rwvm_on and mod is not False and rw is not True and present['modality']
    if mod is True and not mod_on:
        return None
    voi_on = mono and not rwvm_on and voi is not False and rw is not True and present['voi']
    if voi is True and not voi_on:
        return None
    inv_on = mono and not rwvm_on and bool(flags['pres']) and present['inverse']
    pal_on = ctype == PALETTE and pal is not False
    if pal is True and not pal_on:
        return None
    icc_on = (not mono) and icc is not False and present['icc']
    if icc is True and not icc_on:
        return None
    return {'rwvm': rwvm_on, 'modality': mod_on, 'voi': voi_on, 'invert': inv_on, 'palette': pal_on, 'icc': icc_on}


def color_type(photometric):
    if photometric in ('MONOCHROME1', 'MONOCHROME2'):
        return MONO
    if photometric == 'PALETTE COLOR':
        return PALETTE
    return COLOR


def discover(T, key, f):
    """parameters that apply to frame f: per-frame over shared over image level"""
    ent = {e['place']: e for e in (T.get(key) or [])}
    if 'perframe' in ent:
        return ent['perframe']['vals'][f]
    if 'shared' in ent:
        return ent['shared']['vals'][0]
    if 'image' in ent:
        return ent['image']['vals'][0]
    return None


def discover_voi(T, f):
    """VOI information in force for frame f: the most specific dataset holding any (per-frame, shared, image); within
    one dataset a VOI LUT sequence before window values.  ('lut', [luts]) | ('window', window) | None"""
    placed = {e['place']: e for e in (T.get('voi_luts_placed') or [])}
    wins = {e['place']: e for e in (T.get('window') or [])}
    for place in ('perframe', 'shared', 'image'):
        if place == 'image':
            if T.get('voi_luts'):
                return ('lut', T['voi_luts'])
        elif place in placed:
            return ('lut', placed[place]['vals'][f if place == 'perframe' else 0])
        if place in wins:
            return ('window', wins[place]['vals'][f if place == 'perframe' else 0])
    return None


def select_index(n, sel):
    if -n <= sel < n:
        return sel % n
    return None


def select_window(w, sel):
    n = len(w['c'])
    if isinstance(sel, str):
        ex = w.get('expl')
        if ex is None or sel not in ex:
            return None
        k = list(ex).index(sel)
    else:
        k = select_index(n, sel)
    if k is None or k >= n:
        return None
    return F(w['c'][k]), F(w['w'][k])


def select_lut(luts, sel):
    if isinstance(sel, str):
        ex = [v.get('expl') for v in luts]
        if sel not in ex:
            return None
        return luts[ex.index(sel)]
    k = select_index(len(luts), sel)
    return None if k is None else luts[k]


def select_rwvm(maps, sel):
    if isinstance(sel, int):
        k = select_index(len(maps), sel)
        return None if k is None else maps[k]
    if isinstance(sel, str):
        for m in maps:
            if m['label'] == sel:
                return m
        return None
    for m in maps:               # unit: (value, scheme) match
        if tuple(m['unit'][:2]) == tuple(sel[:2]):
            return m
    return None


def stored_range(P):
    bs = P.get('bits_stored') or P['bits']
    if P.get('signed'):
        return -(2 ** (bs - 1)), 2 ** (bs - 1) - 1
    return 0, 2 ** bs - 1


def lut_lookup(data, first, x):
    k = x - first
    k = 0 if k < 0 else (len(data) - 1 if k > len(data) - 1 else k)
    return data[k]


def window_value(fn, c, w, x, lo, hi, exp=None):
    """PS3.3 C.11.2.1.2.1 (LINEAR), C.11.2.1.3.2 (LINEAR_EXACT), C.11.2.1.3.1 (SIGMOID)"""
    if fn == 'LINEAR':
        if x <= c - Fraction(1, 2) - (w - 1) / 2:
            return lo
        if x > c - Fraction(1, 2) + (w - 1) / 2:
            return hi
        return ((x - (c - Fraction(1, 2))) / (w - 1) + Fraction(1, 2)) * (hi - lo) + lo
    if fn == 'LINEAR_EXACT':
        if x <= c - w / 2:
            return lo
        if x > c + w / 2:
            return hi
        return ((x - c) / w + Fraction(1, 2)) * (hi - lo) + lo
    if fn == 'SIGMOID':
        a = float(-4 * (x - c) / w)
        try:
            e = math.exp(a)
        except OverflowError:
            e = math.inf
        return float(hi - lo) / (1.0 + e) + float(lo)
    raise ValueError(fn)


def ref_frame(P, f, flags, opts):
    """Reference result for frame f.  Returns ('err', why) | ('ok', values(list), info dict)."""
    T = P.get('T') or {}
    ctype = color_type(P['photometric'])
    voi_user = opts.get('voi_user')
    rw_maps = discover(T, 'rwvm', f)
    resc = discover(T, 'rescale', f)
    voi_found = discover_voi(T, f)
    present = {
        'rwvm': rw_maps is not None,
        'modality': bool(T.get('mod_lut')) or resc is not None,
        'voi': voi_user is not None or voi_found is not None,
        'icc': bool(T.get('icc')),
        'inverse': (T.get('pres_shape') == 'INVERSE') or (not T.get('pres_shape') and P['photometric'] == 'MONOCHROME1'),
    }
    st = spec_stages(flags, ctype, present)
    if st is None:
        return ('err', 'flags')
    return ref_apply(P, f, st, opts)


def ref_apply(P, f, st, opts):
    """the stages `st` applied to frame f (parameters discovered most specific first)"""
    T = P.get('T') or {}
    ctype = color_type(P['photometric'])
    voi_user = opts.get('voi_user')
    rw_maps = discover(T, 'rwvm', f)
    resc = discover(T, 'rescale', f)
    voi_found = discover_voi(T, f)
    win = voi_found[1] if voi_found and voi_found[0] == 'window' else None
    frame = np.asarray(P['frames'][f])
    info = {'stages': st, 'tolerated_refusal': None, 'exact': True, 'kind': []}
    if ctype != MONO:
        if st['palette']:
            p = T['palette']
            out = [[int(v) for v in lut_lookup(p['data'], p['first'], int(x))] for x in frame.reshape(-1)]
            info['kind'].append('palette')
            info['lut_bits'] = p['bits']
        else:
            out = [int(x) for x in frame.reshape(-1)] if ctype == PALETTE else \
                [[int(v) for v in px] for px in frame.reshape(-1, 3)]
        if st['icc']:
            if ctype == PALETTE and not st['palette']:
                return ('err', 'icc on indices')
            info['kind'].append('icc')
            out = [list(reversed(px)) for px in out]          # the test profile exchanges R and B
        info['color_out'] = ctype == COLOR or st['palette']
        return ('ok', out, info)
    lo, hi = (F(v) for v in opts.get('voi_output_range', (0, 1)))
    imin, imax = stored_range(P)
    vals = [int(x) for x in frame.reshape(-1)]
    if st['rwvm']:
        m = select_rwvm(rw_maps, opts.get('rwvm_selector', 0))
        if m is None:
            return ('err', 'selector')
        info['kind'].append('rwvm-lut' if 'lut' in m else 'rwvm-linear')
        out = []
        for x in vals:
            if x < F(m['first']) or x > F(m['last']):
                return ('err', 'range')
            out.append(F(m['lut'][x - int(m['first'])]) if 'lut' in m else F(m['slope']) * x + F(m['intercept']))
        if 'lut' not in m:
            info['affine'] = (F(m['slope']), F(m['intercept']))
        return ('ok', out, info)
    # ---- modality
    mlut = T.get('mod_lut') if st['modality'] else None
    if st['modality'] and mlut is None:
        slope = F(resc[0]) if resc[0] is not None else Fraction(1)
        icpt = F(resc[1]) if resc[1] is not None else Fraction(0)
        info['kind'].append('rescale')
    else:
        slope, icpt = Fraction(1), Fraction(0)
        if mlut is not None:
            info['kind'].append('modlut')
    if mlut is not None:
        xs = [Fraction(lut_lookup(mlut['data'], mlut['first'], x)) for x in vals]
        rng_sum = Fraction(min(mlut['data']) + max(mlut['data']))
    else:
        xs = [slope * x + icpt for x in vals]
        rng_sum = slope * (imin + imax) + 2 * icpt
    # ---- VOI
    if st['voi']:
        sel = opts.get('voi_selector', 0)
        vlut = None
        wsel = None
        if voi_user is not None:
            if voi_user['kind'] == 'lut':
                vlut = voi_user
            else:
                wsel = (F(voi_user['c']), F(voi_user['w']))
                fn = voi_user.get('fn') or 'LINEAR'
        elif voi_found[0] == 'lut':
            vlut = select_lut(voi_found[1], sel)
            if vlut is None:
                return ('err', 'selector')
        else:
            wsel = select_window(win, sel)
            fn = win.get('fn') or 'LINEAR'
            if wsel is None:
                return ('err', 'selector')
        if vlut is not None:
            info['kind'].append('voilut')
            d = vlut['data']
            vmin, vmax = min(d), max(d)
            if vmax == vmin:
                return ('skip', 'constant VOI LUT (scaling undefined)')
            if any(x.denominator != 1 for x in xs):
                info['tolerated_refusal'] = 'voilut-noninteger-input'
                return ('undefined', 'VOI LUT on non-integer modality output', info)
            if mlut is None and (slope.denominator != 1 or icpt.denominator != 1):
                info['tolerated_refusal'] = 'voilut-noninteger-rescale'
            elif mlut is None and ((F(vlut['first']) + (len(d) - 1 if slope < 0 else 0) - icpt) / slope).denominator != 1:
                # the table folded onto stored values needs its first (for a negative slope: last) entry to sit
                # on an integer stored value; the library refuses otherwise (no wrong value is returned)
                info['tolerated_refusal'] = 'voilut-fold-first-not-divisible'
            out = [(Fraction(lut_lookup(d, vlut['first'], int(x))) - vmin) / (vmax - vmin) * (hi - lo) + lo for x in xs]
            rng = vmax - vmin
            if rng & (rng - 1):
                info['exact'] = False
        else:
            c, w = wsel
            info['kind'].append('window-' + fn)
            # exact comparison only when every quantity a float implementation has to form is a short dyadic
            div = (w - 1) / slope if fn == 'LINEAR' else w / slope
            unit = fn == 'LINEAR' and w == 1       # the step at c - 0.5: no division is formed (PS3.3 C.11.2.1.2.1)
            if fn == 'SIGMOID' or (div == 0 and not unit) or not all(small_dyadic(q) for q in (
                    (c - icpt) / slope, (c - Fraction(1, 2) - icpt) / slope, w / slope) + (() if unit else (div, (hi - lo) / div))):
                info['exact'] = False
            if (fn == 'LINEAR' and w < 1) or w <= 0:
                return ('skip', 'degenerate window width')
            if unit and mlut is None and slope < 0:
                # open finding C06-linear-width-one-negative-slope: the folded window has effective width 1 again and the
                # direction of the step is lost
                info['unit_linear_window_negative_slope'] = True
            if div != 0:
                # float32 outputs are computed in float32: the subtraction stored - window start cancels, its rounding
                # error is scaled by range / width.  Slack for that (absolute), used for float32 comparisons only.
                mag = max(max(abs(v) for v in vals), max(abs(x) for x in xs) / abs(slope))
                info['f32_slack'] = float(2.0 ** -21 * abs((hi - lo) / div) * (mag + abs((c - icpt) / slope) + abs(w / slope) + 1))
            out = [window_value(fn, c, w, x, lo, hi) for x in xs]
        if st['invert']:
            info['kind'].append('invert')
            out = [(float(hi + lo) - y) if isinstance(y, float) else (hi + lo - y) for y in out]
        return ('ok', out, info)
    if st['invert']:
        info['kind'].append('invert')
        if mlut is None:
            info['affine'] = (-slope, rng_sum - icpt)
        return ('ok', [rng_sum - x for x in xs], info)
    if mlut is None and 'rescale' in info['kind']:
        info['affine'] = (slope, icpt)
    return ('ok', xs, info)


# ============================================================================ running the implementation
def err_kind(e):
    return {'IndexError': 'index', 'ValueError': 'value', 'TypeError': 'type', 'RuntimeError': 'runtime',
            'KeyError': 'key', 'AttributeError': 'attribute'}.get(type(e).__name__, 'other')


def call(fn, *a, **k):
    try:
        return ('ok', fn(*a, **k))
    except Exception as e:  # noqa: BLE001
        return ('err', err_kind(e), f'{type(e).__name__}: {e}'[:200])


def flag_kwargs(flags):
    return dict(apply_real_world_transform=flags['rw'], apply_modality_transform=flags['mod'],
                apply_voi_transform=flags['voi'], apply_palette_color_lut=flags['pal'],
                apply_icc_profile=flags['icc'], apply_presentation_lut=flags['pres'])


def opt_kwargs(opts):
    import highdicom as hd
    from gen.pixeltransforms import fl
    kw = {}
    spell = opts.get('spell', 0)
    if 'voi_output_range' in opts:
        rng_ = tuple(fl(v) for v in opts['voi_output_range'])
        kw['voi_output_range'] = rng_ if spell == 0 else list(rng_) if spell == 1 else np.array(rng_)
    if 'dtype' in opts:
        # every accepted spelling: numpy dtype, scalar type, name
        kw['dtype'] = np.dtype(opts['dtype']) if spell == 0 else np.dtype(opts['dtype']).type if spell == 1 else str(opts['dtype'])
    if opts.get('voi_user') is not None:
        u = opts['voi_user']
        if u['kind'] == 'lut':
            lut = hd.VOILUT(first_mapped_value=u['first'],
                            lut_data=np.asarray(u['data'], dtype=np.uint8 if u['bits'] == 8 else np.uint16))
            kw['voi_transform_selector'] = hd.VOILUTTransformation(voi_luts=[lut])
        else:
            kw['voi_transform_selector'] = hd.VOILUTTransformation(
                window_center=fl(u['c']), window_width=fl(u['w']), voi_lut_function=u.get('fn'))
    elif 'voi_selector' in opts:
        kw['voi_transform_selector'] = opts['voi_selector']
    if 'rwvm_selector' in opts:
        s = opts['rwvm_selector']
        if isinstance(s, (list, tuple)):
            from pydicom.sr.coding import Code
            s = Code(s[0], s[1], s[2])
        kw['real_world_value_map_selector'] = s
    return kw


def compare_values(got, want, info, dtype):
    """None if the implementation's array equals the reference, else a description."""
    a = np.asarray(got)
    flat = a.reshape(-1, 3) if info.get('color_out') else a.reshape(-1)
    if len(flat) != len(want):
        return f'shape {a.shape} does not match {len(want)} reference values'
    if info.get('color_out') is not None:          # colour types: integers
        tol = 1 if 'icc' in info['kind'] else 0
        for g, w in zip(flat.tolist(), want):
            gl = g if isinstance(g, list) else [g]
            wl = w if isinstance(w, list) else [w]
            if len(gl) != len(wl) or any(abs(x - y) > tol for x, y in zip(gl, wl)):
                return {'got': a.tolist(), 'want': want}
        return None
    kind = np.dtype(dtype).kind
    for g, w in zip(flat.tolist(), want):
        if kind in 'iu':
            ok = isinstance(w, Fraction) and w.denominator == 1 and int(g) == w
        elif isinstance(w, float) or not info['exact'] or np.dtype(dtype).itemsize < 8:
            wf = float(w)
            tol = 2.0 ** -40 if np.dtype(dtype).itemsize >= 8 else 2.0 ** -18
            if isinstance(w, float):
                tol = max(tol, 1e-12)
            slack = info.get('f32_slack', 0.0) if np.dtype(dtype).itemsize < 8 else 0.0
            ok = abs(g - wf) <= tol * (1 + abs(wf)) + slack or (math.isnan(g) and math.isnan(wf))
        else:
            ok = (not math.isnan(g)) and (not math.isinf(g)) and Fraction(g) == w
        if not ok:
            return {'got': a.tolist(), 'want': [str(x) for x in want]}
    return None


def dtype_refusal_ok(P, info, want, dtype):
    """Refusals the property does not speak about: the requested output type cannot hold the result
    (decided, like the library documents, on the parameters and the full stored range)."""
    dt = np.dtype(dtype)
    kinds = info['kind']
    if dt.kind == 'f':
        if 'rwvm-lut' in kinds and dt.itemsize < 8:
            return 'float64 table into narrower float'
        return None
    if dt.kind not in 'iu':
        return 'unsuitable dtype'
    if any(k.startswith('window') for k in kinds) or 'voilut' in kinds or 'rwvm-lut' in kinds:
        return 'float result into integer type'
    if 'modlut' in kinds or 'palette' in kinds:
        bits = info.get('lut_bits') or ((P.get('T') or {}).get('mod_lut') or {}).get('bits', 16)
        src = np.uint8 if bits == 8 else np.uint16
        return None if np.can_cast(src, dt, 'safe') else 'unsafe cast of table'
    aff = info.get('affine')
    if aff is None:
        # no transform: the stored values themselves must fit
        ii = np.iinfo(dt)
        flat = [v for w in want for v in (w if isinstance(w, list) else [w])]
        if any(v < ii.min or v > ii.max for v in flat):
            return 'stored value outside the integer output type'
        return None
    a, b = aff
    if a.denominator != 1 or b.denominator != 1:
        return 'non-integer slope/intercept into integer type'
    imin, imax = stored_range(P)
    ii = np.iinfo(dt)
    ends = (a * imin + b, a * imax + b)
    if min(ends) < ii.min or max(ends) > ii.max:
        return 'integer type cannot hold the rescaled stored range'
    return None


# ============================================================================ generators
def fs(q):
    from gen.pixeltransforms import fstr
    return fstr(q)


def dyadic(r, lo, hi, den):
    return Fraction(r.randint(lo * den, hi * den), den)


SLOPES = [Fraction(1)] * 4 + [Fraction(2), Fraction(4), Fraction(1, 2), Fraction(1, 4), Fraction(3), Fraction(5),
                              Fraction(3, 2), Fraction(3, 4), Fraction(-1), Fraction(-2), Fraction(-1, 2), Fraction(-3)]
INT_SLOPES = [Fraction(1)] * 3 + [Fraction(2), Fraction(3), Fraction(4), Fraction(5), Fraction(7), Fraction(-1), Fraction(-2), Fraction(-3), Fraction(3, 2)]
UNITS = [['mm', 'UCUM', 'millimeter'], ['[hnsf\'U]', 'UCUM', 'Hounsfield unit'], ['1', 'UCUM', 'no units'],
         ['ml/s', 'UCUM', 'ml/s']]
EXPL = ['SOFT', 'BONE', 'LUNG', 'BRAIN']


def gen_lut(r, bits, first_range, max_len=12, pow2_range=False):
    n = r.choice([1, 2, 3, 4, 5, 7, 8, 9]) if r.random() < 0.85 else r.randint(10, max_len + 20)
    top = 2 ** bits - 1
    if pow2_range:
        k = r.randint(0, min(bits - 1, 10))
        base = r.randint(0, top - 2 ** k)
        n = max(n, 2)
        data = [base + r.randint(0, 2 ** k) for _ in range(n)]
        i, j = r.sample(range(n), 2)
        data[i], data[j] = base, base + 2 ** k
    else:
        data = [r.randint(0, top) for _ in range(n)]
        if r.random() < 0.3:
            data = sorted(data)
    first = r.randint(*first_range)
    return {'first': first, 'bits': bits, 'data': data}


def gen_window(r, m, b, nwin, fn, allow_unit=False):
    """windows whose folding through slope m / intercept b is exact in binary floating point;
    `allow_unit`: a few LINEAR windows of width exactly 1 (the step of PS3.3 C.11.2.1.2.1; fixed finding
    C06-linear-width-one, open finding C06-linear-width-one-negative-slope behind a negative rescale slope)"""
    cs, ws, us = [], [], []
    for _ in range(nwin):
        odd = r.choice([1, 1, 1, 3, 5, 7])
        u = Fraction(odd) * Fraction(2) ** r.randint(-2, 7)        # |effective divisor|
        if allow_unit and fn in (None, 'LINEAR') and r.random() < 0.1:
            u = Fraction(0)
        v = dyadic(r, -40, 300, 4)                                   # effective centre term
        if fn in (None, 'LINEAR'):
            w = 1 + abs(m) * u
            c = Fraction(1, 2) + b + m * v
        else:
            w = abs(m) * u
            c = b + m * v
        cs.append(fs(c))
        ws.append(fs(w))
        us.append(odd)
    return cs, ws, us


def gen_pipeline_case(r, idx):
    """One image + call options.  Everything is JSON-able."""
    ctype = r.choices([MONO, PALETTE, COLOR], [0.84, 0.1, 0.06])[0]
    bits = r.choice([8, 16, 16])
    signed = ctype == MONO and r.random() < 0.3
    bits_stored = bits if r.random() < 0.7 else (bits - r.choice([1, 2, 4]))
    n = r.choice([1, 2, 3, 3])
    rows, cols = r.randint(1, 3), r.randint(1, 3)
    P = {'bits': bits, 'signed': signed, 'bits_stored': bits_stored, 'idx': idx}
    imin, imax = stored_range(P)
    T = {}
    opts = {}
    interesting = [imin, imax, 0, imin + 1, imax - 1]
    if ctype == COLOR:
        P['bits'] = bits = 8
        P['bits_stored'] = 8
        P['photometric'] = 'RGB'
        P['frames'] = [[[[r.randint(0, 255) for _ in range(3)] for _ in range(cols)] for _ in range(rows)] for _ in range(n)]
        if r.random() < 0.5:
            T['icc'] = True
        P['T'] = T
        return P, opts
    if ctype == PALETTE:
        P['photometric'] = 'PALETTE COLOR'
        pb = r.choice([8, 8, 16])
        k = r.choice([1, 2, 3, 4, 5, 8, 9, 16])
        first = r.randint(0, min(imax, 2 ** pb - 1) // 2) if not signed else r.randint(-5, 5)
        T['palette'] = {'first': first, 'bits': pb,
                        'data': [[r.randint(0, 2 ** pb - 1) for _ in range(3)] for _ in range(k)]}
        if pb == 8 and r.random() < 0.5:
            T['icc'] = True
        interesting += [first - 1, first, first + k - 1, first + k, first + k // 2]
    else:
        P['photometric'] = r.choice(['MONOCHROME2', 'MONOCHROME2', 'MONOCHROME1'])
        if r.random() < 0.3:
            T['pres_shape'] = r.choice(['IDENTITY', 'INVERSE'])
        places = ['image', 'shared', 'perframe']

        def place(key, make):
            # mostly one placement (as the standard demands); sometimes two, to observe precedence
            ps = [r.choice(places)] if r.random() < 0.85 else r.sample(places, 2)
            T[key] = [{'place': p, 'vals': [make() for _ in range(n if p == 'perframe' else 1)]} for p in ps]

        mk = r.choices(['none', 'rescale', 'lut'], [0.2, 0.55, 0.25])[0]
        vk = r.choices(['none', 'window', 'lut', 'both'], [0.2, 0.5, 0.22, 0.08])[0]
        m, b = Fraction(1), Fraction(0)
        if mk == 'rescale':
            pool = INT_SLOPES if vk in ('lut', 'both') and r.random() < 0.8 else SLOPES
            # a window folded through the rescale needs one (m, b) for exactness: share it between placements
            m = r.choice(pool)
            b = Fraction(r.randint(-50, 50)) if r.random() < 0.7 else dyadic(r, -50, 50, 8)

            first_call = [True]

            def mkres():
                if first_call[0] or r.random() < 0.5:
                    first_call[0] = False
                    mm, bb = m, b
                else:      # another frame / placement with its own parameters
                    mm = r.choice(pool)
                    bb = Fraction(r.randint(-50, 50))
                if r.random() < 0.12:
                    return [fs(mm), None] if r.random() < 0.5 else [None, fs(bb)]
                return [fs(mm), fs(bb)]
            place('rescale', mkres)
            # omitted attributes default to slope 1 / intercept 0: windows then fold inexactly; handled by `exact`
        elif mk == 'lut':
            lb = r.choice([8, 16])
            T['mod_lut'] = gen_lut(r, lb, (imin, max(imin, min(imax, 300))) if signed else (0, min(imax, 300)))
            ml = T['mod_lut']
            interesting += [ml['first'] - 1, ml['first'], ml['first'] + len(ml['data']) - 1, ml['first'] + len(ml['data'])]
        if vk in ('window', 'both'):
            fn = r.choice([None, 'LINEAR', 'LINEAR', 'LINEAR_EXACT', 'LINEAR_EXACT', 'SIGMOID'])
            nwin = r.choice([1, 1, 2, 3])
            with_expl = r.random() < 0.5

            def mkwin():
                cs, ws, _ = gen_window(r, m, b, nwin, fn, allow_unit=True)
                w = {'c': cs, 'w': ws, 'fn': fn}
                if with_expl:
                    w['expl'] = r.sample(EXPL, nwin)
                return w
            place('window', mkwin)
            for e in T['window']:
                for wv in e['vals']:
                    for cc, ww in zip(wv['c'], wv['w']):
                        if F(ww) == 1:          # the step of a unit-width LINEAR window
                            s0 = (F(cc) - Fraction(1, 2) - b) / m
                            if s0.denominator == 1:
                                interesting += [int(s0) - 1, int(s0), int(s0), int(s0) + 1]
        if vk in ('lut', 'both'):
            nl = r.choice([1, 1, 2, 3])

            def mkluts():
                luts = []
                for _ in range(nl):
                    vb = r.choice([8, 16])
                    lut = gen_lut(r, vb, (-20, 200), pow2_range=r.random() < 0.8)
                    if r.random() < 0.5:
                        lut['expl'] = r.choice(EXPL)
                    luts.append(lut)
                return luts
            # at the image level (VOI LUT module), or in the Frame VOI LUT functional group - shared or per frame with
            # a table of its own for every frame; sometimes at two levels, to observe precedence
            u_ = r.random()
            if u_ < 0.55:
                T['voi_luts'] = mkluts()
            else:
                ps = [r.choice(['shared', 'perframe'])] if r.random() < 0.8 else ['shared', 'perframe']
                T['voi_luts_placed'] = [{'place': p_, 'vals': [mkluts() for _ in range(n if p_ == 'perframe' else 1)]} for p_ in ps]
                if r.random() < 0.2:
                    T['voi_luts'] = mkluts()
        if r.random() < 0.3:
            nm = r.choice([1, 1, 2, 3])
            labels = r.sample(['A', 'B', 'C', 'D'], nm)
            units = r.sample(UNITS, nm)

            def mkmaps():
                maps = []
                for j in range(nm):
                    mp = {'label': labels[j], 'unit': units[j]}
                    if r.random() < 0.6:
                        mp.update(first=imin, last=imax)
                    else:
                        a = r.randint(imin, imax - 1)
                        mp.update(first=a, last=min(imax, a + r.choice([1, 3, 8, 200])))
                    if r.random() < 0.6:
                        mp.update(slope=fs(r.choice(SLOPES)), intercept=fs(dyadic(r, -100, 100, 8)))
                    else:
                        mp['last'] = min(imax, mp['first'] + r.choice([1, 2, 4, 7]))
                        mp['lut'] = [fs(dyadic(r, -1000, 1000, 16)) for _ in range(mp['last'] - mp['first'] + 1)]
                    maps.append(mp)
                return maps
            place('rwvm', mkmaps)
            for e in T['rwvm']:
                for maps in e['vals']:
                    for mp in maps:
                        interesting += [mp['first'], mp['last']]
    # stored values
    interesting = [v for v in interesting if imin <= v <= imax]
    frames = []
    for _ in range(n):
        fr = []
        for _ in range(rows):
            row = []
            for _ in range(cols):
                u = r.random()
                if u < 0.35:
                    row.append(r.choice(interesting))
                elif u < 0.75:
                    row.append(max(imin, min(imax, r.randint(-30, 330))))
                else:
                    row.append(r.randint(imin, imax))
            fr.append(row)
        frames.append(fr)
    if T.get('rwvm'):
        # real-world maps (LUTs especially) cover a short range: keep most frames inside the range of one of the maps
        # that apply to them, so that reads (and get_frames over differing per-frame maps) succeed
        for f in range(n):
            maps = discover(T, 'rwvm', f)
            if maps and r.random() < 0.75:
                mp = r.choice(maps)
                a, z = int(mp['first']), int(mp['last'])
                frames[f] = [[max(imin, min(imax, r.randint(a, z))) for _ in row] for row in frames[f]]
    P['frames'] = frames
    P['T'] = T
    return P, opts


def gen_flags(r, P):
    """mostly flag tuples that can succeed, some arbitrary ones"""
    if r.random() < 0.08:
        return {'rw': r.choice(TRI), 'mod': r.choice(TRI), 'voi': r.choice(TRI), 'pal': r.choice(TRI),
                'icc': r.choice(TRI), 'pres': r.random() < 0.7}
    T = P['T']
    mono = P['photometric'].startswith('MONO')
    has = {'rw': bool(T.get('rwvm')), 'mod': bool(T.get('rescale') or T.get('mod_lut')),
           'voi': bool(T.get('window') or T.get('voi_luts') or T.get('voi_luts_placed')), 'pal': bool(T.get('palette')), 'icc': bool(T.get('icc'))}

    def tri(k, p_true=0.3):
        u = r.random()
        if u < p_true and (has[k] or r.random() < 0.1):
            return True
        return None if u < 0.85 else False
    fl = {'rw': tri('rw') if mono else None, 'mod': tri('mod') if mono else None,
          'voi': (tri('voi', 0.4) if r.random() < 0.85 else False) if mono else r.choice([None, False]),
          'pal': tri('pal'), 'icc': tri('icc'), 'pres': r.random() < 0.75}
    if fl['rw'] is True and fl['mod'] is True:
        fl[r.choice(['rw', 'mod'])] = None
    if fl['mod'] is False and fl['voi'] is not False and r.random() < 0.9:
        fl['voi'] = False
    if fl['pal'] is False and fl['icc'] is not False and r.random() < 0.9:
        fl['icc'] = False
    return fl


def gen_opts(r, P, flags):
    T = P['T']
    opts = {'spell': r.choice([0, 0, 1, 2])}
    odd = r.choice([1, 1, 3, 5, 7])
    j = r.randint(1, 8)
    rng = Fraction(odd * j) / Fraction(2) ** r.randint(0, 3)
    if r.random() < 0.6:
        lo = dyadic(r, -64, 64, 8)
        opts['voi_output_range'] = [fs(lo), fs(lo + rng)]
    if r.random() < 0.25:
        opts['dtype'] = r.choice(['float32', 'float32', 'int16', 'int32', 'uint8', 'uint16', 'int64'])
    # selectors
    wins = [v for e in T.get('window') or [] for v in e['vals']]
    all_luts = [v for e in T.get('voi_luts_placed') or [] for luts in e['vals'] for v in luts] + list(T.get('voi_luts') or [])
    first_luts = (T.get('voi_luts_placed') or [{'vals': [T.get('voi_luts') or []]}])[0]['vals'][0]
    nalt = len(first_luts) if first_luts else (len(wins[0]['c']) if wins else 1)
    u = r.random()
    if u < 0.35:
        opts['voi_selector'] = r.randint(-nalt - 1, nalt)
    elif u < 0.5:
        ex = [v.get('expl') for v in all_luts] if all_luts else (wins[0].get('expl') if wins else None)
        cand = [e for e in (ex or []) if e] + ['NOPE']
        opts['voi_selector'] = r.choice(cand)
    elif u < 0.6 and P['photometric'].startswith('MONO'):
        if r.random() < 0.5:
            opts['voi_user'] = dict(gen_lut(r, r.choice([8, 16]), (0, 200), pow2_range=True), kind='lut')
        else:
            fn = r.choice([None, 'LINEAR', 'LINEAR_EXACT', 'SIGMOID'])
            resc = [v for e in T.get('rescale') or [] for v in e['vals']]
            m = F(resc[0][0]) if resc and resc[0][0] is not None else Fraction(1)
            b = F(resc[0][1]) if resc and resc[0][1] is not None else Fraction(0)
            cs, ws, _ = gen_window(r, m, b, 1, fn)
            opts['voi_user'] = {'kind': 'window', 'c': cs[0], 'w': ws[0], 'fn': fn}
    maps = [m for e in T.get('rwvm') or [] for v in e['vals'] for m in v]
    if maps and r.random() < 0.6:
        k = r.random()
        if k < 0.4:
            opts['rwvm_selector'] = r.randint(-len(maps) - 1, len(maps))
        elif k < 0.7:
            opts['rwvm_selector'] = r.choice([m['label'] for m in maps] + ['Z'])
        else:
            opts['rwvm_selector'] = r.choice([m['unit'] for m in maps] + [['kg', 'UCUM', 'kg']])
    return opts


def small_dyadic(q, bits=34):
    q = Fraction(q)
    d = q.denominator
    return d & (d - 1) == 0 and abs(q.numerator).bit_length() <= bits and d.bit_length() <= 40


LAYOUTS = ['C', 'F', 'transposed', 'strided', 'negative-stride', 'read-only']


def with_layout(arr, kind):
    """an array equal to `arr` with the given memory layout (the standalone `apply` functions take any ndarray)"""
    arr = np.ascontiguousarray(arr)
    if kind == 'F':
        return np.asfortranarray(arr)
    if kind == 'transposed':
        return np.ascontiguousarray(arr.T).T
    if kind == 'strided':
        big = np.zeros(tuple(2 * d for d in arr.shape), dtype=arr.dtype)
        big[tuple(slice(None, None, 2) for _ in arr.shape)] = arr
        return big[tuple(slice(None, None, 2) for _ in arr.shape)]
    if kind == 'negative-stride':
        return np.ascontiguousarray(arr[..., ::-1])[..., ::-1]
    if kind == 'read-only':
        out = arr.copy()
        out.flags.writeable = False
        return out
    return arr


# ============================================================================ streams
def build(P, via_file=False):
    import highdicom as hd
    import pydicom
    from gen.images import to_bytes
    from gen.pixeltransforms import make_image
    ds = make_image(P)
    if via_file == 'lazy':
        return hd.imread(io.BytesIO(to_bytes(ds)), lazy_frame_retrieval=True), ds
    if via_file:
        return hd.imread(io.BytesIO(to_bytes(ds))), ds
    return hd.Image.from_dataset(ds), ds


def check_call(ctx, case, P, f, flags, opts, res, site, hist=True):
    """Judge one implementation result `res` = call(...) for frame f against the reference.  Returns the
    reference tuple (so the caller can also feed the model)."""
    ref = ref_frame(P, f, flags, opts)
    dtype = opts.get('dtype', 'float64')
    if ref[0] in ('skip',):
        return ref
    if ref[0] == 'undefined':
        if res[0] == 'ok':
            ctx.fail(case, {'why': 'result returned where the pipeline is undefined: ' + ref[1], 'got': np.asarray(res[1]).tolist()}, site=site)
        return ref
    if ref[0] == 'err':
        if res[0] == 'ok':
            ctx.fail(case, {'why': f'refusal expected ({ref[1]}) but a result was returned', 'got': np.asarray(res[1]).tolist()},
                     site=site + '/refusal')
        return ref
    _, want, info = ref
    if res[0] == 'err':
        tol = info.get('tolerated_refusal') or dtype_refusal_ok(P, info, want, dtype)
        if tol:
            if hist:
                ctx.hist('tolerated_refusals', tol)
        else:
            ctx.fail(case, {'why': 'refused although the pipeline is defined', 'error': res[2], 'stages': info['stages'],
                            'kinds': info['kind']}, site=site + '/refused')
        return ref
    got = np.asarray(res[1])
    if got.dtype != np.dtype(dtype):
        ctx.fail(case, {'why': f'dtype {got.dtype} instead of {dtype}'}, site=site + '/dtype')
        return ref
    diff = compare_values(got, want, info, dtype)
    if diff is not None:
        ctx.fail(case, {'why': 'values differ from the reference pipeline', 'kinds': info['kind'], 'stages': info['stages'], **diff},
                 site=site + '/' + '+'.join(info['kind'] or ['identity']))
    return ref


def stream_pipeline(ctx, reqs, pending, only_idx=None):
    n_img = ctx.n(800, 20000)
    for idx in (range(n_img) if only_idx is None else [only_idx]):
        r = ctx.rng('pipe', idx)
        P, _ = gen_pipeline_case(r, idx)
        via_file = r.choice([False] * 16 + [True, True, 'lazy', 'lazy'])
        st = call(build, P, via_file)
        if st[0] == 'err':
            ctx.note(f'generator could not build image {idx}: {st[2]}')
            continue
        im, ds = st[1]
        n = len(P['frames'])
        snap = call(im.to_json)
        first = None
        touch_cache = r.random() < 0.3
        for rep in range(3):
            flags = gen_flags(r, P)
            opts = gen_opts(r, P, flags)
            kw = dict(flag_kwargs(flags), **opt_kwargs(opts))
            if rep == 1 and touch_cache:
                call(lambda: im.pixel_array)          # later reads go through the cached pixel array
            for f in range(n):
                case = {'stream': 'pipe', 'idx': idx, 'rep': rep, 'frame': f, 'flags': flags, 'opts': opts, 'P': P}
                res = call(im.get_frame, (f + 1) if opts.get('spell') != 2 else np.int64(f + 1), **kw)
                if first is None:
                    first = (f, kw, res, case)
                ref = check_call(ctx, case, P, f, flags, opts, res, 'get_frame')
                mp = model_params(P, f, opts) if ref[0] in ('ok', 'err') and ref[1] != 'selector' else None
                if f == 0 and rep == 0 and P['photometric'].startswith('MONO'):
                    # the translated presentation rule (T6i) on this image: must invert exactly when the frames read do
                    shape = P['T'].get('pres_shape')
                    for ap in (True, False):
                        reqs.append(('presentationInverts', {'apply': ap, 'has_shape': bool(shape), 'shape': shape or '',
                                                             'photometric': P['photometric']}))
                        pending.append(({'stream': 'pipe', 'idx': idx, 'what': 'presentation rule (T6i) vs stages of the reference',
                                         'shape': shape, 'photometric': P['photometric'], 'apply': ap},
                                        bool(ap and (shape == 'INVERSE' or (not shape and P['photometric'] == 'MONOCHROME1')))))
                if mp is not None and 'constant' not in str(ref[1]):
                    reqs.append(('pipeline', {'flags': [flags[k] for k in ('rw', 'mod', 'voi', 'pal', 'icc')], 'pres': flags['pres'],
                                              'ctype': MONO, 'present': [mp[1][k] for k in PRES_KEYS], 'params': mp[0],
                                              'xs': [int(x) for x in np.asarray(P['frames'][f]).reshape(-1)]}))
                    pending.append(('pipeline', {k: v for k, v in case.items() if k != 'P'} | {'T': P['T']}, res, ref,
                                    opts.get('dtype', 'float64')))
                kinds = '+'.join(ref[2]['kind']) if ref[0] == 'ok' else ref[0] + ':' + str(ref[1])[:30]
                places = ','.join(f"{k}:{'/'.join(e['place'] for e in P['T'][k])}" for k in ('rescale', 'window', 'rwvm', 'voi_luts_placed') if P['T'].get(k))
                ctx.case(sample=case if (ref[0] == 'ok' and ctx.evaluations % 211 == 0) else None,
                         nontrivial_key=(kinds, places, opts.get('dtype'), P['bits'], P['signed'], idx) if ref[0] == 'ok' and ref[2]['kind'] else None,
                         pipeline=kinds, placement=places or '-', outcome=res[0] if res[0] == 'ok' else res[1],
                         dtype=opts.get('dtype', 'float64'), via_file=via_file,
                         flags=f"{flags['rw']},{flags['mod']},{flags['voi']},{flags['pal']},{flags['icc']},{flags['pres']}")
            # batch access = per-frame access (all frames in order, or a selection with repeats in any order, by number or index)
            sel = list(range(n))
            how = 'all'
            if rep > 0:
                sel = [r.randrange(n) for _ in range(r.randint(1, n + 1))]
                how = r.choice(['numbers', 'indices'])
            if how == 'all':
                res = call(im.get_frames, **kw)
            elif how == 'numbers':
                res = call(im.get_frames, [f + 1 for f in sel], **kw)
            else:
                res = call(im.get_frames, np.array(sel) if opts.get('spell') == 2 else sel, as_indices=True, **kw)
            ctx.hist('batch_selection', how)
            singles = [call(im.get_frame, f + 1, **kw) for f in sel]
            ctx.case(pipeline='batch')
            case = {'stream': 'pipe', 'idx': idx, 'rep': rep, 'frame': 'all', 'flags': flags, 'opts': opts, 'P': P, 'selection': sel, 'how': how}
            if all(s[0] == 'ok' for s in singles):
                if res[0] != 'ok':
                    ctx.fail(case, {'why': 'get_frames refused where every get_frame succeeds', 'error': res[2]}, site='get_frames')
                elif not np.array_equal(np.asarray(res[1]), np.stack([s[1] for s in singles]), equal_nan=True):
                    ctx.fail(case, {'why': 'get_frames differs from stacked get_frame', 'got': np.asarray(res[1]).tolist(),
                                    'want': np.stack([s[1] for s in singles]).tolist()}, site='get_frames')
            elif res[0] == 'ok':
                ctx.fail(case, {'why': 'get_frames succeeded although a single get_frame is refused'}, site='get_frames')
        # ---- the DESCRIPTION of the image changes between two reads of ONE object (a rescale intercept corrected in memory): the
        # next read must use the parameters the object holds now, not those of an earlier read (nothing may be remembered across
        # calls).  Only where the rescale lives at the image level in a single place, so that the change is one attribute.
        resc = (P['T'].get('rescale') or [])
        if len(resc) == 1 and resc[0]['place'] == 'image' and resc[0]['vals'][0][1] is not None and not via_file \
                and P['photometric'].startswith('MONO'):
            import copy as _copy
            from gen.pixeltransforms import fl as _fl
            P2 = _copy.deepcopy(P)
            new_b = F(resc[0]['vals'][0][1]) + 1
            P2['T']['rescale'][0]['vals'][0][1] = fs(new_b)
            flags2 = {'rw': False, 'mod': True, 'voi': False, 'pal': None, 'icc': None, 'pres': False}
            kw2 = flag_kwargs(flags2)
            before = call(im.get_frame, 1, **kw2)
            st_set = call(lambda: setattr(im, 'RescaleIntercept', _fl(fs(new_b))))
            if st_set[0] == 'ok' and before[0] == 'ok':
                after = call(im.get_frame, 1, **kw2)
                case2 = {'stream': 'pipe', 'idx': idx, 'rep': 'changed-description', 'frame': 0, 'flags': flags2, 'opts': {}, 'P': P2}
                ctx.case(pipeline='changed-description')
                check_call(ctx, case2, P2, 0, flags2, {}, after, 'get_frame', hist=False)
                batch2 = call(im.get_frames, [1], **kw2)
                if after[0] == 'ok' and (batch2[0] != 'ok' or not np.array_equal(np.asarray(batch2[1])[0], np.asarray(after[1]), equal_nan=True)):
                    ctx.fail(case2, {'why': 'get_frames after the description changed differs from get_frame'}, site='get_frames/changed-description')
                call(lambda: setattr(im, 'RescaleIntercept', _fl(resc[0]['vals'][0][1])))      # restore for the steps below
        # ---- a TWIN image alive next to this one, equal except for ONE parameter (presentation shape toggled / rescale intercept
        # shifted / window function exchanged), read alternately with the same options: nothing one object's transform leaves behind
        # (memoised transforms, tables keyed too coarsely) may reach the other
        if idx % 3 == 0 and P['photometric'].startswith('MONO') and not via_file:
            import copy as _copy
            Pt = _copy.deepcopy(P)
            Tt = Pt['T']
            rt = ctx.rng('pipe-twin', idx)
            choices = ['pres']
            if len(Tt.get('rescale') or []) == 1 and Tt['rescale'][0]['vals'][0][1] is not None:
                choices.append('intercept')
            if len(Tt.get('window') or []) == 1 and Tt['window'][0]['vals'][0].get('fn') in ('LINEAR', 'LINEAR_EXACT'):
                choices.append('function')
            what = rt.choice(choices)
            if what == 'pres':
                Tt['pres_shape'] = 'IDENTITY' if Tt.get('pres_shape') == 'INVERSE' or (not Tt.get('pres_shape') and P['photometric'] == 'MONOCHROME1') else 'INVERSE'
            elif what == 'intercept':
                for v in Tt['rescale'][0]['vals']:
                    if v[1] is not None:
                        v[1] = fs(F(v[1]) + 2)
            else:
                for v in Tt['window'][0]['vals']:
                    v['fn'] = 'LINEAR_EXACT' if v['fn'] == 'LINEAR' else 'LINEAR'
            stt = call(build, Pt)
            if stt[0] == 'ok':
                im_t = stt[1][0]
                flags_t = gen_flags(rt, P)
                opts_t = {}
                kw_t = flag_kwargs(flags_t)
                for which in (0, 1, 0, 1):
                    obj, Pw = (im, P) if which == 0 else (im_t, Pt)
                    res_t = call(obj.get_frame, 1, **kw_t)
                    case_t = {'stream': 'pipe', 'idx': idx, 'rep': 'twin', 'frame': 0, 'flags': flags_t, 'opts': opts_t, 'P': Pw,
                              'twin_differs_in': what, 'which': 'ab'[which]}
                    ctx.case(pipeline='twin', twin_differs_in=what)
                    check_call(ctx, case_t, Pw, 0, flags_t, opts_t, res_t, 'get_frame', hist=False)
        # several reads on ONE object: the very first read again, after reads with other options, refused calls, batch reads
        # (and possibly the pixel-array cache): same answer; and no read has changed the image
        if first is not None:
            f0, kw0, res0, case0 = first
            again = call(im.get_frame, f0 + 1, **kw0)
            same = again[0] == res0[0] and (again[1] == res0[1] if again[0] != 'ok' else
                                            np.array_equal(np.asarray(again[1]), np.asarray(res0[1]), equal_nan=True))
            ctx.case(pipeline='repeat', repeat_after_cache=touch_cache)
            if not same:
                ctx.fail(dict(case0, repeated=True), {'why': 'the same read repeated after other reads gives another answer',
                                                      'first': str(res0[1])[:200], 'again': str(again[1])[:200]}, site='get_frame/repeat')
            snap2 = call(im.to_json)
            if snap[0] == 'ok' and (snap2[0] != 'ok' or snap2[1] != snap[1]):
                ctx.fail(dict(case0, repeated=True), {'why': 'reading frames changed the image dataset'}, site='get_frame/mutates-image')


# ---------------------------------------------------------------------------- colour type x palette flag x assembled reads
def stream_assembled_colour(ctx, reqs, pending):
    """Tiled images of every colour type (MONOCHROME2, PALETTE COLOR, RGB) read through get_total_pixel_matrix with the
    palette flag None / True / False (colour management off): the assembled matrix has a colour axis exactly when the frames
    have one, and equals the stored matrix mapped through the palette when the palette is applied (below / above the table ->
    first / last entry) and the stored matrix otherwise.  (The output array is allocated from the transform's `color_output`
    before any frame is read: a slip there only shows on this entry point.)"""
    import highdicom as hd
    from gen.pixeltransforms import add_transforms
    from gen.sources import slide_image
    for idx in range(ctx.n(18, 240)):
        r = ctx.rng('asmcolour', idx)
        nr = ctx.np_rng('asmcolour', idx)
        ctype = [MONO, PALETTE, COLOR][idx % 3]
        tr, tc = r.randint(1, 3), r.randint(2, 4)
        R, C = r.randint(tr, 3 * tr), r.randint(tc, 3 * tc)
        ds, tpm = slide_image(R, C, tr, tc, tiled_full=r.random() < 0.5, samples=3 if ctype == COLOR else 1, bits=8, rng=nr)
        pal = None
        if ctype == PALETTE:
            k = r.choice([2, 5, 16, 200])
            first = r.choice([0, 0, 3, 100])
            pal = {'first': first, 'bits': r.choice([8, 16]), 'data': None}
            pal['data'] = [[r.randint(0, 2 ** pal['bits'] - 1) for _ in range(3)] for _ in range(k)]
            ds.PhotometricInterpretation = 'PALETTE COLOR'
            add_transforms(ds, {'palette': pal})
        st = call(hd.Image.from_dataset, ds)
        if st[0] != 'ok':
            ctx.note(f'assembled colour case {idx}: image not built: {st[2]}')
            continue
        im = st[1]
        for pflag in (None, True, False):
            if pflag is True and ctype != PALETTE:
                continue
            kw = dict(apply_real_world_transform=False, apply_modality_transform=False, apply_voi_transform=False,
                      apply_presentation_lut=False, apply_palette_color_lut=pflag, apply_icc_profile=False, dtype=np.int64)
            res = call(im.get_total_pixel_matrix, **kw)
            case = {'stream': 'asmcolour', 'idx': idx, 'ctype': ctype, 'palette_flag': pflag}
            ctx.case(nontrivial_key=('asmcolour', ctype, pflag, idx) if res[0] == 'ok' else None, assembled_colour=f'{ctype}/{pflag}',
                     assembled_outcome=res[0] if res[0] == 'ok' else res[1])
            want = np.asarray(tpm).astype(np.int64)
            if ctype == PALETTE and pflag is not False:
                d = np.asarray(pal['data'], dtype=np.int64)
                want = d[np.clip(want - pal['first'], 0, len(d) - 1)]
            if res[0] != 'ok':
                ctx.fail(case, {'why': 'total pixel matrix refused', 'error': res[2]}, site='asmcolour/get_total_pixel_matrix')
            elif np.asarray(res[1]).shape != want.shape or not np.array_equal(np.asarray(res[1]), want):
                ctx.fail(case, {'why': 'assembled matrix differs from the stored matrix (through the palette where it applies)',
                                'got_shape': list(np.asarray(res[1]).shape), 'want_shape': list(want.shape)},
                         site='asmcolour/get_total_pixel_matrix')


# ---------------------------------------------------------------------------- pixels exactly on the edges of a window
def stream_window_edges(ctx, reqs, pending):
    """Deterministic grid: LINEAR (width 1, 2, 5) and LINEAR_EXACT (width 1, 4) windows x no rescale / rescale with slope 1, 2, 1/2
    x plain / inverted presentation x float64 / float32, with stored values exactly on the lower edge, on the upper edge and one
    step to either side (PS3.3 C.11.2.1.2.1 / C.11.2.1.3.2: `<=` on the lower edge, `>` on the upper one).  Open / closed edge
    slips only show on such pixels."""
    grid = []
    for fn, w in (('LINEAR', 1), ('LINEAR', 2), ('LINEAR', 5), ('LINEAR_EXACT', 1), ('LINEAR_EXACT', 4)):
        for m, b in ((None, None), (1, 3), (2, -4), (Fraction(1, 2), 1)):
            for shape in (None, 'INVERSE'):
                grid.append((fn, w, m, b, shape))
    for gi, (fn, w, m, b, shape) in enumerate(grid):
        mm, bb = (Fraction(1), Fraction(0)) if m is None else (Fraction(m), Fraction(b))
        # choose the centre so that both edges fall on integer stored values
        lo_stored = 20
        lo_edge = mm * lo_stored + bb                     # rescaled value of the lower edge
        if fn == 'LINEAR':
            c = lo_edge + Fraction(1, 2) + Fraction(w - 1, 2)
            hi_edge = c - Fraction(1, 2) + Fraction(w - 1, 2)
        else:
            c = lo_edge + Fraction(w, 2)
            hi_edge = c + Fraction(w, 2)
        hi_stored = (hi_edge - bb) / mm
        xs = sorted({lo_stored - 1, lo_stored, lo_stored + 1, int(hi_stored) - 1, int(hi_stored), int(hi_stored) + 1,
                     int(hi_stored) + (0 if hi_stored.denominator == 1 else 1)})
        T = {'window': [{'place': 'image', 'vals': [{'c': [fs(c)], 'w': [fs(Fraction(w))], 'fn': fn}]}]}
        if m is not None:
            T['rescale'] = [{'place': 'image', 'vals': [[fs(mm), fs(bb)]]}]
        if shape:
            T['pres_shape'] = shape
        P = {'bits': 8, 'signed': False, 'bits_stored': 8, 'photometric': 'MONOCHROME2', 'frames': [[xs]], 'T': T}
        st = call(build, P)
        if st[0] != 'ok':
            ctx.note('window-edge image could not be built: ' + st[2])
            continue
        im = st[1][0]
        flags = {'rw': None, 'mod': None, 'voi': True, 'pal': None, 'icc': None, 'pres': True}
        for dname in ('float64', 'float32'):
            opts = {'dtype': dname}
            res = call(im.get_frame, 1, dtype=np.dtype(dname), **flag_kwargs(flags))
            case = {'stream': 'pipe', 'idx': -2 - gi, 'rep': 0, 'frame': 0, 'flags': flags, 'opts': opts, 'P': P}
            check_call(ctx, case, P, 0, flags, opts, res, 'get_frame', hist=False)
            ctx.case(nontrivial_key=('edges', gi, dname) if res[0] == 'ok' else None, window_edges=f'{fn}/w{w}/{"rescale" if m else "plain"}/{shape or "identity"}')
    ctx.exhaustive.append('window edges: 5 windows x 4 rescales x 2 presentation shapes x 2 float types, pixels on and next to both edges')


def settle(ctx, reqs, pending):
    answers = ctx.model(reqs)
    if answers is None:
        return
    for item, ans in zip(pending, answers):
        if item[0] == 'pipeline':
            _, case, res, ref, dtype = item
            compare_model(ctx, case, ans, res, ref, ref[0] == 'ok' and ref[2]['exact'], dtype,
                          ref[2].get('f32_slack', 0.0) if ref[0] == 'ok' else 0.0)
        else:
            case, impl = item
            if 'proto_err' in ans:
                ctx.disagree('L0', case, impl, ans, 'model protocol error')
                continue
            model = 'err' if 'err' in ans else ans['ok']
            if model != impl:
                ctx.disagree(case.get('layer', 'L0') if isinstance(case, dict) else 'L0', case, impl, model, case.get('what', 'value'))


def run(ctx):
    reqs, pending = [], []
    stream_flags(ctx, reqs, pending)
    stream_pipeline(ctx, reqs, pending)
    stream_lut(ctx, reqs, pending)
    stream_palette(ctx, reqs, pending)
    stream_selectors(ctx, reqs, pending)
    stream_placement(ctx, reqs, pending)
    stream_objects(ctx, reqs, pending)
    stream_paths(ctx, reqs, pending)
    stream_dtype(ctx, reqs, pending)
    stream_spellings(ctx, reqs, pending)
    stream_entrypoints(ctx, reqs, pending)
    stream_narrowing(ctx, reqs, pending)
    stream_assembled_colour(ctx, reqs, pending)
    stream_window_edges(ctx, reqs, pending)
    settle(ctx, reqs, pending)


def replay(ctx, case):
    """Re-run one stored case on the implementation (model off); returns the failures of exactly that case or None."""
    sub = type(ctx)(ctx.prop, ctx.tier, ctx.seed, 1, ctx.driver)
    sub.model_available = False
    stream = case.get('stream')
    if stream == 'flags':
        P = flag_image(case['ctype'], case['present'])
        im, _ = build(P)
        res = call(im.get_frame, 1, **flag_kwargs(case['flags']))
        check_call(sub, case, P, 0, case['flags'], {}, res, 'flags', hist=False)
        return sub.failures[:3] or None
    if stream == 'pipe' and 'P' in case:
        # the case carries the whole image and call: re-run it directly
        P, flags, opts = case['P'], case['flags'], case['opts']
        im, _ = build(P)
        kw = dict(flag_kwargs(flags), **opt_kwargs(opts))
        n = len(P['frames'])
        if case.get('frame') == 'all':
            sel = case.get('selection') or list(range(n))
            how = case.get('how', 'all')
            singles = [call(im.get_frame, f + 1, **kw) for f in sel]
            for f, sres in zip(sel, singles):
                check_call(sub, case, P, f, flags, opts, sres, 'get_frame', hist=False)
            if how == 'all':
                res = call(im.get_frames, **kw)
            elif how == 'numbers':
                res = call(im.get_frames, [f + 1 for f in sel], **kw)
            else:
                res = call(im.get_frames, sel, as_indices=True, **kw)
            if all(x[0] == 'ok' for x in singles):
                if res[0] != 'ok':
                    sub.fail(case, {'why': 'get_frames refused where every get_frame succeeds', 'error': res[2]}, site='get_frames')
                elif not np.array_equal(np.asarray(res[1]), np.stack([x[1] for x in singles]), equal_nan=True):
                    sub.fail(case, {'why': 'get_frames differs from stacked get_frame', 'got': np.asarray(res[1]).tolist()}, site='get_frames')
            elif res[0] == 'ok':
                sub.fail(case, {'why': 'get_frames succeeded although a single get_frame is refused'}, site='get_frames')
        else:
            f = case['frame']
            check_call(sub, case, P, f, flags, opts, call(im.get_frame, f + 1, **kw), 'get_frame', hist=False)
        if sub.failures or case.get('shrunk') or case.get('idx', -1) < 0:
            return sub.failures[:3] or None
        # failures that depend on the sequence of reads (repeat / snapshot): re-run the whole image of the stream
        stream_pipeline(sub, [], [], only_idx=case['idx'])
        keys = [k for k in ('rep', 'frame', 'repeated') if k in case]
        sub.failures = [f_ for f_ in sub.failures if all(f_['case'].get(k) == case.get(k) for k in keys)]
        return sub.failures[:3] or None
    streams = {'asmcolour': stream_assembled_colour, 'lut': stream_lut, 'palette': stream_palette, 'selwin': stream_selectors, 'sellut': stream_selectors,
               'selrw': stream_selectors, 'place': stream_placement, 'obj': stream_objects, 'paths': stream_paths, 'dtype': stream_dtype,
               'spell': stream_spellings, 'entry': stream_entrypoints, 'narrow': stream_narrowing}
    fn = streams.get(stream)
    if fn is not None:
        # deterministic and cheap: re-run the stream and keep the failures of the same case
        fn(sub, [], [])
        keys = [k for k in ('stream', 'idx', 'ctype', 'palette_flag', 'n', 'sel', 'kind', 'places', 'frame', 'slope', 'intercept', 'out', 'in', 'dtype', 'dtype_spelling',
                            'range_spelling', 'frame_number', 'round', 'family', 'source', 'selector', 'entry', 'voi', 'rw', 'slice', 'cls',
                            'array_dtype', 'expl', 'image', 'variant', 'mod') if k in case]
        sub.failures = [f_ for f_ in sub.failures if all(_jsonish(f_['case'].get(k)) == _jsonish(case.get(k)) for k in keys)]
    return sub.failures[:3] or None


def _jsonish(x):
    """a value as it looks after a JSON round trip (tuples become lists, numpy scalars plain numbers)"""
    import json
    try:
        return json.loads(json.dumps(x, default=lambda o: o.item() if hasattr(o, 'item') else repr(o)))
    except Exception:  # noqa: BLE001
        return repr(x)


# ---------------------------------------------------------------------------- flag table
FLAG_RWVM = {'label': 'A', 'unit': ['1', 'UCUM', 'no units'], 'first': 0, 'last': 255, 'slope': '2', 'intercept': '1000'}
PRES_KEYS = ('rwvm', 'modality', 'voi', 'icc', 'inverse')


def flag_image(ctype, pres):
    """the image of one (colour type, presence pattern) row of the flag table; every stage changes the output visibly"""
    T = {}
    if pres['rwvm']:
        T['rwvm'] = [{'place': 'image', 'vals': [[FLAG_RWVM]]}]
    if pres['modality']:
        T['rescale'] = [{'place': 'image', 'vals': [['3', '7']]}]
    if pres['voi']:
        T['window'] = [{'place': 'image', 'vals': [{'c': ['20'], 'w': ['64'], 'fn': 'LINEAR_EXACT'}]}]
    if pres['inverse']:
        T['pres_shape'] = 'INVERSE'
    if pres['icc']:
        T['icc'] = True
    P = {'bits': 8, 'signed': False, 'bits_stored': 8, 'T': T}
    if ctype == MONO:
        P.update(photometric='MONOCHROME2', frames=[[[3, 9]]])
    elif ctype == PALETTE:
        P.update(photometric='PALETTE COLOR', frames=[[[3, 9]]])
        T['palette'] = {'first': 2, 'bits': 8, 'data': [[10 * k + 1, 100 + k, 200 - 7 * k] for k in range(12)]}
    else:
        P.update(photometric='RGB', frames=[[[[200, 10, 30], [0, 255, 7]]]])
    return P


def all_flag_tuples():
    for rw, mod, voi, pal, icc in itertools.product(TRI, repeat=5):
        for pres in (True, False):
            yield {'rw': rw, 'mod': mod, 'voi': voi, 'pal': pal, 'icc': icc, 'pres': pres}


def observe_stages(P, res):
    """which stage set reproduces the implementation's output (None if no candidate does)"""
    if res[0] != 'ok':
        return 'err'
    ctype = color_type(P['photometric'])
    cands = []
    if ctype == MONO:
        cands.append({'rwvm': True, 'modality': False, 'voi': False, 'invert': False})
        for m, v, i in itertools.product((False, True), repeat=3):
            cands.append({'rwvm': False, 'modality': m, 'voi': v, 'invert': i})
        for c in cands:
            c.update(palette=False, icc=False)
    else:
        for p_, i in itertools.product((False, True) if ctype == PALETTE else (False,), (False, True)):
            cands.append({'rwvm': False, 'modality': False, 'voi': False, 'invert': False, 'palette': p_, 'icc': i})
    got = np.asarray(res[1])
    hits = []
    T = P['T']
    for c in cands:
        if (c['rwvm'] and not T.get('rwvm')) or (c['modality'] and not T.get('rescale')) or (c['voi'] and not T.get('window')) \
                or (c['invert'] and T.get('pres_shape') != 'INVERSE') or (c['icc'] and not T.get('icc')):
            continue
        ref = ref_apply(P, 0, c, {})
        if ref[0] != 'ok':
            continue
        info = ref[2]
        shape_ok = (got.ndim == 3) == bool(info.get('color_out')) if ctype != MONO else got.ndim == 2
        if shape_ok and compare_values(got, ref[1], dict(info, kind=[k for k in info['kind'] if k != 'icc']), 'float64') is None:
            hits.append(c)
    return hits[0] if len(hits) == 1 else None


def stream_flags(ctx, reqs, pending):
    rows = [(ct, dict(zip(PRES_KEYS, bits))) for ct in (MONO, COLOR, PALETTE)
            for bits in itertools.product((False, True), repeat=5)]
    tuples = list(all_flag_tuples())
    full = ctx.tier == 'thorough' and not ctx.search_mode
    r = ctx.rng('flags', 0)
    budget = ctx.n(4000, len(rows) * len(tuples))
    per_row = len(tuples) if full else max(1, budget // len(rows))
    for ct, pres in rows:
        P = flag_image(ct, pres)
        st = call(build, P)
        if st[0] == 'err':
            ctx.note(f'flag image could not be built: {st[2]}')
            continue
        im = st[1][0]
        if full:
            sel = tuples
        else:
            # a uniform sample is ~88 % refusals: take two thirds from the cells the table lets succeed
            good = [t for t in tuples if spec_stages(t, ct, pres) is not None]
            k = min(per_row, len(tuples))
            sel = r.sample(good, min(len(good), (2 * k) // 3))
            sel += r.sample(tuples, k - len(sel))
        for flags in sel:
            res = call(im.get_frame, 1, **flag_kwargs(flags))
            case = {'stream': 'flags', 'ctype': ct, 'present': pres, 'flags': flags}
            ref = check_call(ctx, case, P, 0, flags, {}, res, 'flags', hist=False)
            spec = 'err' if ref[0] == 'err' else ref[2]['stages']
            ctx.case(nontrivial_key=('flags', ct, tuple(pres.values()), tuple(flags.values())) if ref[0] == 'ok' else None,
                     flag_outcome=('refused' if res[0] != 'ok' else 'applied:' + '+'.join(k for k, v in spec.items() if v) if spec != 'err' else 'ok?'),
                     ctype=ct)
            obs = observe_stages(P, res)
            if obs is None:
                ctx.fail(case, {'why': 'output matches no combination of stages', 'got': np.asarray(res[1]).tolist()}, site='flags/decode')
                continue
            reqs.append(('flagOutcome', {'flags': [flags[k] for k in ('rw', 'mod', 'voi', 'pal', 'icc')], 'pres': flags['pres'],
                                         'ctype': ct, 'present': [pres[k] for k in PRES_KEYS]}))
            pending.append((case, obs if obs == 'err' else [obs[k] for k in ('rwvm', 'modality', 'voi', 'invert', 'palette', 'icc')]))
    if full:
        ctx.exhaustive.append(f'flag table: {len(rows)} (colour type x presence) rows x {len(tuples)} flag tuples = {len(rows) * len(tuples)} cells via get_frame')


# ============================================================================ model requests
def model_params(P, f, opts):
    """the parameters in force for frame f as the model's `Params` (selection and discovery by the oracle's
    own functions; the model's selectors / placement search are compared separately).  None if the case lies
    outside the model (colour types; selector refusals; constant / user-defined corner cases)."""
    T = P.get('T') or {}
    if color_type(P['photometric']) != MONO:
        return None
    imin, imax = stored_range(P)
    lo, hi = opts.get('voi_output_range', (0, 1))
    out = {'imin': imin, 'imax': imax, 'lo': fs(F(lo)), 'hi': fs(F(hi)), 'modality': None, 'voi': None, 'rwvm': None}
    present = {'rwvm': False, 'modality': False, 'voi': False}
    maps = discover(T, 'rwvm', f)
    if maps is not None:
        m = select_rwvm(maps, opts.get('rwvm_selector', 0))
        if m is None:
            return None
        present['rwvm'] = True
        if 'lut' in m:
            out['rwvm'] = {'k': 'lut', 'first': int(m['first']), 'data': [fs(F(v)) for v in m['lut']]}
        else:
            out['rwvm'] = {'k': 'linear', 'first': fs(F(m['first'])), 'last': fs(F(m['last'])), 'm': fs(F(m['slope'])), 'b': fs(F(m['intercept']))}
    if T.get('mod_lut'):
        present['modality'] = True
        out['modality'] = {'k': 'lut', 'first': T['mod_lut']['first'], 'data': T['mod_lut']['data']}
    else:
        resc = discover(T, 'rescale', f)
        if resc is not None:
            present['modality'] = True
            out['modality'] = {'k': 'rescale', 'm': fs(F(resc[0])) if resc[0] is not None else '1',
                               'b': fs(F(resc[1])) if resc[1] is not None else '0'}
    u = opts.get('voi_user')
    sel = opts.get('voi_selector', 0)
    if u is not None:
        present['voi'] = True
        out['voi'] = {'k': 'lut', 'first': u['first'], 'data': u['data']} if u['kind'] == 'lut' else \
            {'k': 'window', 'fn': u.get('fn') or 'LINEAR', 'c': fs(F(u['c'])), 'w': fs(F(u['w']))}
    elif (discover_voi(T, f) or (None,))[0] == 'lut':
        v = select_lut(discover_voi(T, f)[1], sel)
        if v is None:
            return None
        present['voi'] = True
        out['voi'] = {'k': 'lut', 'first': v['first'], 'data': v['data']}
    else:
        win = (discover_voi(T, f) or (None, None))[1]
        if win is not None:
            cw = select_window(win, sel)
            if cw is None:
                return None
            if (win.get('fn') or 'LINEAR') == 'LINEAR' and cw[1] == 1:
                return None        # numpy's inf / nan arithmetic at width 1 has no counterpart over Rat (open finding)
            present['voi'] = True
            out['voi'] = {'k': 'window', 'fn': win.get('fn') or 'LINEAR', 'c': fs(cw[0]), 'w': fs(cw[1])}
    present['icc'] = bool(T.get('icc'))
    present['inverse'] = (T.get('pres_shape') == 'INVERSE') or (not T.get('pres_shape') and P['photometric'] == 'MONOCHROME1')
    return out, present


def out_value(o):
    """a model `Out` as a number: exact Fraction, or float for a sigmoid"""
    if 'v' in o:
        return F(o['v'])
    k, off, arg = (float(F(x)) for x in o['s'])
    try:
        e = math.exp(arg)
    except OverflowError:
        e = math.inf
    return off + k / (1.0 + e)


def compare_model(ctx, case, ans, res, ref, info_exact, dtype, slack=0.0):
    """model (`pipeline` answer) against implementation result `res` and against the oracle's reference `ref`"""
    if 'proto_err' in ans:
        ctx.disagree('L0', case, res[:2], ans, 'model protocol error')
        return
    impl_ok = res[0] == 'ok'
    if 'err' in ans:                       # the model refuses at the flag stage
        if impl_ok:
            ctx.disagree('L0', case, 'ok', ans, 'flags: model refuses, implementation returns a frame')
        return
    body = ans['ok']
    folded, mref = body['folded'], body['ref']
    # (1) Lean reference pipeline = oracle's reference pipeline
    if ref[0] == 'ok':
        want = ref[1]
        for o, w in zip(mref, want):
            if 'err' in o:
                ctx.disagree('L0', case, str(w), o, 'Lean reference pipeline refuses where the oracle has a value')
                break
            v = out_value(o['ok'])
            same = (v == w) if isinstance(w, Fraction) and isinstance(v, Fraction) else abs(float(v) - float(w)) <= 1e-9 * (1 + abs(float(w)))
            if not same:
                ctx.disagree('L0', case, str(w), o, 'Lean reference pipeline differs from the oracle')
                break
    # (2) folded model = implementation
    if any('err' in o for o in folded):
        if impl_ok:
            ctx.disagree('L0', case, 'ok', [o for o in folded if 'err' in o][:1], 'model refuses, implementation returns a frame')
        return
    if not impl_ok:
        # refusals because of the output dtype are outside the model
        if np.dtype(dtype).kind == 'f' and np.dtype(dtype).itemsize == 8:
            ctx.disagree('L0', case, res[:3], 'ok', 'implementation refuses, model returns values')
        return
    got = np.asarray(res[1]).reshape(-1).tolist()
    exact = info_exact and np.dtype(dtype) == np.float64
    for g, o in zip(got, folded):
        v = out_value(o['ok'])
        if np.dtype(dtype).kind in 'iu':
            same = isinstance(v, Fraction) and v == int(g)
        elif exact and isinstance(v, Fraction):
            same = not (math.isnan(g) or math.isinf(g)) and Fraction(g) == v
        else:
            tol = 2.0 ** -40 if np.dtype(dtype).itemsize >= 8 else 2.0 ** -18
            if not isinstance(v, Fraction):
                tol = max(tol, 1e-12)
            same = abs(g - float(v)) <= tol * (1 + abs(float(v))) + (slack if np.dtype(dtype).itemsize < 8 else 0.0)
        if not same:
            ctx.disagree('L0', case, got, [str(out_value(o['ok'])) for o in folded], 'folded model differs from the implementation')
            return


# ---------------------------------------------------------------------------- LUT objects
LUT_LENGTHS = [1, 2, 3, 4, 5, 7, 8, 15, 16, 255, 256, 257]


def stream_lut(ctx, reqs, pending):
    import highdicom as hd
    import pydicom
    from pydicom.dataset import Dataset
    from pydicom.sequence import Sequence
    from gen.images import base_dataset, to_bytes, MF_SC_WORD
    from pydicom.uid import ExplicitVRLittleEndian
    n_cases = ctx.n(300, 4000)
    big_every = 40 if ctx.tier == 'quick' else 25
    for idx in range(n_cases):
        r = ctx.rng('lut', idx)
        bits = r.choice([8, 16])
        if idx % big_every == 0:
            n = r.choice([65535, 65536, 65536, 65537])
        else:
            n = r.choice(LUT_LENGTHS) if r.random() < 0.8 else r.randint(1, 700)
        first = r.choice([0, 0, 1, 5, 255, 256, 1000, 65535]) if r.random() < 0.85 else r.choice([-1, -7, 65536, 70000])
        nr = ctx.np_rng('lut', idx)
        data = nr.integers(0, 2 ** bits, size=n, dtype=np.int64)
        if r.random() < 0.08:
            data = data[:0]
        dt = np.uint8 if bits == 8 else np.uint16
        if r.random() < 0.05:
            dt = np.int16 if bits == 16 else np.int8           # refused dtype
        cls = r.choice(['LUT', 'LUT', 'VOILUT', 'ModalityLUT'])
        case = {'stream': 'lut', 'idx': idx, 'cls': cls, 'bits': bits, 'n': int(n), 'first': first, 'dtype': np.dtype(dt).name}
        arr = data.astype(dt)
        if cls == 'LUT':
            res = call(hd.LUT, first, arr)
        elif cls == 'VOILUT':
            res = call(hd.VOILUT, first, arr)
        else:
            res = call(hd.ModalityLUT, 'US', first, arr)
        valid = 0 <= first < 65536 and 1 <= len(arr) <= 65536 and dt in (np.uint8, np.uint16)
        ctx.case(nontrivial_key=('lut', cls, bits, int(n), first) if valid else None, lut_len=('65536' if n == 65536 else 'odd' if n % 2 else 'even'),
                 lut_bits=bits, lut_outcome=res[0] if res[0] == 'ok' else res[1], lut_class=cls)
        # ---- oracle: construction is refused exactly for what the descriptor cannot express
        if valid != (res[0] == 'ok'):
            ctx.fail(case, {'why': 'LUT construction ' + ('refused' if valid else 'accepted') + ' unexpectedly', 'res': str(res[1:])[:200]},
                     site='LUT.__init__')
            continue
        # ---- model: constructor outcome and the standard-mandated encoding (L1)
        mbits = (8 if dt == np.uint8 else 16 if dt == np.uint16 else 7)
        reqs.append(('lutInit', {'first': first, 'bits': mbits, 'data': [int(x) for x in data[:0 if not valid else None]] if valid else
                                 [int(x) % (2 ** bits) for x in data]}))
        if res[0] == 'ok':
            lut = res[1]
            pending.append((dict(case, layer='L1', what='LUTDescriptor / LUTData encoding'),
                            {'data': list(lut.LUTData), 'descriptor': [int(x) for x in lut.LUTDescriptor]}))
        else:
            pending.append((dict(case, what='LUT constructor refusal'), 'err'))
        if res[0] != 'ok':
            continue
        # ---- oracle: accessors return what was given
        for label, obj in (('memory', lut), ('file', None)):
            if obj is None:
                # through a file: the item sits in a sequence of an image-like dataset
                ds = base_dataset(MF_SC_WORD, ExplicitVRLittleEndian)
                seq_kw = 'ModalityLUTSequence' if cls == 'ModalityLUT' else 'VOILUTSequence'
                setattr(ds, seq_kw, Sequence([lut]))
                st = call(lambda: pydicom.dcmread(io.BytesIO(to_bytes(ds))))
                if st[0] != 'ok':
                    ctx.note(f'could not write LUT {idx}: {st[2]}')
                    continue
                item = getattr(st[1], seq_kw)[0]
                vr = item['LUTData'].VR
                before = list(item.LUTData) if vr == 'OW' else None
                ctx.hist('lut_file_vr', vr)
                st2 = call(hd.LUT.from_dataset, item)
                if st2[0] != 'ok':
                    ctx.fail(case, {'why': 'from_dataset refused a LUT item read from file', 'err': st2[2]}, site='LUT.from_dataset')
                    continue
                obj = st2[1]
                if obj is item:
                    ctx.fail(case, {'why': 'from_dataset(copy=True) returned its argument'}, site='LUT.from_dataset/copy')
                if before is not None:
                    reqs.append(('lutAccess', {'descriptor': [int(x) for x in item.LUTDescriptor], 'data': before, 'pad': False}))
                    pending.append((dict(case, what='accessors on the item read from file'),
                                    {'data': [int(x) for x in data], 'first': first, 'n': int(n)}))
            got = call(lambda: (obj.lut_data, obj.first_mapped_value, obj.number_of_entries, obj.bits_per_entry))
            ctx.case(lut_access=label)
            if got[0] != 'ok':
                ctx.fail(case, {'why': f'accessors raised ({label})', 'err': got[2]}, site='LUT.lut_data')
                continue
            d, f0, n0, b0 = got[1]
            if not (np.array_equal(d, arr) and d.dtype == arr.dtype and f0 == first and n0 == n and b0 == bits):
                ctx.fail(case, {'why': f'accessors do not return the table given ({label})', 'first': f0, 'n': n0, 'bits': b0,
                                'data_equal': bool(np.array_equal(d, arr))}, site='LUT.lut_data')
        # ---- apply: below / above / inside
        probes = sorted({first - 3, first - 1, first, first + 1, first + n // 2, first + n - 2, first + n - 1, first + n, first + n + 5,
                         0, 65535} | {int(x) for x in nr.integers(0, 65536, size=4)})
        for adt in ('uint16', 'int32', 'uint8', 'int16'):
            ii = np.iinfo(adt)
            xs = [x for x in probes if ii.min <= x <= ii.max]
            if not xs:
                continue
            lay = LAYOUTS[(idx + len(xs)) % len(LAYOUTS)]
            a = with_layout(np.array(xs, dtype=adt), lay)
            a_before = a.tobytes()
            got = call(lut.apply, a)
            if a.tobytes() != a_before:
                ctx.fail(dict(case, array_dtype=adt), {'why': 'LUT.apply modified its input array', 'layout': lay}, site='apply/mutates-input')
            want = arr[np.clip(np.array(xs, dtype=np.int64) - first, 0, n - 1)]
            ctx.case(lut_apply=adt, array_layout=lay)
            c2 = dict(case, xs=xs, array_dtype=adt)
            if got[0] != 'ok':
                ctx.fail(c2, {'why': 'LUT.apply raised', 'err': got[2]}, site='LUT.apply')
            elif not np.array_equal(got[1], want):
                ctx.fail(c2, {'why': 'LUT.apply: below/above the table must give the first/last entry', 'got': got[1].tolist(),
                              'want': want.tolist()}, site='LUT.apply')
            if n <= 700 and adt == 'int32':
                reqs.append(('applyLut', {'table': [int(x) for x in arr], 'first': first, 'clip': True, 'xs': xs}))
                pending.append((dict(case, what='apply_lut', xs=xs),
                                [{'ok': int(v)} for v in got[1]] if got[0] == 'ok' else 'err'))
        # ---- scaled / inverted tables
        if n <= 700 and arr.min() != arr.max():
            lo, hi = Fraction(r.randint(-8, 8), 2), None
            hi = lo + Fraction(r.choice([1, 2, 3, 5, 8]))
            for inv in (False, True):
                got = call(lut.get_scaled_lut_data, (float(lo), float(hi)), np.float64, inv)
                mn, mx = int(arr.min()), int(arr.max())
                want = [(Fraction(int(v)) - mn) / (mx - mn) * (hi - lo) + lo for v in arr]
                if inv:
                    want = [hi + lo - y for y in want]
                ctx.case(lut_scaled=inv)
                if got[0] != 'ok' or any(abs(float(g) - float(w)) > 2.0 ** -40 * (1 + abs(float(w))) for g, w in zip(got[1].tolist(), want)):
                    ctx.fail(dict(case, invert=inv), {'why': 'get_scaled_lut_data differs from (v - min) / (max - min) * range + lo',
                                                      'got': str(got[1])[:200]}, site='LUT.get_scaled_lut_data')
            got = call(lut.get_inverted_lut_data)
            want = (int(arr.min()) + int(arr.max()) - arr.astype(np.int64))
            if got[0] != 'ok' or not np.array_equal(got[1].astype(np.int64), want) or got[1].dtype != arr.dtype:
                ctx.fail(case, {'why': 'get_inverted_lut_data differs from min + max - v', 'got': str(got[1])[:200]},
                         site='LUT.get_inverted_lut_data')


def stream_palette(ctx, reqs, pending):
    """PaletteColorLUT / PaletteColorLUTTransformation objects and pydicom's apply_color_lut as second opinion"""
    import highdicom as hd
    from pydicom.pixels.processing import apply_color_lut
    from gen.pixeltransforms import make_image
    for idx in range(ctx.n(120, 1500)):
        r = ctx.rng('pal', idx)
        nr = ctx.np_rng('pal', idx)
        bits = r.choice([8, 16])
        n = r.choice([1, 2, 3, 4, 5, 8, 9, 16, 255, 256]) if bits == 8 else r.choice([1, 2, 3, 7, 8, 256, 257, 1000])
        if idx % 50 == 7:
            bits, n = 16, 65536
        first = r.choice([0, 0, 1, 3, 17, 200])
        table = nr.integers(0, 2 ** bits, size=(n, 3), dtype=np.int64).astype(np.uint8 if bits == 8 else np.uint16)
        case = {'stream': 'palette', 'idx': idx, 'bits': bits, 'n': n, 'first': first}
        res = call(hd.PaletteColorLUTTransformation.from_combined_lut, table, first)
        valid = first < 2 ** bits
        ctx.case(nontrivial_key=('pal', bits, n, first), palette_len=('65536' if n == 65536 else 'odd' if n % 2 else 'even'), palette_bits=bits)
        if (res[0] == 'ok') != valid:
            ctx.fail(case, {'why': 'palette construction outcome', 'res': str(res[1:])[:200]}, site='PaletteColorLUTTransformation')
            continue
        if res[0] != 'ok':
            continue
        tr = res[1]
        got = call(lambda: (tr.combined_lut_data, tr.first_mapped_value, tr.number_of_entries, tr.bits_per_entry,
                            tr.red_lut.lut_data, tr.green_lut.lut_data, tr.blue_lut.lut_data))
        if got[0] != 'ok':
            ctx.fail(case, {'why': 'palette accessors raised', 'err': got[2]}, site='PaletteColorLUTTransformation/accessors')
            continue
        comb, f0, n0, b0, rr, gg, bb = got[1]
        if not (np.array_equal(comb, table) and f0 == first and n0 == n and b0 == bits and np.array_equal(rr, table[:, 0])
                and np.array_equal(gg, table[:, 1]) and np.array_equal(bb, table[:, 2])):
            ctx.fail(case, {'why': 'palette accessors do not return the tables given'}, site='PaletteColorLUTTransformation/accessors')
        xs = sorted(x for x in {max(0, first - 2), first, first + n // 2, first + n - 1, first + n, first + n + 9} if x <= 65535)
        a = np.array(xs, dtype=np.uint16).reshape(1, -1)
        got = call(tr.apply, a)
        want = table[np.clip(np.array(xs) - first, 0, n - 1)].reshape(1, -1, 3)
        if got[0] != 'ok' or not np.array_equal(got[1], want):
            ctx.fail(dict(case, xs=xs), {'why': 'palette apply: below/above -> first/last entry', 'got': str(got[1:])[:300]},
                     site='PaletteColorLUTTransformation.apply')
        # extracted from a dataset again (attributes as in an image)
        P = {'bits': 16, 'photometric': 'PALETTE COLOR', 'frames': [[xs]],
             'T': {'palette': {'first': first, 'bits': bits, 'data': table.tolist()}}}
        ds = make_image(P)
        if idx % 2:
            import pydicom
            from gen.images import to_bytes
            ds = pydicom.dcmread(io.BytesIO(to_bytes(ds)))          # after a bytes round trip (padding byte, VR OW)
        ex = call(hd.PaletteColorLUTTransformation.extract_from_dataset, ds)
        if ex[0] != 'ok':
            ctx.fail(case, {'why': 'extract_from_dataset refused image palette attributes', 'err': ex[2]},
                     site='PaletteColorLUTTransformation.extract_from_dataset')
        else:
            got = call(lambda: ex[1].combined_lut_data)
            if got[0] != 'ok' or not np.array_equal(got[1], table):
                ctx.fail(case, {'why': 'combined_lut_data of the extracted transformation does not return the table', 'res': str(got[1:])[:200]},
                         site='PaletteColorLUTTransformation.extract_from_dataset')
        # second opinion
        if n < 65536 or bits == 16:
            so = call(apply_color_lut, a.astype(np.uint16), ds)
            if so[0] == 'ok' and bits == 16 and not np.array_equal(so[1], want):
                ctx.note(f'pydicom apply_color_lut differs from the reference on palette case {idx}')


# ---------------------------------------------------------------------------- selectors
def stream_selectors(ctx, reqs, pending):
    import highdicom as hd
    from highdicom import pixels as hp
    from pydicom.dataset import Dataset
    from pydicom.sequence import Sequence
    from pydicom.sr.coding import Code
    from gen.pixeltransforms import fl, lut_item, rwvm_item
    f_win = getattr(hp, '_select_voi_window_center_width', None)
    f_lut = getattr(hp, '_select_voi_lut', None)
    f_rw = getattr(hp, '_select_real_world_value_map', None)
    if not (f_win and f_lut and f_rw):
        ctx.note('L2 selector helpers not found; skipped (selection is still covered through get_frame)')
    full = ctx.tier == 'thorough'
    # windows: all list lengths 1..4, all integer selectors -6..5, explanations present / absent / partial
    for n in range(1, 5):
        for with_expl in (None, 'all', 'dup'):
            r = ctx.rng('selwin', n)
            cs = [Fraction(r.randint(-400, 400), 4) for _ in range(n)]
            ws = [Fraction(r.randint(5, 400), 4) for _ in range(n)]
            expl = None
            if with_expl == 'all':
                expl = EXPL[:n]
            elif with_expl == 'dup':
                expl = [EXPL[0]] * n
            ds = Dataset()
            ds.WindowCenter = [fl(c) for c in cs] if n > 1 else fl(cs[0])
            ds.WindowWidth = [fl(w) for w in ws] if n > 1 else fl(ws[0])
            if expl:
                ds.WindowCenterWidthExplanation = expl if n > 1 else expl[0]
            as_list = n > 1 or with_expl == 'dup'          # a single window as scalars, or as length-1 sequences
            tr = call(hd.VOILUTTransformation, [fl(c) for c in cs] if as_list else fl(cs[0]), [fl(w) for w in ws] if as_list else fl(ws[0]),
                      (expl if as_list else expl[0]) if expl else None, 'LINEAR_EXACT')
            sels = list(range(-n - 2, n + 2)) + EXPL[:n + 1] + ['NOPE']
            for sel in sels:
                want = select_window({'c': cs, 'w': ws, 'expl': expl}, sel)
                case = {'stream': 'selwin', 'n': n, 'expl': expl, 'sel': sel}
                ctx.case(nontrivial_key=('selwin', n, with_expl, sel) if want else None, selector='window:' + ('str' if isinstance(sel, str) else 'int'),
                         selected=want is not None)
                if f_win:
                    got = call(f_win, ds, sel)
                    impl = 'err' if got[0] != 'ok' or got[1] is None else [fs(Fraction(got[1][0])), fs(Fraction(got[1][1]))]
                    reqs.append(('selectWindow', {'centers': [fs(c) for c in cs], 'widths': [fs(w) for w in ws], 'expl': expl, 'sel': sel}))
                    pending.append((dict(case, layer='L2', what='_select_voi_window_center_width'), impl))
                # L0: through the standalone transformation (window LINEAR_EXACT on a probe array)
                if tr[0] == 'ok':
                    probe = np.array([[-50, 0, 30, 77, 120]], dtype=np.int16)
                    got = call(tr[1].apply, probe, (0.0, 1.0), sel)
                    if want is None:
                        if got[0] == 'ok':
                            ctx.fail(case, {'why': 'selector names no alternative but a result was returned'}, site='VOILUTTransformation.apply/selector')
                    else:
                        ref = [float(window_value('LINEAR_EXACT', want[0], want[1], Fraction(int(x)), Fraction(0), Fraction(1))) for x in probe.reshape(-1)]
                        if got[0] != 'ok' or np.abs(got[1].reshape(-1) - np.array(ref)).max() > 1e-12:
                            ctx.fail(case, {'why': 'selected window is not the stated alternative', 'got': str(got[1:])[:200], 'want': ref},
                                     site='VOILUTTransformation.apply/selector')
                    reqs.append(('selectWindow', {'centers': [fs(c) for c in cs], 'widths': [fs(w) for w in ws], 'expl': expl, 'sel': sel}))
                    pending.append((dict(case, what='window selection through VOILUTTransformation.apply (ok-vs-refused)'),
                                    'err' if got[0] != 'ok' else [fs(want[0]), fs(want[1])] if want else 'ok?'))
    ctx.exhaustive.append('window selectors: 1..4 alternatives x explanations (none / distinct / duplicated) x int selectors -n-2..n+1 and names')
    # VOI LUT sequences and real-world value maps
    for n in range(1, 4):
        for variant in range(3):
            r = ctx.rng('sellut', n * 10 + variant)
            expl = [r.choice(EXPL + [None]) for _ in range(n)]
            ds = Dataset()
            ds.VOILUTSequence = Sequence([lut_item(10 * k, 8, [k, k + 1, k + 2], expl=expl[k]) for k in range(n)])
            labels = r.sample(['A', 'B', 'C', 'D'], n) if variant < 2 else ['A'] * n
            units = [r.choice(UNITS) for _ in range(n)]
            seq = Sequence([rwvm_item({'label': labels[k], 'unit': units[k], 'first': 0, 'last': 9, 'slope': str(k + 1), 'intercept': '0'})
                            for k in range(n)])
            for sel in list(range(-n - 2, n + 2)) + EXPL + ['NOPE']:
                want = select_lut([{'expl': e} for e in expl], sel)
                wi = None if want is None else ([{'expl': e} for e in expl].index(want) if isinstance(sel, str) else sel % n)
                ctx.case(nontrivial_key=('sellut', n, variant, sel) if want else None, selector='lut:' + ('str' if isinstance(sel, str) else 'int'),
                         selected=want is not None)
                if f_lut:
                    got = call(f_lut, ds, sel)
                    impl = 'err' if got[0] != 'ok' or got[1] is None else int(got[1].LUTDescriptor[1]) // 10
                    reqs.append(('selectLut', {'expl': expl, 'n': n, 'sel': sel}))
                    pending.append(({'stream': 'sellut', 'n': n, 'expl': expl, 'sel': sel, 'layer': 'L2', 'what': '_select_voi_lut'}, impl))
                    if (wi is None) != (impl == 'err') or (wi is not None and wi != impl):
                        ctx.fail({'stream': 'sellut', 'n': n, 'expl': expl, 'sel': sel}, {'why': 'VOI LUT selection', 'got': impl, 'want': wi},
                                 site='_select_voi_lut')
            for sel in list(range(-n - 2, n + 2)) + ['A', 'B', 'C', 'D', 'Z'] + [u for u in UNITS] + [['kg', 'UCUM', 'kg']]:
                maps = [{'label': labels[k], 'unit': units[k], 'k': k} for k in range(n)]
                want = select_rwvm(maps, sel if not isinstance(sel, list) else sel)
                ctx.case(nontrivial_key=('selrw', n, variant, str(sel)) if want else None,
                         selector='rwvm:' + ('unit' if isinstance(sel, list) else 'str' if isinstance(sel, str) else 'int'), selected=want is not None)
                if f_rw:
                    s2 = Code(sel[0], sel[1], sel[2]) if isinstance(sel, list) else sel
                    got = call(f_rw, seq, s2)
                    impl = 'err' if got[0] != 'ok' or got[1] is None else int(got[1].RealWorldValueSlope) - 1
                    reqs.append(('selectRwvm', {'labels': labels, 'units': [u[:2] for u in units], 'sel': sel[:2] if isinstance(sel, list) else sel}))
                    pending.append(({'stream': 'selrw', 'n': n, 'labels': labels, 'units': units, 'sel': sel, 'layer': 'L2',
                                     'what': '_select_real_world_value_map'}, impl))
                    wk = None if want is None else want['k']
                    if (wk is None) != (impl == 'err') or (wk is not None and wk != impl):
                        ctx.fail({'stream': 'selrw', 'n': n, 'labels': labels, 'units': units, 'sel': sel},
                                 {'why': 'real-world value map selection', 'got': impl, 'want': wk}, site='_select_real_world_value_map')


# ---------------------------------------------------------------------------- placement
def stream_placement(ctx, reqs, pending):
    """every subset of {image, shared, per-frame} x {rescale, window, rwvm}: which parameters a frame gets;
    get_frames (transform reuse via applies_to_all_frames) against get_frame"""
    vals = {'image': 1, 'shared': 2, 'perframe': None}
    n = 3
    frames = [[[10 * f + k for k in range(3)]] for f in range(n)]
    for kind in ('rescale', 'window', 'rwvm', 'rwvmlut', 'voilut'):
        for subset in itertools.product((False, True), repeat=3):
            places = [p for p, on in zip(('image', 'shared', 'perframe'), subset) if on]
            T = {}
            ent = []
            for p_ in places:
                ids = [vals[p_]] if p_ != 'perframe' else [3 + f for f in range(n)]
                if kind == 'rescale':
                    ent.append({'place': p_, 'vals': [[str(i), str(100 * i)] for i in ids]})
                elif kind == 'window':
                    ent.append({'place': p_, 'vals': [{'c': [str(20 * i)], 'w': [str(64 * i)], 'fn': 'LINEAR_EXACT'} for i in ids]})
                elif kind == 'rwvm':
                    ent.append({'place': p_, 'vals': [[{'label': 'A', 'unit': UNITS[0], 'first': 0, 'last': 255, 'slope': str(i), 'intercept': str(100 * i)}]
                                                      for i in ids]})
                elif kind == 'voilut':     # a VOI LUT per placement / frame (Frame VOI LUT functional group), all different
                    ent.append({'place': p_, 'vals': [[{'first': 0, 'bits': 8, 'data': [(37 * (k + i) ** 2 + 11 * i * k) % 251 for k in range(32)]}] for i in ids]})
                else:       # a table per placement / frame, all different
                    ent.append({'place': p_, 'vals': [[{'label': 'A', 'unit': UNITS[0], 'first': 0, 'last': 31,
                                                        'lut': [fs(Fraction(1000 * i + k, 4)) for k in range(32)]}] for i in ids]})
            tkey = 'rwvm' if kind == 'rwvmlut' else 'voi_luts' if kind == 'voilut' else kind
            if ent and kind == 'voilut':
                for e in ent:
                    if e['place'] == 'image':
                        T['voi_luts'] = e['vals'][0]
                    else:
                        T.setdefault('voi_luts_placed', []).append(e)
            elif ent:
                T[tkey] = ent
            P = {'bits': 8, 'photometric': 'MONOCHROME2', 'frames': frames, 'T': T}
            st = call(build, P)
            if st[0] != 'ok':
                ctx.note('placement image could not be built: ' + st[2])
                continue
            im = st[1][0]
            flags = {'rw': None, 'mod': None, 'voi': None if kind in ('window', 'voilut') else False, 'pal': None, 'icc': None, 'pres': True}
            kw = flag_kwargs(flags)
            singles = []
            for f in range(n):
                res = call(im.get_frame, f + 1, **kw)
                singles.append(res)
                case = {'stream': 'place', 'kind': kind, 'places': places, 'frame': f}
                check_call(ctx, case, P, f, flags, {}, res, 'placement/' + kind, hist=False)
                want_id = (3 + f) if subset[2] else 2 if subset[1] else 1 if subset[0] else None
                ctx.case(nontrivial_key=('place', kind, subset, f), placement_kind=kind, placement_set='+'.join(places) or 'none')
                reqs.append(('findPlaced', {'image': 1 if subset[0] else None, 'shared': 2 if subset[1] else None,
                                            'perFrame': [3 + g for g in range(n)] if subset[2] else [None] * n, 'f': f}))
                # which parameter set reproduces the implementation's frame (L0 observation)
                obs = 'err'
                if res[0] == 'ok':
                    for cand in [None, 1, 2] + [3 + g for g in range(n)]:
                        Tc = {}
                        if cand is not None:
                            Tc[tkey] = [{'place': 'image', 'vals': [next(v for e in ent for i, v in zip(([vals[e['place']]] if e['place'] != 'perframe'
                                                                                                else [3 + g for g in range(n)]), e['vals']) if i == cand)]}] \
                                if any(cand in ([vals[e['place']]] if e['place'] != 'perframe' else [3 + g for g in range(n)]) for e in ent) else None
                            if Tc[tkey] is None:
                                continue
                            if kind == 'voilut':
                                Tc = {'voi_luts': Tc[tkey][0]['vals'][0]}
                        rf = ref_frame(dict(P, T=Tc), f, flags, {})
                        if rf[0] == 'ok' and compare_values(res[1], rf[1], rf[2], 'float64') is None:
                            obs = 'none' if cand is None else [cand, cand in (1, 2)]
                            break
                pending.append((dict(case, what='which placement is in force'), 'err' if obs == 'none' else obs))
            batch = call(im.get_frames, **kw)
            if all(s[0] == 'ok' for s in singles):
                if batch[0] != 'ok' or not np.array_equal(batch[1], np.stack([s[1] for s in singles])):
                    ctx.fail({'stream': 'place', 'kind': kind, 'places': places, 'frame': 'all'},
                             {'why': 'get_frames differs from per-frame get_frame', 'got': str(batch[1:])[:300]}, site='placement/get_frames')
    ctx.exhaustive.append('placement: 5 kinds (rescale, window, linear / LUT real-world maps, VOI LUTs) x 8 subsets of {image, shared, per-frame} x 3 frames')


# ---------------------------------------------------------------------------- standalone transformation objects
def stream_objects(ctx, reqs, pending):
    import highdicom as hd
    from pydicom.dataset import Dataset
    from pydicom.pixels.processing import apply_modality_lut, apply_windowing
    from pydicom.sr.coding import Code
    from gen.pixeltransforms import fl, lut_item
    for idx in range(ctx.n(600, 8000)):
        r = ctx.rng('obj', idx)
        kind = r.choice(['voi-window', 'voi-window', 'voi-lut', 'voi-both', 'mod-rescale', 'mod-lut', 'rwvm-linear', 'rwvm-lut'])
        signed = r.random() < 0.3
        adt = r.choice(['int16', 'int32', 'int8']) if signed else r.choice(['uint16', 'uint8', 'uint16'])
        ii = np.iinfo(adt)
        xs = [max(ii.min, min(ii.max, r.randint(-40, 340))) for _ in range(6)] + [ii.min, ii.max]
        lay = r.choice(LAYOUTS)
        arr = with_layout(np.array(xs, dtype=adt).reshape(2, 4), lay)
        arr_before = arr.tobytes()
        P = {'bits': ii.bits, 'signed': signed, 'bits_stored': ii.bits, 'photometric': 'MONOCHROME2', 'frames': [arr.tolist()], 'T': {}}
        case = {'stream': 'obj', 'idx': idx, 'kind': kind, 'array_dtype': adt, 'xs': arr.tolist()}
        opts = {}
        flags = {'rw': False, 'mod': None, 'voi': None, 'pal': None, 'icc': None, 'pres': True}
        st_model = None
        if kind.startswith('voi'):
            odd = r.choice([1, 1, 3, 5])
            lo = dyadic(r, -16, 16, 4)
            hi = lo + Fraction(odd * r.randint(1, 8)) / 2 ** r.randint(0, 2)
            opts['voi_output_range'] = [fs(lo), fs(hi)]
            inv = r.random() < 0.4
            if inv:
                P['T']['pres_shape'] = 'INVERSE'
            if kind == 'voi-window':
                fn = r.choice([None, 'LINEAR', 'LINEAR_EXACT', 'SIGMOID'])
                nwin = r.choice([1, 1, 2, 3])
                cs, ws, _ = gen_window(r, Fraction(1), Fraction(0), nwin, fn)
                sel = r.randint(-nwin, nwin - 1)
                opts['voi_selector'] = sel
                P['T']['window'] = [{'place': 'image', 'vals': [{'c': cs, 'w': ws, 'fn': fn}]}]
                fn_spelled = fn if (fn is None or r.random() < 0.5) else hd.VOILUTFunctionValues(fn)      # str or enum member
                tr = call(hd.VOILUTTransformation, [fl(c) for c in cs] if nwin > 1 else fl(cs[0]),
                          [fl(w) for w in ws] if nwin > 1 else fl(ws[0]), None, fn_spelled)
            else:
                lut = gen_lut(r, r.choice([8, 16]), (0, 200), pow2_range=r.random() < 0.7)
                sel = 0
                P['T']['voi_luts'] = [lut]
                tr = call(lambda: hd.VOILUTTransformation(voi_luts=[hd.VOILUT(lut['first'], np.asarray(lut['data'], dtype=np.uint8 if lut['bits'] == 8 else np.uint16))]))
            prefer = None
            if kind == 'voi-both' and tr[0] == 'ok':
                # a transformation holding a window AND a table: prefer_lut decides (default: the window)
                fn = r.choice([None, 'LINEAR', 'LINEAR_EXACT'])
                cs, ws, _ = gen_window(r, Fraction(1), Fraction(0), 1, fn)
                prefer = r.choice([None, False, True])
                tr = call(lambda: hd.VOILUTTransformation(window_center=fl(cs[0]), window_width=fl(ws[0]), voi_lut_function=fn,
                                                          voi_luts=[hd.VOILUT(lut['first'], np.asarray(lut['data'], dtype=np.uint8 if lut['bits'] == 8 else np.uint16))]))
                if prefer is not True:
                    P['T'] = {k: v for k, v in P['T'].items() if k != 'voi_luts'}
                    P['T']['window'] = [{'place': 'image', 'vals': [{'c': cs, 'w': ws, 'fn': fn}]}]
            if tr[0] != 'ok':
                ctx.note(f'object case {idx}: construction failed: {tr[2]}')
                continue
            dtype = r.choice(['float64', 'float64', 'float32'])
            opts['dtype'] = dtype
            if prefer is None:
                res = call(tr[1].apply, arr, (fl(lo), fl(hi)), sel, np.dtype(dtype), inv)
            else:
                res = call(tr[1].apply, arr, output_range=(fl(lo), fl(hi)), voi_transform_selector=sel, dtype=np.dtype(dtype), invert=inv,
                           prefer_lut=prefer)
            ref = check_call(ctx, case, P, 0, flags, opts, res, 'VOILUTTransformation.apply')
            # pydicom second opinion (windows, unsigned 16 bit, no inversion): same shape after normalising its output range
            if kind == 'voi-window' and res[0] == 'ok' and ref[0] == 'ok' and not inv and not signed and dtype == 'float64':
                ds = Dataset()
                ds.BitsStored, ds.PixelRepresentation, ds.PhotometricInterpretation = ii.bits, 0, 'MONOCHROME2'
                c, w = select_window({'c': cs, 'w': ws}, sel)
                ds.WindowCenter, ds.WindowWidth = fl(c), fl(w)
                if fn:
                    ds.VOILUTFunction = fn
                so = call(apply_windowing, arr, ds)
                if so[0] == 'ok':
                    ymax = 2 ** ii.bits - 1
                    norm = np.asarray(so[1], dtype=float) / ymax * float(hi - lo) + float(lo)
                    ctx.case(second_opinion='apply_windowing')
                    if np.abs(norm - res[1]).max() > 1e-9 * (1 + abs(float(hi)) + abs(float(lo))):
                        ctx.fail(case, {'why': "differs from pydicom's apply_windowing (rescaled to the output range)",
                                        'got': res[1].tolist(), 'pydicom': norm.tolist()}, site='second-opinion/apply_windowing')
        elif kind.startswith('mod'):
            flags['voi'] = False
            dtype = r.choice(['float64', 'float64', 'float32', 'int32', 'int16'])
            if kind == 'mod-rescale':
                m = r.choice(SLOPES)
                b = Fraction(r.randint(-50, 50)) if r.random() < 0.7 else dyadic(r, -50, 50, 8)
                P['T']['rescale'] = [{'place': 'image', 'vals': [[fs(m), fs(b)]]}]
                tr = call(hd.ModalityLUTTransformation, fl(b), fl(m), 'US')
                ds = Dataset()
                ds.RescaleSlope, ds.RescaleIntercept = fl(m), fl(b)
            else:
                lut = gen_lut(r, r.choice([8, 16]), (ii.min if signed else 0, 200) if False else (0, 200))
                P['T']['mod_lut'] = lut
                dtype = r.choice([None, None, 'float64', 'int32', 'uint16'])
                tr = call(lambda: hd.ModalityLUTTransformation(modality_lut=hd.ModalityLUT('US', lut['first'], np.asarray(
                    lut['data'], dtype=np.uint8 if lut['bits'] == 8 else np.uint16))))
                ds = Dataset()
                ds.ModalityLUTSequence = [lut_item(lut['first'], lut['bits'], lut['data'], lut_type='US')]
                ds.PixelRepresentation = 0
            if tr[0] != 'ok':
                ctx.note(f'object case {idx}: construction failed: {tr[2]}')
                continue
            if dtype is None:
                opts['dtype'] = 'uint8' if lut['bits'] == 8 else 'uint16'
                res = call(tr[1].apply, arr)
            else:
                opts['dtype'] = dtype
                res = call(tr[1].apply, arr, np.dtype(dtype))
            ref = check_call(ctx, case, P, 0, flags, opts, res, 'ModalityLUTTransformation.apply')
            if res[0] == 'ok' and ref[0] == 'ok' and (kind == 'mod-rescale' or not signed):
                so = call(apply_modality_lut, arr, ds)
                if so[0] == 'ok':
                    ctx.case(second_opinion='apply_modality_lut')
                    rtol = 2.0 ** -18 if np.asarray(res[1]).dtype == np.float32 else 1e-12
                    a1, a2 = np.asarray(so[1], dtype=float), np.asarray(res[1], dtype=float)
                    if (np.abs(a1 - a2) > rtol * (1 + np.abs(a1))).any():
                        ctx.fail(case, {'why': "differs from pydicom's apply_modality_lut", 'got': np.asarray(res[1]).tolist(),
                                        'pydicom': np.asarray(so[1]).tolist()}, site='second-opinion/apply_modality_lut')
        else:
            flags.update(rw=True, voi=False)
            a = r.randint(int(ii.min), int(ii.max) - 1)
            if kind == 'rwvm-linear':
                first, last = (int(ii.min), int(ii.max)) if r.random() < 0.6 else (a, min(int(ii.max), a + r.choice([3, 50, 400])))
                m = {'label': 'A', 'unit': UNITS[0], 'first': first, 'last': last, 'slope': fs(r.choice(SLOPES)), 'intercept': fs(dyadic(r, -100, 100, 8))}
                tr = call(hd.pm.RealWorldValueMapping, 'A', 'expl', Code(*UNITS[0]), (first, last), fl(m['slope']), fl(m['intercept']))
            else:
                first = a if r.random() < 0.5 else max(int(ii.min), min(xs) - 1)
                last = min(int(ii.max), first + r.choice([1, 2, 7, 400]))
                m = {'label': 'A', 'unit': UNITS[0], 'first': first, 'last': last,
                     'lut': [fs(dyadic(r, -1000, 1000, 16)) for _ in range(last - first + 1)]}
                tr = call(hd.pm.RealWorldValueMapping, 'A', 'expl', Code(*UNITS[0]), (first, last), None, None, [fl(v) for v in m['lut']])
            P['T']['rwvm'] = [{'place': 'image', 'vals': [[m]]}]
            if r.random() < 0.75:       # mostly inside the mapped range
                arr = with_layout(np.clip(arr.astype(np.int64), m['first'], m['last']).astype(adt), lay)
                arr_before = arr.tobytes()
                P['frames'] = [arr.tolist()]
                case['xs'] = arr.tolist()
            if tr[0] != 'ok':
                ctx.note(f'object case {idx}: construction failed: {tr[2]}')
                continue
            res = call(tr[1].apply, arr)
            ref = check_call(ctx, case, P, 0, flags, opts, res, 'RealWorldValueMapping.apply')
        kinds = '+'.join(ref[2]['kind']) if ref[0] == 'ok' else ref[0] + ':' + str(ref[1])[:20]
        ctx.case(nontrivial_key=('obj', kind, kinds, adt, idx) if ref[0] == 'ok' else None, object_kind=kind, object_pipeline=kinds,
                 object_outcome=res[0] if res[0] == 'ok' else res[1], array_layout=lay)
        if arr.tobytes() != arr_before:
            ctx.fail(case, {'why': 'apply() modified its input array', 'layout': lay}, site='apply/mutates-input')
        mp = model_params(P, 0, opts) if ref[0] in ('ok', 'err') else None
        if mp is not None and 'constant' not in str(ref[1]):
            reqs.append(('pipeline', {'flags': [flags[k] for k in ('rw', 'mod', 'voi', 'pal', 'icc')], 'pres': True, 'ctype': MONO,
                                      'present': [mp[1][k] for k in PRES_KEYS], 'params': mp[0], 'xs': [int(x) for x in arr.reshape(-1)]}))
            pending.append(('pipeline', case, res, ref, opts.get('dtype', 'float64')))


# ---------------------------------------------------------------------------- other access paths
def _stored_P(ds, frames, T):
    return {'bits': int(ds.BitsAllocated), 'signed': bool(ds.PixelRepresentation), 'bits_stored': int(ds.BitsStored),
            'photometric': str(ds.PhotometricInterpretation), 'frames': np.asarray(frames).tolist(), 'T': T}


def stream_paths(ctx, reqs, pending):
    """get_volume, get_total_pixel_matrix, get_volume_from_series apply the same per-frame pipeline as get_frame"""
    import highdicom as hd
    from gen.pixeltransforms import add_transforms
    from gen.sources import ct_series, enhanced_multiframe, slide_image
    for idx in range(ctx.n(60, 900)):
        r = ctx.rng('paths', idx)
        nr = ctx.np_rng('paths', idx)
        path = ['volume', 'tpm', 'series'][idx % 3]
        m = r.choice(SLOPES)
        b = Fraction(r.randint(-50, 50))
        fn = r.choice([None, 'LINEAR', 'LINEAR_EXACT', 'SIGMOID'])
        flags = {'rw': None, 'mod': r.choice([None, None, True, False]), 'voi': r.choice([None, True, False]), 'pal': None, 'icc': None,
                 'pres': r.random() < 0.8}
        if flags['mod'] is False:
            flags['voi'] = False
        opts = {}
        if r.random() < 0.5:
            lo = dyadic(r, -8, 8, 4)
            opts['voi_output_range'] = [fs(lo), fs(lo + r.choice([1, 2, 4]))]
        kw = dict(flag_kwargs(flags), **opt_kwargs(opts))
        case = {'stream': 'paths', 'idx': idx, 'path': path, 'flags': flags, 'opts': opts}
        if path == 'series':
            n = r.choice([2, 3, 4])
            series = ct_series(n, r.randint(1, 3), r.randint(2, 4), rng=nr)
            Ps = []
            for d in series:
                mm = r.choice(SLOPES)
                bb = Fraction(r.randint(-50, 50))
                cs, ws, _ = gen_window(r, mm, bb, 1, fn)
                T = {'rescale': [{'place': 'image', 'vals': [[fs(mm), fs(bb)]]}],
                     'window': [{'place': 'image', 'vals': [{'c': cs, 'w': ws, 'fn': fn}]}]}
                if r.random() < 0.3:
                    T['pres_shape'] = 'INVERSE'
                stored = np.frombuffer(d.PixelData, dtype=np.uint16)[:d.Rows * d.Columns].reshape(d.Rows, d.Columns)
                add_transforms(d, T, 1)
                Ps.append(_stored_P(d, [stored], T))
            res = call(hd.image.get_volume_from_series, series, **kw)
            raw = call(hd.image.get_volume_from_series, series, apply_modality_transform=False, apply_presentation_lut=False)
            if raw[0] != 'ok':
                ctx.note(f'paths case {idx}: stored-value volume not available: {raw[2]}')
                continue
            refs = [ref_frame(P, 0, flags, opts) for P in Ps]
            order = []
            for k in range(n):
                hit = [j for j, P in enumerate(Ps) if np.array_equal(raw[1].array[k], np.asarray(P['frames'][0]))]
                order.append(hit[0] if len(hit) == 1 else None)
            got_slices = (lambda k: res[1].array[k]) if res[0] == 'ok' else None
            items = [(k, order[k], Ps[order[k]], 0) for k in range(n) if order[k] is not None]
        else:
            if path == 'volume':
                n = r.choice([2, 3, 4])
                ds = enhanced_multiframe(n, r.randint(1, 3), r.randint(2, 4), rng=nr)
                stored = np.frombuffer(ds.PixelData, dtype=np.uint16)[:n * ds.Rows * ds.Columns].reshape(n, ds.Rows, ds.Columns)
                places = ['shared', 'perframe']
            else:
                ds, tpm = slide_image(r.randint(3, 7), r.randint(3, 8), r.randint(1, 3), r.randint(2, 4), bits=r.choice([8, 16]), rng=nr)
                n = int(ds.NumberOfFrames)
                places = ['shared', 'image']
            T = {}
            pr = r.choice(places)
            pw = r.choice(places)
            cs0, ws0, _ = gen_window(r, m, b, 1, fn)
            T['rescale'] = [{'place': pr, 'vals': [[fs(m), fs(b)] for _ in range(n if pr == 'perframe' else 1)]}]
            if pr == 'perframe':
                for v in T['rescale'][0]['vals'][1:]:
                    if r.random() < 0.6:
                        v[0], v[1] = fs(r.choice(SLOPES)), fs(Fraction(r.randint(-50, 50)))
            T['window'] = [{'place': pw, 'vals': [{'c': cs0, 'w': ws0, 'fn': fn} for _ in range(n if pw == 'perframe' else 1)]}]
            if pw == 'perframe':
                for i, v in enumerate(T['window'][0]['vals'][1:]):
                    mi = F(T['rescale'][0]['vals'][i + 1][0]) if pr == 'perframe' else m
                    bi = F(T['rescale'][0]['vals'][i + 1][1]) if pr == 'perframe' else b
                    v['c'], v['w'], _ = gen_window(r, mi, bi, 1, fn)
            if r.random() < 0.3:
                T['pres_shape'] = 'INVERSE'
            add_transforms(ds, T, n)
            st = call(hd.Image.from_dataset, ds)
            if st[0] != 'ok':
                ctx.note(f'paths case {idx}: image not built: {st[2]}')
                continue
            im = st[1]
            if path == 'volume':
                res = call(im.get_volume, **kw)
                raw = call(im.get_volume, apply_modality_transform=False, apply_presentation_lut=False)
                if raw[0] != 'ok':
                    ctx.note(f'paths case {idx}: stored-value volume not available: {raw[2]}')
                    continue
                P = _stored_P(ds, stored, T)
                order = []
                for k in range(n):
                    hit = [j for j in range(n) if np.array_equal(raw[1].array[k], stored[j])]
                    order.append(hit[0] if len(hit) == 1 else None)
                got_slices = (lambda k: res[1].array[k]) if res[0] == 'ok' else None
                items = [(k, order[k], P, order[k]) for k in range(n) if order[k] is not None]
            else:
                res = call(im.get_total_pixel_matrix, **kw)
                # one "frame" = the whole matrix (placements are shared / image level: every tile has the same parameters)
                P = _stored_P(ds, [tpm], {k: ([dict(e, place='image') for e in v] if isinstance(v, list) else v) for k, v in T.items()})
                got_slices = (lambda k: res[1]) if res[0] == 'ok' else None
                items = [(0, 0, P, 0)]
        ctx.case(nontrivial_key=('paths', path, idx), access_path=path, path_outcome=res[0] if res[0] == 'ok' else res[1])
        for k, j, P, f in items:
            one = ('ok', got_slices(k)) if res[0] == 'ok' else res
            check_call(ctx, dict(case, slice=k, source=j), P, f, flags, opts, one, 'paths/' + path, hist=False)


# ---------------------------------------------------------------------------- output dtype check (L2)
def stream_dtype(ctx, reqs, pending):
    """the translated `_check_rescale_dtype` against the real helper on a grid (slopes of both signs)"""
    from highdicom import pixels as hp
    f = getattr(hp, '_check_rescale_dtype', None)
    if f is None:
        ctx.note('L2 helper _check_rescale_dtype not found; skipped')
        return
    slopes = [Fraction(x) for x in (1, -1, 2, -2, 3, -3, 256, -256)] + [Fraction(1, 2), Fraction(-3, 2)]
    icpts = [Fraction(x) for x in (0, 1, -1, 100, -100, 255, 65535, -32768)] + [Fraction(1, 4)]
    outs = ['uint8', 'int8', 'uint16', 'int16', 'int32', 'float32', 'float64']
    ins = [('uint8', None), ('uint8', (0, 15)), ('int8', None), ('uint16', None), ('uint16', (0, 4095)), ('int16', None),
           ('int16', (-2048, 2047)), ('float32', None)]
    r = ctx.rng('dtype', 0)
    grid = list(itertools.product(slopes, icpts, outs, ins))
    if ctx.tier == 'quick':
        grid = r.sample(grid, 600)
    else:
        ctx.exhaustive.append(f'_check_rescale_dtype: {len(grid)} cells (10 slopes x 9 intercepts x 7 output x 8 input types/ranges)')
    for m, b, out, (inn, rng_) in grid:
        od, idt = np.dtype(out), np.dtype(inn)
        res = call(f, input_dtype=idt, output_dtype=od, intercept=float(b), slope=float(m), input_range=rng_)
        oi = np.iinfo(od) if od.kind in 'iu' else None
        ii = np.iinfo(idt) if idt.kind in 'iu' else None
        reqs.append(('checkRescaleDtype', {'slope': fs(m), 'intercept': fs(b), 'has_range': rng_ is not None,
                                           'rmin': rng_[0] if rng_ else 0, 'rmax': rng_[1] if rng_ else 0, 'out_kind': od.kind, 'in_kind': idt.kind,
                                           'out_max': int(oi.max) if oi else 0, 'out_min': int(oi.min) if oi else 0,
                                           'in_max': int(ii.max) if ii else 0, 'in_min': int(ii.min) if ii else 0}))
        pending.append(({'stream': 'dtype', 'slope': fs(m), 'intercept': fs(b), 'out': out, 'in': inn, 'range': rng_, 'layer': 'L2',
                         'what': '_check_rescale_dtype'}, True if res[0] == 'ok' else 'err'))
        ctx.case(dtype_check=out, dtype_outcome=res[0])
        # oracle: an accepted integer type must hold both ends of the range (and every value in between)
        if res[0] == 'ok' and od.kind in 'iu' and idt.kind in 'iu':
            lo, hi = rng_ if rng_ else (int(ii.min), int(ii.max))
            ends = [m * lo + b, m * hi + b]
            if min(ends) < oi.min or max(ends) > oi.max or m.denominator != 1 or b.denominator != 1:
                ctx.fail({'stream': 'dtype', 'slope': fs(m), 'intercept': fs(b), 'out': out, 'in': inn, 'range': rng_},
                         {'why': 'integer output type accepted although it cannot hold the rescaled range', 'ends': [str(e) for e in ends]},
                         site='_check_rescale_dtype')


def shrink(ctx, failure):
    """pipeline failures: keep only the failing frame (per-frame parameters cut accordingly), then a single pixel"""
    case = failure['case']
    if case.get('stream') != 'pipe' or case.get('frame') == 'all':
        return None
    import copy
    P, f = copy.deepcopy(case['P']), case['frame']
    P['frames'] = [P['frames'][f]]
    for key in ('rescale', 'window', 'rwvm', 'voi_luts_placed'):
        for e in P['T'].get(key) or []:
            if e['place'] == 'perframe':
                e['vals'] = [e['vals'][f]]
    best = None

    def fails(Q):
        sub = type(ctx)(ctx.prop, ctx.tier, ctx.seed, 1, ctx.driver)
        c = dict(case, P=Q, frame=0, shrunk=True)
        try:
            im, _ = build(Q)
            kw = dict(flag_kwargs(case['flags']), **opt_kwargs(case['opts']))
            check_call(sub, c, Q, 0, case['flags'], case['opts'], call(im.get_frame, 1, **kw), 'get_frame', hist=False)
        except Exception:  # noqa: BLE001
            return None
        return sub.failures[0] if sub.failures else None
    got = fails(P)
    if got is None:
        return None
    best = got
    flat = np.asarray(P['frames'][0])
    if flat.ndim == 2:
        for v in flat.reshape(-1).tolist():
            Q = dict(P, frames=[[[v]]])
            g = fails(Q)
            if g is not None:
                best = g
                break
    return best


def _own_open_findings():
    import json
    import os
    path = os.path.join(os.path.dirname(os.path.dirname(os.path.dirname(os.path.abspath(__file__)))), 'findings', 'C06.json')
    try:
        return [f for f in json.load(open(path)) if f.get('status') == 'open']
    except Exception:  # noqa: BLE001
        return []


def attribute(failure, open_findings):
    """C06-linear-width-one-negative-slope: a failure of a pipeline case whose window in force is LINEAR with width exactly
    1 AND sits behind a rescale with a negative slope (width 1 alone is repaired: dde009a)"""
    ids = {f['id'] for f in list(open_findings) + _own_open_findings()}
    if 'C06-linear-width-one-negative-slope' not in ids:
        return None
    case = failure.get('case') or {}
    if case.get('stream') != 'pipe' or 'P' not in case or not str(failure.get('site', '')).startswith('get_frame/'):
        return None
    P, flags, opts = case['P'], case['flags'], case['opts']
    frames = range(len(P['frames'])) if case.get('frame') == 'all' else [case['frame']]
    for f in frames:
        ref = ref_frame(P, f, flags, opts)
        if ref[0] == 'ok' and ref[2].get('unit_linear_window_negative_slope'):
            return 'C06-linear-width-one-negative-slope'
    return None


# ---------------------------------------------------------------------------- option spellings (deterministic grid)
def stream_spellings(ctx, reqs, pending):
    """every accepted spelling of dtype / voi_output_range / frame number on every kind of pipeline"""
    base = {'bits': 8, 'signed': False, 'bits_stored': 8, 'photometric': 'MONOCHROME2', 'frames': [[[0, 19, 20, 40]], [[5, 6, 7, 8]]]}
    win = [{'place': 'image', 'vals': [{'c': ['45'], 'w': ['64'], 'fn': 'LINEAR_EXACT'}]}]
    lut = [{'first': 3, 'bits': 8, 'data': [0, 16, 32, 64, 96, 128]}]
    kinds = {
        'rescale+window': {'rescale': [{'place': 'image', 'vals': [['2', '-4']]}], 'window': win},
        'modlut+window': {'mod_lut': {'first': 19, 'bits': 8, 'data': [63, 27, 90]}, 'window': win},
        'modlut+voilut': {'mod_lut': {'first': 19, 'bits': 8, 'data': [3, 5, 8]}, 'voi_luts': lut},
        'rescale+voilut': {'rescale': [{'place': 'image', 'vals': [['2', '1']]}], 'voi_luts': lut},
        'window+inverse': {'pres_shape': 'INVERSE', 'window': win},
        'rwvm': {'rwvm': [{'place': 'image', 'vals': [[{'label': 'A', 'unit': UNITS[0], 'first': 0, 'last': 255, 'slope': '3/2', 'intercept': '-1'}]]}]},
    }
    from gen.pixeltransforms import fl
    for kname, T in kinds.items():
        P = dict(base, T=T)
        st = call(build, P)
        if st[0] != 'ok':
            ctx.note('spelling image could not be built: ' + st[2])
            continue
        im = st[1][0]
        flags = {'rw': None, 'mod': None, 'voi': None, 'pal': None, 'icc': None, 'pres': True}
        for dname in ('float64', 'float32'):
            for dsp, dval in (('dtype', np.dtype(dname)), ('type', np.dtype(dname).type), ('name', dname)):
                for rsp in ('floats', 'numpy-scalars', 'list', 'ndarray', 'ints'):
                    lo, hi = (Fraction(22), Fraction(26)) if rsp != 'ints' else (Fraction(0), Fraction(4))
                    rng_ = {'floats': (fl(lo), fl(hi)), 'numpy-scalars': (np.float64(fl(lo)), np.float64(fl(hi))), 'list': [fl(lo), fl(hi)],
                            'ndarray': np.array([fl(lo), fl(hi)]), 'ints': (int(lo), int(hi))}[rsp]
                    for fnum in (1, np.int64(2)):
                        opts = {'dtype': dname, 'voi_output_range': [fs(lo), fs(hi)]}
                        kw = dict(flag_kwargs(flags), dtype=dval, voi_output_range=rng_)
                        res = call(im.get_frame, fnum, **kw)
                        case = {'stream': 'spell', 'kind': kname, 'dtype': dname, 'dtype_spelling': dsp, 'range_spelling': rsp,
                                'frame_number': type(fnum).__name__}
                        check_call(ctx, case, P, int(fnum) - 1, flags, opts, res, 'spelling/' + kname, hist=False)
                        ctx.case(nontrivial_key=('spell', kname, dname, dsp, rsp, type(fnum).__name__), spelling=f'{dsp}/{rsp}')
    ctx.exhaustive.append('option spellings: 6 pipeline kinds x 2 dtypes x 3 dtype spellings x 5 range spellings x int / numpy int frame number')


# ---------------------------------------------------------------------------- every selector through every entry point
def _frame_index_map(ds_factory, reader):
    """which frame every pixel of an assembled read (volume slice / total pixel matrix) comes from: the same image
    with frame f filled with the constant f + 1, read without any transform"""
    ds = ds_factory()
    n, rows, cols = int(ds.NumberOfFrames), int(ds.Rows), int(ds.Columns)
    dt = np.uint16 if int(ds.BitsAllocated) == 16 else np.uint8
    data = np.stack([np.full((rows, cols), f + 1, dtype=dt) for f in range(n)]).tobytes()
    ds.PixelData = data + (b'\x00' if len(data) % 2 else b'')
    return reader(ds)


def stream_entrypoints(ctx, reqs, pending):
    """(a) every selector kind x every read entry point on images whose frames carry their OWN multi-alternative
    parameters; (b) series whose instances differ in exactly one parameter family; each slice / tile / frame is
    compared with the expectation of the frame it comes from."""
    import highdicom as hd
    from gen.pixeltransforms import add_transforms
    from gen.sources import ct_series, enhanced_multiframe, slide_image
    rounds = ctx.n(6, 60)
    no_tr = dict(apply_real_world_transform=False, apply_modality_transform=False, apply_presentation_lut=False)
    for rnd in range(rounds):
        r = ctx.rng('entry', rnd)
        nr = ctx.np_rng('entry', rnd)
        # ---------------- (a) per-frame multi-alternative parameters
        for family in ('rwvm', 'window', 'voilut'):
            for source in ('enhanced', 'slide'):
                n_alt = r.choice([2, 3])
                if source == 'enhanced':
                    n = r.choice([2, 3, 4])
                    rows, cols = r.randint(1, 3), r.randint(2, 4)
                    seed = int(nr.integers(0, 2 ** 31))

                    def factory(n=n, rows=rows, cols=cols, seed=seed):
                        return enhanced_multiframe(n, rows, cols, rng=np.random.default_rng(seed))
                else:
                    tr_, tc_ = r.randint(1, 3), r.randint(2, 4)
                    R, C = tr_ * r.randint(1, 2) + r.randint(0, 1), tc_ * r.randint(1, 2) + r.randint(0, 1)
                    seed = int(nr.integers(0, 2 ** 31))

                    def factory(R=R, C=C, tr_=tr_, tc_=tc_, seed=seed):
                        return slide_image(R, C, tr_, tc_, bits=16, rng=np.random.default_rng(seed))[0]
                ds = factory()
                n = int(ds.NumberOfFrames)
                stored = np.frombuffer(ds.PixelData, dtype=np.uint16)[:n * ds.Rows * ds.Columns].reshape(n, ds.Rows, ds.Columns)
                stored = (stored % 200).astype(np.uint16)          # inside every mapped range / table
                data = stored.tobytes()
                ds.PixelData = data + (b'\x00' if len(data) % 2 else b'')
                labels = ['A', 'B', 'C'][:n_alt]
                units = r.sample(UNITS, n_alt)
                expl = r.sample(EXPL, n_alt)
                T = {}
                if family == 'rwvm':
                    T['rwvm'] = [{'place': 'perframe', 'vals': [[{'label': labels[k], 'unit': units[k], 'first': 0, 'last': 255,
                                                                 'slope': fs(r.choice(SLOPES)), 'intercept': fs(Fraction(r.randint(-90, 90)))}
                                                                for k in range(n_alt)] for _ in range(n)]}]
                    selectors = [('rwvm_selector', s_) for s_ in [1, -1, n_alt - 1, -n_alt, labels[-1], labels[1], units[-1], units[0]]]
                    flags = {'rw': None, 'mod': None, 'voi': False, 'pal': None, 'icc': None, 'pres': True}
                elif family == 'window':
                    fn = r.choice([None, 'LINEAR', 'LINEAR_EXACT'])
                    vals = []
                    for _ in range(n):
                        cs, ws, _u = gen_window(r, Fraction(1), Fraction(0), n_alt, fn)
                        vals.append({'c': cs, 'w': ws, 'fn': fn, 'expl': expl})
                    T['window'] = [{'place': 'perframe', 'vals': vals}]
                    selectors = [('voi_selector', s_) for s_ in [1, -1, n_alt - 1, -n_alt, expl[-1], expl[0]]]
                    flags = {'rw': None, 'mod': None, 'voi': True, 'pal': None, 'icc': None, 'pres': True}
                else:
                    T['voi_luts_placed'] = [{'place': 'perframe', 'vals': [[dict(gen_lut(r, 8, (0, 60), pow2_range=True), expl=expl[k])
                                                                            for k in range(n_alt)] for _ in range(n)]}]
                    T['rescale'] = [{'place': 'perframe', 'vals': [[fs(Fraction(1)), fs(Fraction(r.randint(-20, 20)))] for _ in range(n)]}]
                    selectors = [('voi_selector', s_) for s_ in [1, -1, n_alt - 1, -n_alt, expl[-1], expl[0]]]
                    flags = {'rw': None, 'mod': None, 'voi': True, 'pal': None, 'icc': None, 'pres': True}
                add_transforms(ds, T, n)
                P = _stored_P(ds, stored, T)
                st = call(hd.Image.from_dataset, ds)
                if st[0] != 'ok':
                    ctx.note(f'entry-point image not built: {st[2]}')
                    continue
                im = st[1]
                if source == 'enhanced':
                    assembled = [('get_volume', lambda **kw: im.get_volume(**kw).array)]
                    fmap = call(_frame_index_map, factory, lambda d: hd.Image.from_dataset(d).get_volume(**no_tr).array)
                else:
                    assembled = [('get_total_pixel_matrix', lambda **kw: im.get_total_pixel_matrix(**kw))]
                    fmap = call(_frame_index_map, factory, lambda d: hd.Image.from_dataset(d).get_total_pixel_matrix(**no_tr))
                raw = call(assembled[0][1], **no_tr)
                for key, sel in selectors:
                    opts = {key: sel}
                    kw = dict(flag_kwargs(flags), **opt_kwargs(opts))
                    case = {'stream': 'entry', 'round': rnd, 'family': family, 'source': source, 'selector': sel}
                    refs = [ref_frame(P, f, flags, opts) for f in range(n)]
                    # get_frame / get_frames
                    singles = [call(im.get_frame, f + 1, **kw) for f in range(n)]
                    for f in range(n):
                        check_call(ctx, dict(case, entry='get_frame', frame=f), P, f, flags, opts, singles[f], 'entry/get_frame', hist=False)
                    batch = call(im.get_frames, **kw)
                    for f in range(n):
                        one = ('ok', batch[1][f]) if batch[0] == 'ok' else batch
                        if batch[0] == 'ok' or refs[f][0] == 'ok':
                            check_call(ctx, dict(case, entry='get_frames', frame=f), P, f, flags, opts, one, 'entry/get_frames', hist=False)
                    ctx.case(nontrivial_key=('entry', family, source, str(sel), rnd), entry_point='get_frame(s)', entry_family=family,
                             entry_selector=type(sel).__name__ if not isinstance(sel, list) else 'unit')
                    # assembled reads: every pixel against the expectation of the frame it comes from
                    if fmap[0] != 'ok' or raw[0] != 'ok':
                        ctx.note(f'entry-point frame map not available: {str(fmap[1:])[:120]}')
                        continue
                    name, reader = assembled[0]
                    res = call(reader, **kw)
                    ctx.case(nontrivial_key=('entry', name, family, str(sel), rnd), entry_point=name, entry_family=family)
                    if any(rf[0] != 'ok' for rf in refs):
                        if res[0] == 'ok' and all(rf[0] != 'ok' for rf in refs):
                            ctx.fail(dict(case, entry=name), {'why': 'assembled read succeeded although every frame is refused'}, site='entry/' + name)
                        continue
                    if res[0] != 'ok':
                        ctx.fail(dict(case, entry=name), {'why': 'assembled read refused although every frame reads', 'error': res[2]}, site='entry/' + name)
                        continue
                    got = np.asarray(res[1], dtype=float)
                    fm = np.asarray(fmap[1]).astype(int)
                    rawv = np.asarray(raw[1]).astype(int)
                    bad = None
                    for pos in np.ndindex(fm.shape):
                        f = fm[pos] - 1
                        if f < 0:
                            continue            # padding outside every tile
                        # expectation of that pixel: the frame's own pipeline on the stored value at this place
                        Pf = dict(P, frames=[[[int(rawv[pos])]]], T={k: ([dict(e, place='image', vals=[e['vals'][f]]) if e['place'] == 'perframe' else e
                                                                         for e in v] if isinstance(v, list) and v and isinstance(v[0], dict) and 'place' in v[0]
                                                                     else v) for k, v in T.items()})
                        rf = ref_frame(Pf, 0, flags, opts)
                        if rf[0] != 'ok':
                            continue
                        if compare_values(np.array([[got[pos]]]), rf[1], rf[2], 'float64') is not None:
                            bad = {'position': list(pos), 'frame': int(f), 'got': float(got[pos]), 'want': str(rf[1][0])}
                            break
                    if bad:
                        ctx.fail(dict(case, entry=name), dict(bad, why='a pixel of the assembled read does not follow the pipeline of its own frame'),
                                 site='entry/' + name)
        # ---------------- a selection that leaves out a frame whose own parameters cannot be used
        Pq = {'bits': 8, 'signed': False, 'bits_stored': 8, 'photometric': 'MONOCHROME2',
              'frames': [[[r.randint(0, 9) for _ in range(3)]] for _ in range(3)],
              'T': {'rescale': [{'place': 'perframe', 'vals': [['3/2', '0'], ['1', '0'], [str(r.choice([1, 2, 3])), '0']]}],
                    'voi_luts': [dict(gen_lut(r, 8, (0, 0), pow2_range=True))]}}
        st = call(build, Pq)
        if st[0] == 'ok':
            imq = st[1][0]
            fl_ = {'rw': None, 'mod': None, 'voi': True, 'pal': None, 'icc': None, 'pres': True}
            for selq in ([3, 2], [2], [3, 3, 2]):
                singles = [call(imq.get_frame, k, **flag_kwargs(fl_)) for k in selq]
                batch = call(imq.get_frames, selq, **flag_kwargs(fl_))
                ctx.case(nontrivial_key=('entry', 'selection', tuple(selq), rnd), entry_point='get_frames(selection)')
                caseq = {'stream': 'entry', 'round': rnd, 'entry': 'get_frames', 'family': 'selection', 'selector': selq}
                for k, sres in zip(selq, singles):
                    check_call(ctx, dict(caseq, frame=k - 1), Pq, k - 1, fl_, {}, sres, 'entry/get_frame', hist=False)
                if all(x[0] == 'ok' for x in singles) and (batch[0] != 'ok' or not np.array_equal(batch[1], np.stack([x[1] for x in singles]))):
                    ctx.fail(caseq, {'why': 'get_frames of a selection differs from / is refused unlike the single reads', 'res': str(batch[1:])[:200]},
                             site='entry/get_frames-selection')
        # ---------------- (b) series differing in exactly one parameter family
        for family in ('window', 'rescale', 'presentation', 'modlut', 'rwvm', 'nothing'):
            n = r.choice([3, 4])
            series = ct_series(n, r.randint(1, 3), r.randint(2, 4), rng=nr)
            fn = r.choice([None, 'LINEAR', 'LINEAR_EXACT'])
            m0, b0 = r.choice([Fraction(1), Fraction(2), Fraction(1, 2)]), Fraction(r.randint(-20, 20))
            cs0, ws0, _u = gen_window(r, m0, b0, 1, fn)
            Ps = []
            for i, d in enumerate(series):
                stored = (np.frombuffer(d.PixelData, dtype=np.uint16)[:d.Rows * d.Columns].reshape(d.Rows, d.Columns) % 200).astype(np.uint16)
                data = stored.tobytes()
                d.PixelData = data + (b'\x00' if len(data) % 2 else b'')
                T = {'rescale': [{'place': 'image', 'vals': [[fs(m0), fs(b0)]]}],
                     'window': [{'place': 'image', 'vals': [{'c': cs0, 'w': ws0, 'fn': fn}]}]}
                if family == 'window' and i > 0:
                    cs, ws, _u = gen_window(r, m0, b0, 1, fn)
                    T['window'] = [{'place': 'image', 'vals': [{'c': cs, 'w': ws, 'fn': fn}]}]
                elif family == 'rescale' and i > 0:
                    T['rescale'] = [{'place': 'image', 'vals': [[fs(m0), fs(b0 + i)]]}]
                elif family == 'presentation' and i % 2:
                    T['pres_shape'] = 'INVERSE'
                elif family == 'modlut':
                    del T['rescale']
                    T['mod_lut'] = {'first': 0, 'bits': 8, 'data': [(7 * k + 13 * i) % 256 for k in range(200)]}
                    T['window'] = [{'place': 'image', 'vals': [{'c': ['128'], 'w': ['256'], 'fn': 'LINEAR_EXACT'}]}]
                elif family == 'rwvm':
                    T['rwvm'] = [{'place': 'image', 'vals': [[{'label': 'A', 'unit': UNITS[0], 'first': 0, 'last': 255,
                                                              'slope': fs(Fraction(i + 1)), 'intercept': '0'}]]}]
                add_transforms(d, T, 1)
                Ps.append(_stored_P(d, [stored], T))
            raw = call(hd.image.get_volume_from_series, series, **no_tr)
            if raw[0] != 'ok':
                ctx.note(f'entry-point series not readable: {raw[2]}')
                continue
            order = []
            for k in range(n):
                hit = [j for j, P in enumerate(Ps) if np.array_equal(raw[1].array[k], np.asarray(P['frames'][0]))]
                order.append(hit[0] if len(hit) == 1 else None)
            for voi in (False, None, True):
                for rw in ((None, False) if family == 'rwvm' else (None,)):
                    flags = {'rw': rw, 'mod': None, 'voi': voi, 'pal': None, 'icc': None, 'pres': True}
                    res = call(hd.image.get_volume_from_series, series, **flag_kwargs(flags))
                    ctx.case(nontrivial_key=('entry', 'series', family, str(voi), str(rw), rnd), entry_point='get_volume_from_series', series_family=family)
                    for k in range(n):
                        if order[k] is None:
                            continue
                        one = ('ok', res[1].array[k]) if res[0] == 'ok' else res
                        check_call(ctx, {'stream': 'entry', 'round': rnd, 'entry': 'get_volume_from_series', 'family': family, 'voi': voi, 'rw': rw,
                                         'slice': k, 'instance': order[k]}, Ps[order[k]], 0, flags, {}, one, 'entry/get_volume_from_series/' + family, hist=False)


# ---------------------------------------------------------------------------- narrowing output types (deterministic grid)
def stream_narrowing(ctx, reqs, pending):
    """no transform applied x integer output dtype: nothing present, an identity rescale PRESENT (both attributes, slope only,
    intercept only; image / shared / per-frame), a non-identity rescale, modality switched off - stored values inside and
    outside the output type.  A value that does not fit must be refused, never wrapped."""
    import highdicom.image as hd_image
    variants = {
        'no-rescale': {},
        'identity@image': {'rescale': [{'place': 'image', 'vals': [['1', '0']]}]},
        'identity@shared': {'rescale': [{'place': 'shared', 'vals': [['1', '0']]}]},
        'identity@perframe': {'rescale': [{'place': 'perframe', 'vals': [['1', '0'], ['1', '0']]}]},
        'slope-only': {'rescale': [{'place': 'image', 'vals': [['1', None]]}]},
        'intercept-only': {'rescale': [{'place': 'image', 'vals': [[None, '0']]}]},
        'shift': {'rescale': [{'place': 'image', 'vals': [['1', '-1']]}]},
        'inverse-shape': {'pres_shape': 'INVERSE'},
    }
    images = [
        ('u16', {'bits': 16, 'signed': False, 'bits_stored': 16, 'frames': [[[300, 7, 65535]], [[1, 2, 255]]]}),
        ('s16', {'bits': 16, 'signed': True, 'bits_stored': 16, 'frames': [[[-3, 7, 200]], [[0, 100, 127]]]}),
        ('u8', {'bits': 8, 'signed': False, 'bits_stored': 8, 'frames': [[[200, 7, 255]], [[1, 2, 127]]]}),
    ]
    for iname, base in images:
        for vname, T in variants.items():
            P = dict(base, photometric='MONOCHROME2', T=T)
            st = call(build, P)
            if st[0] != 'ok':
                ctx.note('narrowing image could not be built: ' + st[2])
                continue
            im = st[1][0]
            for mod in (None, False):
                flags = {'rw': None, 'mod': mod, 'voi': False, 'pal': None, 'icc': None, 'pres': True}
                for dname in ('uint8', 'int8', 'uint16', 'int16', 'int32', 'uint32', 'int64'):
                    opts = {'dtype': dname}
                    kw = dict(flag_kwargs(flags), dtype=np.dtype(dname))
                    # L2: the regenerated output-type rules (T6p) against the attributes of the real transform object
                    tr = call(hd_image._CombinedPixelTransform, im, frame_index=0, output_dtype=np.dtype(dname),
                              **{k: v for k, v in kw.items() if k != 'dtype'})
                    if tr[0] == 'ok':
                        t = tr[1]
                        reqs.append(('outputRules', {
                            'has_lut': t._effective_lut_data is not None, 'has_cm': t._color_manager is not None, 'lut_dtype_differs': False,
                            'in_float': t.input_dtype.kind == 'f', 'has_si': t._effective_slope_intercept is not None, 'si_identity': False,
                            'has_window': t._effective_window_center_width is not None, 'out_kind': t.output_dtype.kind,
                            'in_kind': t.input_dtype.kind, 'can_cast_safe': bool(np.can_cast(t.input_dtype, t.output_dtype, 'safe')),
                            'color_type': t._color_type.name}))
                        pending.append(({'stream': 'narrow', 'image': iname, 'variant': vname, 'mod': mod, 'dtype': dname,
                                         'what': 'output-type rules (T6p) vs transform attributes', 'layer': 'L2'},
                                        {'has_si': t._effective_slope_intercept is not None,
                                         'check_output_range': bool(t._check_output_range), 'color_output': bool(t.color_output)}))
                        if dname == 'uint8' and mod is None:
                            codes = {'int8': 108, 'int16': 116, 'int32': 132, 'uint8': 8, 'uint16': 16, 'uint32': 32, 'float32': 232, 'float64': 264}
                            lo_, hi_ = stored_range(P)
                            reqs.append(('inputType', {'is_pmap': False, 'bits_allocated': P['bits'], 'pixel_representation': int(P['signed']),
                                                       'bits_stored': P['bits_stored']}))
                            pending.append(({'stream': 'narrow', 'image': iname, 'variant': vname, 'what': 'type and range of the stored values '
                                             '(T6r) vs the transform object and the range of the reference', 'layer': 'L2'},
                                            {'dtype': codes.get(t.input_dtype.name, -1), 'has_range': True, 'lo': int(lo_), 'hi': int(hi_)}))
                    for f in (0, 1):
                        res = call(im.get_frame, f + 1, **kw)
                        case = {'stream': 'narrow', 'image': iname, 'variant': vname, 'mod': mod, 'dtype': dname, 'frame': f}
                        check_call(ctx, case, P, f, flags, opts, res, 'narrowing/' + vname, hist=False)
                        ctx.case(nontrivial_key=('narrow', iname, vname, mod, dname, f) if res[0] == 'ok' else None,
                                 narrowing=vname, narrowing_outcome=res[0])
                    batch = call(im.get_frames, **kw)
                    singles = [call(im.get_frame, f + 1, **kw) for f in (0, 1)]
                    if all(x[0] == 'ok' for x in singles) and (batch[0] != 'ok' or not np.array_equal(batch[1], np.stack([x[1] for x in singles]))):
                        ctx.fail({'stream': 'narrow', 'image': iname, 'variant': vname, 'mod': mod, 'dtype': dname, 'frame': 'all'},
                                 {'why': 'get_frames differs from the single reads', 'res': str(batch[1:])[:200]}, site='narrowing/get_frames')
    # ---- FLOATING-POINT stored values (parametric maps, BitsAllocated 32 / 64) read with integer and float output types and no
    # transform: a value outside the integer type must be refused, never wrapped (audit 2; unchecked before fix 9e55dbc).  Frames of
    # float pixel data can only be read once the whole array is cached (C05's open finding C05-float-pixel-data-frames), so the
    # array is accessed first.
    from pydicom.uid import ParametricMapStorage
    from gen.pixeltransforms import make_image
    fvals = np.array([[[300.75, -1.5, 7.0, 0.0]], [[3.0, 2.5, 255.0, 127.0]], [[1e10, 65535.0, -32768.0, 1.0]]])
    for bits, fdt in ((32, np.float32), (64, np.float64)):
        ds = make_image({'bits': 16, 'signed': False, 'bits_stored': 16, 'photometric': 'MONOCHROME2',
                         'frames': [[[1, 2, 3, 4]]] * 3, 'T': {}})
        ds.SOPClassUID = ParametricMapStorage
        ds.file_meta.MediaStorageSOPClassUID = ParametricMapStorage
        ds.BitsAllocated = bits
        for k_ in ('BitsStored', 'HighBit', 'PixelData'):
            if k_ in ds:
                del ds[k_]
        arr = fvals.astype(fdt)
        setattr(ds, 'FloatPixelData' if bits == 32 else 'DoubleFloatPixelData', arr.tobytes())
        st = call(hd_image.Image.from_dataset, ds)
        if st[0] != 'ok' or call(lambda: st[1].pixel_array)[0] != 'ok':
            ctx.note('float narrowing image could not be built')
            continue
        im = st[1]
        for dname in ('uint8', 'int8', 'uint16', 'int16', 'int32', 'int64', 'float32', 'float64'):
            odt = np.dtype(dname)
            kw = dict(apply_real_world_transform=False, apply_modality_transform=False, apply_voi_transform=False, dtype=odt)
            tr = call(hd_image._CombinedPixelTransform, im, frame_index=0, output_dtype=odt,
                      apply_real_world_transform=False, apply_modality_transform=False, apply_voi_transform=False)
            if tr[0] == 'ok':
                t = tr[1]
                reqs.append(('outputRules', {
                    'has_lut': t._effective_lut_data is not None, 'has_cm': t._color_manager is not None, 'lut_dtype_differs': False,
                    'in_float': t.input_dtype.kind == 'f', 'has_si': t._effective_slope_intercept is not None, 'si_identity': False,
                    'has_window': t._effective_window_center_width is not None, 'out_kind': t.output_dtype.kind,
                    'in_kind': t.input_dtype.kind, 'can_cast_safe': bool(np.can_cast(t.input_dtype, t.output_dtype, 'safe')),
                    'color_type': t._color_type.name}))
                pending.append(({'stream': 'narrow', 'image': f'float{bits}', 'dtype': dname,
                                 'what': 'output-type rules (T6p) vs transform attributes, float pixels', 'layer': 'L2'},
                                {'has_si': t._effective_slope_intercept is not None,
                                 'check_output_range': bool(t._check_output_range), 'color_output': bool(t.color_output)}))
                if dname == 'uint8':
                    reqs.append(('inputType', {'is_pmap': True, 'bits_allocated': bits, 'pixel_representation': 0, 'bits_stored': bits}))
                    pending.append(({'stream': 'narrow', 'image': f'float{bits}', 'what': 'type of float stored values (T6r)', 'layer': 'L2'},
                                    {'dtype': 200 + bits if t.input_dtype == np.dtype(fdt) else -1, 'has_range': False, 'lo': 0, 'hi': 0}))
            for f in range(arr.shape[0]):
                res = call(im.get_frame, f + 1, **kw)
                case = {'stream': 'narrow', 'image': f'float{bits}', 'variant': 'float-pixels', 'mod': False, 'dtype': dname, 'frame': f}
                x = arr[f]
                fits = True
                if odt.kind in 'ui':
                    info = np.iinfo(odt)
                    fits = bool(x.min() >= info.min and x.max() <= info.max)
                ctx.case(nontrivial_key=('narrow-float', bits, dname, f) if res[0] == 'ok' else None, narrowing='float-pixels',
                         narrowing_outcome=res[0])
                if res[0] == 'ok':
                    if not fits:
                        ctx.fail(case, {'why': 'a float stored value outside the integer output type was cast instead of refused (wrapped)',
                                        'got': np.asarray(res[1]).tolist(), 'stored': x.tolist()}, site='narrowing/float-pixels')
                    elif not np.array_equal(np.asarray(res[1]), x.astype(odt)):
                        ctx.fail(case, {'why': 'float stored values read without transform are not the stored values in the output type',
                                        'got': np.asarray(res[1]).tolist(), 'stored': x.tolist()}, site='narrowing/float-pixels')
                elif fits:
                    ctx.fail(case, {'why': 'float stored values that fit the output type were refused', 'error': res[2]}, site='narrowing/float-pixels')
    ctx.exhaustive.append('narrowing: 3 stored types x 8 variants (no / identity / partial / shifting rescale, inverse) x modality flag x 7 integer dtypes x 2 frames; '
                          'float32 / float64 pixels x 8 output types x 3 frames')
