"""Bridge to the Lean side: translation output, lake build (under a lock), audit, driver."""
from __future__ import annotations

import fcntl
import json
import os
import re
import subprocess
import tempfile
import time

VERIF_ROOT = os.path.dirname(os.path.dirname(os.path.abspath(__file__)))
LEAN_DIR = os.path.join(VERIF_ROOT, 'lean')
ALLOWED_AXIOMS = {'propext', 'Classical.choice', 'Quot.sound'}
BANNED = re.compile(
    r'\bsorry\b|\badmit\b|^axiom\s|native_decide|bv_decide|implemented_by|'
    r'\bunsafe\s|maxHeartbeats\s+0\b'
)


class BuildLock:
    def __enter__(self):
        self.f = open(os.path.join(LEAN_DIR, '.build.lock'), 'w')
        fcntl.flock(self.f, fcntl.LOCK_EX)
        return self

    def __exit__(self, *a):
        fcntl.flock(self.f, fcntl.LOCK_UN)
        self.f.close()


def lake_build(modules, timeout=3000):
    """Build the given modules.  Returns (ok, output, failing) where failing is a list of
    (file, line, message-head) parsed from error lines."""
    t0 = time.time()
    with BuildLock():
        p = subprocess.run(
            ['lake', 'build', *modules], cwd=LEAN_DIR, capture_output=True,
            text=True, timeout=timeout,
        )
    out = p.stdout + p.stderr
    failing = []
    for m in re.finditer(r'^error: ([^\n:]+\.lean):(\d+):(\d+): ([^\n]*)', out, re.M):
        failing.append({'file': m.group(1), 'line': int(m.group(2)), 'msg': m.group(4)[:200]})
    return p.returncode == 0, out, failing, time.time() - t0


def theorem_at(file, line):
    """Name of the theorem/def enclosing `line` in a Lean file (for reporting)."""
    try:
        lines = open(os.path.join(LEAN_DIR, file) if not os.path.isabs(file) else file).read().split('\n')
    except OSError:
        return None
    for i in range(min(line, len(lines)) - 1, -1, -1):
        m = re.match(r'\s*(?:@\[[^\]]*\]\s*)?(?:private\s+|protected\s+)?(theorem|lemma|def|example|instance)\s+([^\s:(\[{]+)?', lines[i])
        if m:
            return m.group(2) or m.group(1)
    return None


def audit(modules, namespace, timeout=1200):
    """Return list of {theorem, axioms} under `namespace` after importing `modules`."""
    src = ''.join(f'import {m}\n' for m in modules) + 'import HdVerif.Audit\n' + f'#audit {namespace}\n'
    with tempfile.NamedTemporaryFile('w', suffix='.lean', dir=LEAN_DIR, delete=False, prefix='.audit_') as f:
        f.write(src)
        path = f.name
    try:
        p = subprocess.run(['lake', 'env', 'lean', path], cwd=LEAN_DIR, capture_output=True, text=True, timeout=timeout)
    finally:
        os.unlink(path)
    m = re.search(r'AUDIT-JSON (.*)', p.stdout + p.stderr)
    if not m:
        raise RuntimeError('audit failed: ' + (p.stdout + p.stderr)[-2000:])
    return json.loads(m.group(1))


def strip_comments(text):
    text = re.sub(r'/-.*?-/', lambda m: '\n' * m.group(0).count('\n'), text, flags=re.S)
    text = re.sub(r'--[^\n]*', '', text)
    return text


def grep_banned(files):
    hits = []
    for f in files:
        try:
            text = strip_comments(open(f).read())
        except OSError:
            continue
        for i, line in enumerate(text.split('\n'), 1):
            if BANNED.search(line):
                hits.append(f'{os.path.relpath(f, VERIF_ROOT)}:{i}: {line.strip()[:120]}')
    return hits


def lean_sources_for(modules):
    """Transitive closure of project-local imports of the given modules -> file paths."""
    seen, todo, files = set(), list(modules), []
    while todo:
        m = todo.pop()
        if m in seen or not m.startswith('HdVerif'):
            continue
        seen.add(m)
        path = os.path.join(LEAN_DIR, *m.split('.')) + '.lean'
        if not os.path.exists(path):
            continue
        files.append(path)
        for mm in re.finditer(r'^import\s+(\S+)', open(path).read(), re.M):
            todo.append(mm.group(1))
    return files


class Driver:
    """Runs `lake env lean --run Drivers/<name>.lean` over a batch of requests."""

    def __init__(self, driver_file):
        self.driver_file = driver_file
        self.calls = 0
        self.requests = 0

    def batch(self, requests, timeout=3000):
        """requests: list of (fn, args-dict).  Returns list of parsed JSON answers."""
        if not requests:
            return []
        self.calls += 1
        self.requests += len(requests)
        with tempfile.TemporaryDirectory(prefix='hdv_drv_') as td:
            inp = os.path.join(td, 'in.jsonl')
            outp = os.path.join(td, 'out.jsonl')
            with open(inp, 'w') as f:
                for fn, args in requests:
                    f.write(json.dumps({'fn': fn, 'args': args}, separators=(',', ':')) + '\n')
            with open(inp) as fi, open(outp, 'w') as fo:
                p = subprocess.run(
                    ['lake', 'env', 'lean', '--run', self.driver_file], cwd=LEAN_DIR,
                    stdin=fi, stdout=fo, stderr=subprocess.PIPE, text=True, timeout=timeout,
                )
            if p.returncode != 0:
                raise RuntimeError(f'driver {self.driver_file} failed: {p.stderr[-3000:]}')
            out = [json.loads(line) for line in open(outp) if line.strip()]
        if len(out) != len(requests):
            raise RuntimeError(f'driver returned {len(out)} answers for {len(requests)} requests')
        return out
