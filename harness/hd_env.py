"""Environment for running highdicom from the verification harness.

* `HD_REPO` (default /repo) selects the source tree; its `src` is put first on sys.path so
  scratch copies override the editable install of /venv.
* The pinned tree ships `highdicom/_modules.py` EMPTY.  Every SOP-class constructor asks that
  module presence questions, so without it nothing at SOP-class level runs.  `install_shim()`
  installs a reduced attribute table as `sys.modules['highdicom._modules']` -- only when the
  real module has no MODULE_ATTRIBUTE_MAP.  The table answers presence / type questions only
  (DESIGN.md section 1, trusted base section 9).
* `rng(prop, stream, seed)` gives the deterministic PRNG used by all generators.
"""
from __future__ import annotations

import hashlib
import os
import random
import sys
import types
import warnings

HD_REPO = os.environ.get('HD_REPO', '/repo')
VERIF_ROOT = os.path.dirname(os.path.dirname(os.path.abspath(__file__)))


def _A(kw, typ='3', path=()):
    return {'keyword': kw, 'type': typ, 'path': list(path)}


def _build_table(keys):
    M = {k: [] for k in keys}
    for k in keys:
        if k.endswith('multi-frame-functional-groups') or k == 'multi-frame':
            M[k] += [
                _A('NumberOfFrames', '1'),
                _A('SharedFunctionalGroupsSequence', '1C'),
                _A('PerFrameFunctionalGroupsSequence', '1C'),
                _A('InstanceNumber', '1'),
                _A('ContentDate', '1'),
                _A('ContentTime', '1'),
            ]
    px = [
        _A('SamplesPerPixel', '1'), _A('PhotometricInterpretation', '1'),
        _A('Rows', '1'), _A('Columns', '1'), _A('BitsAllocated', '1'),
        _A('BitsStored', '1'), _A('HighBit', '1'),
        _A('PixelRepresentation', '1'), _A('PlanarConfiguration', '1C'),
        _A('PixelData', '1C'),
    ]
    for k in keys:
        if k == 'image-pixel' or k.endswith('-image-pixel') and 'floating' not in k:
            M[k] += px
    if 'floating-point-image-pixel' in M:
        M['floating-point-image-pixel'] += [
            _A('SamplesPerPixel', '1'), _A('PhotometricInterpretation', '1'),
            _A('Rows', '1'), _A('Columns', '1'), _A('BitsAllocated', '1'),
            _A('FloatPixelData', '1'),
        ]
    if 'double-floating-point-image-pixel' in M:
        M['double-floating-point-image-pixel'] += [
            _A('SamplesPerPixel', '1'), _A('PhotometricInterpretation', '1'),
            _A('Rows', '1'), _A('Columns', '1'), _A('BitsAllocated', '1'),
            _A('DoubleFloatPixelData', '1'),
        ]
    if 'general-image' in M:
        M['general-image'] += [
            _A('InstanceNumber', '2'), _A('ContentDate', '2C'),
            _A('ContentTime', '2C'), _A('ImageType', '3'),
            _A('PatientOrientation', '2C'),
        ]
    for k in ('sc-image', 'sc-multi-frame-image'):
        if k in M:
            M[k] += [_A('PixelSpacing', '1C')]
    M.setdefault('patient', [])
    M['patient'] += [
        _A('PatientName', '2'), _A('PatientID', '2'),
        _A('PatientBirthDate', '2'), _A('PatientSex', '2'),
        _A('IssuerOfPatientID', '3'), _A('OtherPatientIDsSequence', '3'),
    ]
    M.setdefault('general-study', [])
    M['general-study'] += [
        _A('StudyInstanceUID', '1'), _A('StudyDate', '2'),
        _A('StudyTime', '2'), _A('ReferringPhysicianName', '2'),
        _A('StudyID', '2'), _A('AccessionNumber', '2'),
        _A('StudyDescription', '3'),
    ]
    M.setdefault('patient-study', [])
    M['patient-study'] += [
        _A('PatientAge', '3'), _A('PatientSize', '3'),
        _A('PatientWeight', '3'), _A('AdmittingDiagnosesDescription', '3'),
    ]
    M.setdefault('clinical-trial-subject', [])
    M['clinical-trial-subject'] += [
        _A('ClinicalTrialSponsorName', '1'),
        _A('ClinicalTrialProtocolID', '1'),
        _A('ClinicalTrialSubjectID', '1C'),
    ]
    M.setdefault('clinical-trial-study', [])
    M['clinical-trial-study'] += [_A('ClinicalTrialTimePointID', '2')]
    M.setdefault('specimen', [])
    sds = ['SpecimenDescriptionSequence']
    M['specimen'] += [
        _A('ContainerIdentifier', '1'),
        _A('IssuerOfTheContainerIdentifierSequence', '2'),
        _A('ContainerTypeCodeSequence', '2'),
        _A('ContainerDescription', '3'),
        _A('SpecimenDescriptionSequence', '1'),
        _A('SpecimenIdentifier', '1', sds),
        _A('SpecimenUID', '1', sds),
        _A('IssuerOfTheSpecimenIdentifierSequence', '2', sds),
        _A('SpecimenShortDescription', '3', sds),
        _A('SpecimenDetailedDescription', '3', sds),
        _A('SpecimenPreparationSequence', '2', sds),
        _A('SpecimenPreparationStepContentItemSequence', '1',
           sds + ['SpecimenPreparationSequence']),
        _A('PrimaryAnatomicStructureSequence', '3', sds),
        _A('SpecimenLocalizationContentItemSequence', '1C', sds),
    ]
    M.setdefault('segmentation-image', [])
    ss = ['SegmentSequence']
    sa = ss + ['SegmentationAlgorithmIdentificationSequence']
    M['segmentation-image'] += [
        _A('ImageType', '1'), _A('InstanceNumber', '1'),
        _A('ContentLabel', '1'), _A('ContentDescription', '2'),
        _A('ContentCreatorName', '2'), _A('SegmentationType', '1'),
        _A('SegmentsOverlap', '3'),
        _A('SegmentationFractionalType', '1C'),
        _A('MaximumFractionalValue', '1C'),
        _A('SegmentSequence', '1'),
        _A('SegmentNumber', '1', ss), _A('SegmentLabel', '1', ss),
        _A('SegmentDescription', '3', ss),
        _A('SegmentAlgorithmType', '1', ss),
        _A('SegmentAlgorithmName', '1C', ss),
        _A('SegmentedPropertyCategoryCodeSequence', '1', ss),
        _A('SegmentedPropertyTypeCodeSequence', '1', ss),
        _A('AnatomicRegionSequence', '3', ss),
        _A('PrimaryAnatomicStructureSequence', '3', ss),
        _A('SegmentationAlgorithmIdentificationSequence', '3', ss),
        _A('AlgorithmFamilyCodeSequence', '1', sa),
        _A('CodeValue', '1C', sa + ['AlgorithmFamilyCodeSequence']),
        _A('CodingSchemeDesignator', '1C', sa + ['AlgorithmFamilyCodeSequence']),
        _A('CodeMeaning', '1', sa + ['AlgorithmFamilyCodeSequence']),
        _A('AlgorithmName', '1', sa), _A('AlgorithmVersion', '1', sa),
        _A('TrackingID', '1C', ss), _A('TrackingUID', '1C', ss),
    ]
    key = 'segmentation-multi-frame-functional-groups'
    M.setdefault(key, [])
    pf = ['PerFrameFunctionalGroupsSequence']
    M[key] += [
        _A('PlanePositionSlideSequence', '1C', pf),
        _A('XOffsetInSlideCoordinateSystem', '1',
           pf + ['PlanePositionSlideSequence']),
        _A('YOffsetInSlideCoordinateSystem', '1',
           pf + ['PlanePositionSlideSequence']),
        _A('ZOffsetInSlideCoordinateSystem', '1',
           pf + ['PlanePositionSlideSequence']),
        _A('ColumnPositionInTotalImagePixelMatrix', '1',
           pf + ['PlanePositionSlideSequence']),
        _A('RowPositionInTotalImagePixelMatrix', '1',
           pf + ['PlanePositionSlideSequence']),
    ]
    key = 'microscopy-bulk-simple-annotations'
    M.setdefault(key, [])
    ag = ['AnnotationGroupSequence']
    ms = ag + ['MeasurementsSequence']
    M[key] += [
        _A('AnnotationCoordinateType', '1'),
        _A('PixelOriginInterpretation', '1C'),
        _A('AnnotationGroupSequence', '1'),
        _A('AnnotationGroupNumber', '1', ag),
        _A('AnnotationGroupUID', '1', ag),
        _A('AnnotationGroupLabel', '1', ag),
        _A('AnnotationGroupDescription', '3', ag),
        _A('AnnotationGroupGenerationType', '1', ag),
        _A('AnnotationGroupAlgorithmIdentificationSequence', '1C', ag),
        _A('AnnotationPropertyCategoryCodeSequence', '1', ag),
        _A('AnnotationPropertyTypeCodeSequence', '1', ag),
        _A('NumberOfAnnotations', '1', ag),
        _A('AnnotationAppliesToAllOpticalPaths', '1', ag),
        _A('AnnotationAppliesToAllZPlanes', '1C', ag),
        _A('GraphicType', '1', ag),
        _A('PointCoordinatesData', '1C', ag),
        _A('DoublePointCoordinatesData', '1C', ag),
        _A('LongPrimitivePointIndexList', '1C', ag),
        _A('CommonZCoordinateValue', '1C', ag),
        _A('MeasurementsSequence', '3', ag),
        _A('ConceptNameCodeSequence', '1', ms),
        _A('MeasurementUnitsCodeSequence', '1', ms),
        _A('MeasurementValuesSequence', '1', ms),
        _A('FloatingPointValues', '1', ms + ['MeasurementValuesSequence']),
        _A('AnnotationIndexList', '1C', ms + ['MeasurementValuesSequence']),
    ]
    return M


def install_shim() -> bool:
    """Install the attribute-table shim if (and only if) the real one is empty."""
    if HD_REPO + '/src' not in sys.path:
        sys.path.insert(0, HD_REPO + '/src')
    try:
        from highdicom._modules import MODULE_ATTRIBUTE_MAP  # noqa: F401
        return False
    except ImportError:
        pass
    for name in list(sys.modules):
        if name == 'highdicom._modules':
            del sys.modules[name]
    from highdicom._iods import IOD_MODULE_MAP
    keys = {m['key'] for v in IOD_MODULE_MAP.values() for m in v}
    m = types.ModuleType('highdicom._modules')
    m.MODULE_ATTRIBUTE_MAP = _build_table(keys)
    m.__verif_shim__ = True
    sys.modules['highdicom._modules'] = m
    import highdicom
    highdicom._modules = m
    return True


def setup():
    """Call first in every harness process."""
    warnings.simplefilter('ignore')
    import logging
    logging.disable(logging.CRITICAL)
    shim = install_shim()
    import highdicom  # noqa: F401
    src = os.path.realpath(os.path.dirname(highdicom.__file__))
    want = os.path.realpath(HD_REPO + '/src/highdicom')
    if src != want:
        raise RuntimeError(f'highdicom imported from {src}, expected {want}')
    return shim


def rng(prop: str, stream: str, seed: int, index: int = 0) -> random.Random:
    h = hashlib.sha256(f'{seed}|{prop}|{stream}|{index}'.encode()).digest()
    return random.Random(int.from_bytes(h[:8], 'big'))


def np_rng(prop: str, stream: str, seed: int, index: int = 0):
    import numpy as np
    h = hashlib.sha256(f'{seed}|{prop}|{stream}|{index}'.encode()).digest()
    return np.random.default_rng(int.from_bytes(h[:8], 'big'))
